"""C07 -- WSDL/XSD are well-formed, closed, deterministic and drive a foreign client.

Obligations: theorems of coq/Props/C07.v over the model coq/C07/Model.v, which takes the decisive
tokens of the emitters from Gen/WsdlGen.v (harness/translate/wsdlgen.py reads them from the tree
under test on every run).
Tie: for seeded generated applications the real Wsdl11.build_interface_document() of the tree
under test is run, its bytes are parsed into the token skeleton of the model (every defined name,
every QName with the prefix written, the xmlns table of wsdl:definitions) and compared with the
model evaluated on a snapshot of the populated Interface; the same cases evaluate the decidable
hypotheses of the theorems (wf_snapb, key_injb, tier_sepb) on the snapshot.
Direct oracle (implementation alone): reference resolution over the parsed bytes,
one-operation-per-method, byte identity across fresh processes under different PYTHONHASHSEEDs and
across rebuilds in one process, and a zeep client built from the WSDL alone talking to the
WsgiApplication in-process."""
import os, sys, json, base64, hashlib, subprocess, copy, io

if __name__ != '__main__':
    import lib
    from lib import gz, gtext, glist, gbool, gopt, gpair

THEOREMS = ['C07_prefix_inj', 'C07_prefix_unique', 'C07_prefix_total', 'C07_sort_det', 'C07_toposort_total',
            'C07_toposort_sound', 'C07_toposort_det', 'C07_doc_det', 'C07_doc_det_decidable', 'C07_doc_det_tiers',
            'C07_topo_key_names',
            'C07_wsdl_closed', 'C07_one_op', 'C07_binding_unique', 'C07_binding_ops', 'C07_schema_closed',
            'C07_imports_closed', 'C07_rebuilds_schema', 'C07_resets_tables',
            'C07_wf_decidable', 'C07_foreign_bare_refuted', 'C07_header_reuse_refuted']

HERE = os.path.abspath(__file__)
PY = '/venv/bin/python'
NS_XSD = 'http://www.w3.org/2001/XMLSchema'
NS_WSDL = 'http://schemas.xmlsoap.org/wsdl/'
NS_SOAP = 'http://schemas.xmlsoap.org/wsdl/soap/'
XS = '{%s}' % NS_XSD
WS = '{%s}' % NS_WSDL
SP = '{%s}' % NS_SOAP
WSDL_URL = 'http://c07.invalid/app?wsdl'
XSD_BUILTINS = set('''string boolean decimal float double duration dateTime time date gYearMonth gYear
gMonthDay gDay gMonth hexBinary base64Binary anyURI QName NOTATION normalizedString token language
NMTOKEN NMTOKENS Name NCName ID IDREF IDREFS ENTITY ENTITIES integer nonPositiveInteger negativeInteger
long int short byte nonNegativeInteger unsignedLong unsignedInt unsignedShort unsignedByte positiveInteger
anyType anySimpleType'''.split())

PRIMS = ['Unicode', 'Integer', 'Boolean']
NSPOOL = ['urn:c07:a', 'urn:c07:b', 'urn:c07:c', 'http://example.com/c07/d', 'urn:c07:e']


# =============================================================== spec generation
def gen_typeref(rng, ncls, depth=0):
    r = rng.random()
    if ncls and r < 0.35:
        return ['cls', rng.randrange(ncls)]
    if depth == 0 and r < 0.5:
        return ['array', gen_typeref(rng, ncls, 1)]
    return ['prim', rng.choice(PRIMS)]

def gen_spec(rng, size='m'):
    big = {'s': 0, 'm': 1, 'l': 2}[size]
    tns = rng.choice(['urn:c07:tns', 'http://example.com/c07/tns', 'urn:c07:a'])
    spec = {'tns': tns, 'name': rng.choice(['App', 'Appl', 'MyApp']), 'classes': [], 'faults': [], 'services': []}
    ncls = rng.randint(0, 2 + 3 * big)
    for i in range(ncls):
        base = None
        if i and rng.random() < 0.3:
            base = rng.randrange(i)
        nf = rng.randint(0 if base is not None else 1, 3)
        fields = []
        for j in range(nf):
            ft = gen_typeref(rng, i)
            if ft[0] == 'cls' and rng.random() < 0.3:
                # a customised variant that differs from the class in sub_name only (the member element is renamed)
                ft = ['cls', ft[1], 'sub%d_%d' % (i, j)]
            fields.append(['f%d_%d' % (i, j), ft])
        spec['classes'].append({'name': 'K%d' % i, 'ns': rng.choice(NSPOOL + [None, None]), 'base': base,
                                'fields': fields})
    for i in range(rng.randint(0, 2)):
        spec['faults'].append({'name': 'Flt%d' % i, 'ns': rng.choice(NSPOOL + [None])})
    nsv = rng.choice([1, 1, 2, 2, 3]) if big else rng.choice([1, 2])
    mi = 0
    nonempty = [i for i, c in enumerate(spec['classes']) if c['fields']]
    for si in range(nsv):
        ports = []
        if rng.random() < 0.45:
            ports = ['Port%d_%d' % (si, k) for k in range(rng.randint(1, 3))]
        sv = {'name': 'Svc%d' % si, 'service_name': rng.choice([None, None, 'Named%d' % si]),
              'ports': ports, 'in_header': None, 'out_header': None, 'methods': []}
        if ncls and rng.random() < 0.2:
            sv['in_header'] = [rng.randrange(ncls)]
        for _ in range(rng.randint(1, 2 + 2 * big)):
            style = rng.choice(['wrapped', 'wrapped', 'wrapped', 'bare', 'out_bare'])
            m = {'fn': 'm%d' % mi, 'style': style, 'port': rng.choice(ports) if ports else None,
                 'op': None, 'in_name': None, 'out_name': None, 'out_var': None,
                 'in_header': None, 'out_header': None, 'throws': []}
            if style == 'bare':
                r = rng.random()
                if r < 0.2:
                    m['params'] = []
                elif nonempty and r < 0.6:
                    m['params'] = [['cls', rng.choice(nonempty)]]
                else:
                    m['params'] = [['prim', rng.choice(PRIMS)]]
            else:
                m['params'] = [gen_typeref(rng, ncls) for _ in range(rng.randint(0, 3))]
            r = rng.random()
            if style == 'wrapped':
                if r < 0.15:
                    m['returns'] = None
                elif r < 0.3:
                    m['returns'] = [gen_typeref(rng, ncls), gen_typeref(rng, ncls)]
                else:
                    m['returns'] = gen_typeref(rng, ncls)
            else:
                if nonempty and r < 0.5:
                    m['returns'] = ['cls', rng.choice(nonempty)]
                else:
                    m['returns'] = ['prim', rng.choice(PRIMS)]
            complex_in = style == 'bare' and m['params'] and m['params'][0][0] == 'cls'
            simple_in = style == 'bare' and m['params'] and m['params'][0][0] == 'prim'
            complex_out = style != 'wrapped' and m['returns'][0] == 'cls'
            simple_out = style != 'wrapped' and m['returns'][0] == 'prim'
            r = rng.random()
            if r < 0.12:
                m['op'] = 'Op%d' % mi
            elif r < 0.4:
                # a foreign namespace on a bare message is the region of the two known findings
                if (complex_in or simple_in) or rng.random() < 0.4:
                    m['in_name'] = 'In%d' % mi
                else:
                    m['in_name'] = '{%s}In%d' % (rng.choice(NSPOOL), mi)
            if rng.random() < 0.3:
                if (complex_out or simple_out) or rng.random() < 0.4:
                    m['out_name'] = 'Out%d' % mi
                else:
                    m['out_name'] = '{%s}Out%d' % (rng.choice(NSPOOL), mi)
            if style == 'wrapped' and m['returns'] is not None and not isinstance(m['returns'][0], list) \
                    and rng.random() < 0.15:
                m['out_var'] = 'ret%d' % mi
            if ncls:
                r = rng.random()
                if r < 0.2:
                    m['in_header'] = [rng.randrange(ncls)]
                elif r < 0.3 and ncls >= 2:
                    m['in_header'] = rng.sample(range(ncls), 2)
                r = rng.random()
                if r < 0.15:
                    m['out_header'] = [rng.randrange(ncls)]
                elif r < 0.22 and ncls >= 2:
                    m['out_header'] = rng.sample(range(ncls), 2)
            if spec['faults'] and rng.random() < 0.35:
                m['throws'] = rng.sample(range(len(spec['faults'])), rng.randint(1, len(spec['faults'])))
            sv['methods'].append(m)
            mi += 1
        spec['services'].append(sv)
    # prefixes of the form sN registered by hand before the build (the case the loop
    # "while pref in self.nsmap" of get_namespace_prefix exists for)
    if rng.random() < 0.3:
        prefs = rng.sample(['s0', 's1', 's2', 's3', 's5'], rng.randint(1, 2))
        nss = rng.sample([n for n in NSPOOL + ['urn:c07:unused'] if n != tns], len(prefs))
        spec['preprefix'] = [[p, n] for p, n in zip(prefs, nss)]
    return spec

def M(fn, params=(), returns=('prim', 'Unicode'), style='wrapped', **kw):
    m = {'fn': fn, 'style': style, 'port': None, 'op': None, 'in_name': None, 'out_name': None, 'out_var': None,
         'in_header': None, 'out_header': None, 'throws': [], 'params': [list(p) for p in params],
         'returns': list(returns) if returns is not None else None}
    m.update(kw)
    return m

def S(name, methods, ports=(), **kw):
    s = {'name': name, 'service_name': None, 'ports': list(ports), 'in_header': None, 'out_header': None,
         'methods': methods}
    s.update(kw)
    return s

def fixed_specs():
    """boundary applications and the theorem witnesses; always run first"""
    K = [{'name': 'K0', 'ns': 'urn:c07:a', 'base': None, 'fields': [['x', ['prim', 'Integer']]]},
         {'name': 'K1', 'ns': 'urn:c07:b', 'base': 0, 'fields': [['y', ['prim', 'Unicode']], ['k', ['cls', 0]]]},
         {'name': 'K2', 'ns': 'urn:c07:c', 'base': None, 'fields': [['z', ['array', ['cls', 1]]]]},
         {'name': 'K3', 'ns': None, 'base': None, 'fields': [['w', ['prim', 'Boolean']]]}]
    F = [{'name': 'Flt0', 'ns': 'urn:c07:e'}, {'name': 'Flt1', 'ns': None}]
    out = []
    # minimal
    out.append(('minimal', {'tns': 'urn:c07:tns', 'name': 'App', 'classes': [], 'faults': [],
                            'services': [S('Svc0', [M('m0', [('prim', 'Unicode')])])]}))
    # two port types in one service, headers from other namespaces, faults, foreign message namespaces
    out.append(('ports-headers-faults-foreign', {
        'tns': 'urn:c07:tns', 'name': 'App', 'classes': K, 'faults': F, 'services': [
            S('Svc0', [M('m0', [('prim', 'Unicode')], port='PA', in_header=[0], throws=[0]),
                       M('m1', [('cls', 1)], ('cls', 0), port='PB', in_header=[0, 3], out_header=[2]),
                       M('m2', [], None, port='PA', throws=[0, 1])], ports=['PA', 'PB']),
            S('Svc1', [M('m3', [('prim', 'Integer')], ('prim', 'Integer'), in_name='{urn:c07:d}In3',
                         out_name='{urn:c07:e}Out3'),
                       M('m4', [('prim', 'Integer')], ('array', ['cls', 1]), op='OpFour'),
                       M('m5', [('cls', 3)], ('cls', 1), style='bare'),
                       M('m6', [('prim', 'Unicode')], ('prim', 'Integer'), style='out_bare', out_name='Out6'),
                       M('m7', [], ('prim', 'Unicode'), style='bare')]),
            S('Svc2', [M('m8', [('array', ['prim', 'Unicode'])], [['prim', 'Unicode'], ['cls', 3]])],
              service_name='Named2')]}))
    # many imports into one schema: the hash-seed sensitive spot of the pinned tree
    KI = [{'name': 'I%d' % i, 'ns': NSPOOL[i], 'base': None, 'fields': [['v', ['prim', 'Integer']]]} for i in range(5)]
    KI.append({'name': 'Hub', 'ns': None, 'base': None, 'fields': [['p%d' % i, ['cls', i]] for i in range(5)]})
    out.append(('many-imports', {'tns': 'urn:c07:tns', 'name': 'App', 'classes': KI, 'faults': [], 'services': [
        S('Svc0', [M('m0', [('cls', 5)], ('cls', 5))])]}))
    # hand-registered prefixes s0 / s1 in the way of the automatic ones
    out.append(('preregistered-prefixes', {'tns': 'urn:c07:tns', 'name': 'App', 'classes': K, 'faults': [],
                                           'preprefix': [['s0', 'urn:c07:c'], ['s1', 'urn:c07:unused']], 'services': [
        S('Svc0', [M('m0', [('cls', 1)], ('cls', 2), in_header=[0])])]}))
    # applications that check_method_port refuses (ValueError from build_interface_document): not in the domain of
    # the property, but the model has to refuse them too
    out.append(('rejected-port-not-declared', {'tns': 'urn:c07:tns', 'name': 'App', 'classes': [], 'faults': [],
                                               'expect_reject': 'ValueError', 'services': [
        S('Svc0', [M('m0', port='PA'), M('m1', port='PX')], ports=['PA'])]}))
    out.append(('rejected-port-on-default-service', {'tns': 'urn:c07:tns', 'name': 'App', 'classes': [], 'faults': [],
                                                     'expect_reject': 'ValueError', 'services': [
        S('Svc0', [M('m0', port='PA')])]}))
    out.append(('rejected-no-port-on-ported-service', {'tns': 'urn:c07:tns', 'name': 'App', 'classes': [], 'faults': [],
                                                       'expect_reject': 'ValueError', 'services': [
        S('Svc0', [M('m0')], ports=['PA'])]}))
    # a bare method whose argument class lives in a namespace that nothing else pulls into the tns schema: the
    # request element sits in the tns schema and its type= needs the xs:import that add_method registers
    out.append(('bare-argument-in-foreign-ns', {'tns': 'urn:c07:tns', 'name': 'App', 'classes': [
        {'name': 'Place', 'ns': 'urn:c07:geo', 'base': None, 'fields': [['lat', ['prim', 'Integer']], ['name', ['prim', 'Unicode']]]},
        {'name': 'Tag', 'ns': 'urn:c07:tags', 'base': None, 'fields': [['t', ['prim', 'Unicode']]]}],
        'faults': [], 'services': [
        S('Svc0', [M('locate', [('cls', 0)], ('prim', 'Unicode'), style='bare'),
                   M('tag', [('prim', 'Unicode')], ('cls', 1), style='out_bare')])]}))
    # one class used as a member through variants that differ in sub_name only (ties in toposort2 unless the key
    # has the sub_name)
    out.append(('subname-variants', {'tns': 'urn:c07:tns', 'name': 'App', 'classes': [
        {'name': 'Address', 'ns': 'urn:c07:a', 'base': None, 'fields': [['street', ['prim', 'Unicode']]]},
        {'name': 'Order', 'ns': 'urn:c07:b', 'base': None, 'fields': [
            ['billing', ['cls', 0, 'billingAddress']], ['shipping', ['cls', 0, 'shippingAddress']],
            ['pickup', ['cls', 0, 'pickupAddress']], ['home', ['cls', 0, 'homeAddress']], ['plain', ['cls', 0]]]}],
        'faults': [], 'services': [S('Svc0', [M('place', [('cls', 1)], ('cls', 1))])]}))
    # three port types
    out.append(('three-ports', {'tns': 'urn:c07:tns', 'name': 'App', 'classes': [], 'faults': [], 'services': [
        S('Svc0', [M('m0', port='P1'), M('m1', port='P0'), M('m2', port='P2'), M('m3', port='P0')],
          ports=['P0', 'P1', 'P2'])]}))
    return out

def finding_specs():
    """applications inside the regions of the known findings (each a refuted-theorem witness)"""
    K = [{'name': 'K0', 'ns': 'urn:c07:a', 'base': None, 'fields': [['x', ['prim', 'Integer']]]}]
    out = []
    out.append(('shared-port-type', {'tns': 'urn:c07:tns', 'name': 'App', 'classes': [], 'faults': [], 'services': [
        S('Svc0', [M('m0', port='P')], ports=['P']), S('Svc1', [M('m1', port='P')], ports=['P'])]}))
    out.append(('bare-simple-foreign-ns', {'tns': 'urn:c07:tns', 'name': 'App', 'classes': [], 'faults': [], 'services': [
        S('Svc0', [M('m0', [('prim', 'Unicode')], ('prim', 'Integer'), style='bare', in_name='{urn:c07:o}foo')])]}))
    out.append(('bare-complex-foreign-ns', {'tns': 'urn:c07:tns', 'name': 'App', 'classes': K, 'faults': [], 'services': [
        S('Svc0', [M('m0', [('cls', 0)], ('cls', 0), style='bare', in_name='{urn:c07:o}foo')])]}))
    out.append(('bare-class-reused-as-header', {'tns': 'urn:c07:tns', 'name': 'App', 'classes': K, 'faults': [], 'services': [
        S('Svc0', [M('m0', [('prim', 'Unicode')], ('cls', 0), style='out_bare'),
                   M('m1', [('prim', 'Unicode')], ('prim', 'Unicode'), in_header=[0])])]}))
    out.append(('subname-variant-reused-as-header', {'tns': 'urn:c07:tns', 'name': 'App', 'classes': [
        {'name': 'K0', 'ns': 'urn:c07:a', 'base': None, 'fields': [['x', ['prim', 'Integer']]]},
        {'name': 'K1', 'ns': 'urn:c07:b', 'base': None, 'fields': [['k', ['cls', 0, 'renamed']]]}], 'faults': [], 'services': [
        S('Svc0', [M('m0', [('cls', 1)], ('prim', 'Unicode')),
                   M('m1', [('prim', 'Unicode')], ('prim', 'Unicode'), in_header=[0])])]}))
    # wrapped request published in a foreign namespace: the schema is fine, the server does not find the method
    out.append(('foreign-wrapped-in-message', {'tns': 'urn:c07:tns', 'name': 'App', 'classes': [], 'faults': [], 'services': [
        S('Svc0', [M('m0', [('prim', 'Unicode')], in_name='{urn:c07:e}In0')])]}))
    out.append(('cyclic-types', {'tns': 'urn:c07:tns', 'name': 'App', 'cyclic': True, 'classes': [
        {'name': 'K0', 'ns': 'urn:c07:a', 'base': None, 'fields': [['x', ['prim', 'Integer']]]},
        {'name': 'K1', 'ns': 'urn:c07:a', 'base': None, 'fields': [['a', ['cls', 0]]]}], 'faults': [], 'services': [
        S('Svc0', [M('m0', [('cls', 0)], ('cls', 1))])]}))
    return out


# =============================================================== building the real application
class Built(object):
    pass

def sample_value(tr, classes, rng, depth=0):
    """(spyne-side value, expected client-side shape)"""
    k = tr[0]
    if k == 'prim':
        if tr[1] == 'Unicode':
            v = rng.choice(['ab', 'hello world', 'x<y&z', u'été', 'tab\there'])
        elif tr[1] == 'Integer':
            v = rng.choice([0, 1, -7, 2 ** 40, 12345])
        else:
            v = rng.choice([True, False])
        return v
    if k == 'array':
        return [sample_value(tr[1], classes, rng, depth + 1) for _ in range(rng.randint(1, 3))]
    c = classes[tr[1]]
    d = {}
    if c['base'] is not None:
        d.update(sample_value(['cls', c['base']], classes, rng, depth + 1))
    for fn, ft in c['fields']:
        d[fn] = sample_value(ft, classes, rng, depth + 1)
    return d

def member_name(tr, classes):
    if tr[0] == 'prim':
        return {'Unicode': 'string', 'Integer': 'integer', 'Boolean': 'boolean'}[tr[1]]
    if tr[0] == 'cls':
        return classes[tr[1]]['name']
    return member_name(tr[1], classes) + 'Array'

def client_shape(tr, v, classes):
    """how a WSDL-driven client sees value v of type tr (arrays are wrapper elements)"""
    if v is None:
        return None
    if tr[0] == 'prim':
        return v
    if tr[0] == 'array':
        return {member_name(tr[1], classes): [client_shape(tr[1], x, classes) for x in v]}
    c = classes[tr[1]]
    d = {}
    if c['base'] is not None:
        d.update(client_shape(['cls', c['base']], v, classes))
    for fn, ft in c['fields']:
        key = ft[2] if ft[0] == 'cls' and len(ft) > 2 else fn      # sub_name renames the member element
        d[key] = client_shape(ft, v.get(fn), classes)
    return d

def build_app(spec, validator=None):
    """spec -> real spyne Application (fresh classes every time); validator: None | 'soft' | 'lxml' on the input protocol"""
    from spyne import Application, Service, rpc, ComplexModel, Unicode, Integer, Boolean, Fault, Array
    from spyne.protocol.soap import Soap11
    prim = {'Unicode': Unicode, 'Integer': Integer, 'Boolean': Boolean}
    classes = []
    def ty(tr):
        if tr[0] == 'prim':
            return prim[tr[1]]
        if tr[0] == 'cls':
            return classes[tr[1]].customize(sub_name=tr[2]) if len(tr) > 2 else classes[tr[1]]
        return Array(ty(tr[1]))
    for c in spec['classes']:
        base = ComplexModel if c['base'] is None else classes[c['base']]
        attrs = {'__module__': 'c07gen', '_type_info': [(fn, ty(ft)) for fn, ft in c['fields']]}
        if c['ns'] is not None:
            attrs['__namespace__'] = c['ns']
        classes.append(type(base)(str(c['name']), (base,), attrs))
    if spec.get('cyclic'):
        classes[0].append_field('back', classes[1])
    faults = []
    for f in spec['faults']:
        attrs = {'__module__': 'c07gen'}
        if f['ns'] is not None:
            attrs['__namespace__'] = f['ns']
        faults.append(type(Fault)(str(f['name']), (Fault,), attrs))
    b = Built()
    b.calls = []
    b.returns = {}
    b.out_headers = {}
    services = []
    for sv in spec['services']:
        attrs = {'__module__': 'c07gen'}
        if sv['ports']:
            attrs['__port_types__'] = list(sv['ports'])
        if sv.get('service_name'):
            attrs['__service_name__'] = sv['service_name']
        if sv.get('in_header'):
            attrs['__in_header__'] = tuple(classes[i] for i in sv['in_header'])
        if sv.get('out_header'):
            attrs['__out_header__'] = tuple(classes[i] for i in sv['out_header'])
        for m in sv['methods']:
            kw = {}
            if m['returns'] is not None:
                if isinstance(m['returns'][0], list):
                    kw['_returns'] = tuple(ty(t) for t in m['returns'])
                else:
                    kw['_returns'] = ty(m['returns'])
            if m['style'] != 'wrapped':
                kw['_body_style'] = m['style']
            for k, a in (('op', '_operation_name'), ('in_name', '_in_message_name'), ('out_name', '_out_message_name'),
                         ('out_var', '_out_variable_name'), ('port', '_port_type')):
                if m.get(k) is not None:
                    kw[a] = m[k]
            if m.get('in_header'):
                kw['_in_header'] = tuple(classes[i] for i in m['in_header'])
            if m.get('out_header'):
                kw['_out_header'] = tuple(classes[i] for i in m['out_header'])
            if m.get('throws'):
                kw['_throws'] = [faults[i] for i in m['throws']]
            n = len(m['params'])
            names = ['a%d' % i for i in range(n)]
            src = 'def %s(ctx%s):\n    return _call(%r, ctx, [%s])\n' % (
                m['fn'], ''.join(', ' + x for x in names), m['fn'], ', '.join(names))
            env = {'_call': lambda fn, ctx, args, b=b: _served(b, fn, ctx, args)}
            exec(src, env)
            attrs[m['fn']] = rpc(*[ty(t) for t in m['params']], **kw)(env[m['fn']])
        services.append(type(Service)(str(sv['name']), (Service,), attrs))
    app = Application(services, spec['tns'], name=spec['name'], in_protocol=Soap11(validator=validator), out_protocol=Soap11())
    app.transport = 'http://schemas.xmlsoap.org/soap/http'
    for pref, nsname in spec.get('preprefix', ()):
        if nsname not in app.interface.prefmap and pref not in app.interface.nsmap:
            app.interface.prefmap[nsname] = pref
            app.interface.nsmap[pref] = nsname
    b.app = app
    b.classes = classes
    b.faults = faults
    b.services = services
    return b

def _served(b, fn, ctx, args):
    b.calls.append((fn, args, ctx.in_header))
    oh = b.out_headers.get(fn)
    if oh is not None:
        ctx.out_header = oh
    return b.returns.get(fn)

def build_wsdl(app):
    from spyne.interface.wsdl import Wsdl11
    w = Wsdl11(app.interface)
    w.build_interface_document(WSDL_URL)
    return w.get_interface_document()


# =============================================================== snapshot of the populated interface -> Coq
def key_parts(c):
    """the values the components of toposort2's sort key can take (spyne/util/toposort.py:_sort_key);
    WHICH of them make up the key is read from the source by harness/translate/wsdlgen.py and the
    model joins them (Model.key_of)"""
    a = getattr(c, 'Attributes', None)
    return (repr(c), str(getattr(c, '__namespace__', '')), str(getattr(c, '__type_name__', '')),
            str(getattr(a, 'sub_name', '')))

def snapshot(app):
    """Gallina term of type Model.snap plus the rank list (real toposort2 order)"""
    from spyne.model import ComplexModelBase, Fault, SimpleModel
    from spyne.model.complex import XmlModifier, XmlData, XmlAttribute
    from spyne.const.xml import DEFAULT_NS
    from spyne.util.toposort import toposort2
    from spyne.interface.xml_schema._base import _add_handlers
    from spyne.interface.xml_schema import model as xm
    itf = app.interface
    tns = itf.get_tns()
    deps = [(k, list(v)) for k, v in itf.deps.items()]
    ids = {}
    order = []
    for k, vs in deps:
        for c in [k] + vs:
            if c not in ids:
                ids[c] = len(order)
                order.append(c)
    def extra(c):
        if c not in ids:
            ids[c] = len(order)
            order.append(c)
    i = 0
    while i < len(order):      # classes only reachable as a base / field (should not happen: deps is closed)
        c = order[i]
        i += 1
        if issubclass(c, ComplexModelBase):
            if getattr(c, '__extends__', None) is not None:
                extra(c.__extends__)
            for v in c._type_info.values():
                extra(v)
    unsupported = []
    def ens(c):
        ns = c.Attributes.sub_ns or c.get_namespace()
        if ns is DEFAULT_NS:
            ns = tns
        return ns
    cl = []
    kinds = {}
    for c in order:
        handler = _add_handlers[c]
        if issubclass(c, (ComplexModelBase, Fault)) and handler in (xm.complex_add,):
            kind = 'KComplex'
        elif handler in (xm.simple_add, xm.byte_array_add) and c.is_default(c):
            kind = 'KPlain'
        elif not issubclass(c, (ComplexModelBase, SimpleModel)) and handler(None, c, None) is None and False:
            kind = 'KPlain'
        else:
            kind = 'KPlain'
            unsupported.append(repr(c))
        kinds[c] = kind
        fields = []
        base = None
        if kind == 'KComplex':
            ext = getattr(c, '__extends__', None)
            if ext is not None:
                base = ids[ext]
                if ext.Attributes.exc_interface:
                    unsupported.append('exc_interface base of %r' % c)
            if c.Attributes._xml_tag_body_as is not None:
                unsupported.append('xml_tag_body_as %r' % c)
            for k, v in c._type_info.items():
                a = v.Attributes
                if a.exc_interface or issubclass(v, XmlData):
                    continue
                if issubclass(v, (XmlAttribute, XmlModifier)) or a.xml_choice_group is not None:
                    unsupported.append('member %s of %r' % (k, c))
                    continue
                fields.append('(%s, %s)' % (gtext(a.sub_name if a.sub_name is not None else k), gz(ids[v])))
        kp = key_parts(c)
        if kp[1] != (c.get_namespace() or '') or kp[2] != c.get_type_name() or any('\0' in x for x in kp):
            unsupported.append('sort key components of %r are not its published names' % c)
        cl.append('{| c_id := %s; c_repr := %s; c_subs := %s; c_ns := %s; c_tn := %s; c_kind := %s; c_base := %s; '
                  'c_fields := %s; c_ename := %s; c_ens := %s |}' % (
                      gz(ids[c]), gtext(kp[0]), gtext(kp[3]), gtext(c.get_namespace() or ''), gtext(c.get_type_name()), kind,
                      gopt(base, gz), glist(fields), gtext(c.Attributes.sub_name or c.get_type_name()),
                      gtext(ens(c) or '')))
    def gmsg(c):
        return ('{| m_cid := %s; m_complex := %s; m_ename := %s; m_ens := %s; m_tn := %s; m_tns := %s; m_part := %s |}'
                % (gz(ids.get(c, -1)), gbool(issubclass(c, (ComplexModelBase, Fault))), gtext(c.get_element_name()),
                   gtext(ens(c) or ''), gtext(c.get_type_name()), gtext(c.get_namespace() or ''),
                   gtext(c.get_wsdl_part_name())))
    svcs = []
    for s in itf.services:
        if s.is_auxiliary():
            unsupported.append('auxiliary service')
            continue
        ms = []
        for m in s.public_methods.values():
            if m.is_callback or m.is_async or m.aux is not None:
                unsupported.append('callback/async/aux method')
            def hdr(h):
                if h is None:
                    return 'None'
                if not isinstance(h, (list, tuple)):
                    h = (h,)
                return '(Some %s)' % glist([gmsg(x) for x in h])
            ms.append('{| me_name := %s; me_op := %s; me_port := %s; me_in := %s; me_out := %s; me_inh := %s; '
                      'me_outh := %s; me_faults := %s |}' % (
                          gtext(m.name), gtext(m.operation_name), gopt(m.port_type, gtext), gmsg(m.in_message),
                          gmsg(m.out_message), hdr(m.in_header), hdr(m.out_header),
                          glist([gmsg(f) for f in (m.faults or [])])))
        svcs.append('{| s_name := %s; s_ports := %s; s_meths := %s |}' % (
            gtext(s.get_service_name()), glist([gtext(p) for p in s.get_port_types()]), glist(ms)))
    gdeps = glist(['(%s, %s)' % (gz(ids[k]), glist([gz(ids[v]) for v in vs])) for k, vs in deps])
    gimports = glist(['(%s, %s)' % (gtext(k), glist([gtext(x) for x in v])) for k, v in itf.imports.items()])
    ctr = getattr(itf, '_Interface__ns_counter')
    pst = '{| prefmap := %s; nsmap := %s; counter := %s |}' % (
        glist(['(%s, %s)' % (gtext(k), gtext(v)) for k, v in itf.prefmap.items()]),
        glist(['(%s, %s)' % (gtext(k), gtext(v)) for k, v in itf.nsmap.items()]), gz(ctr))
    term = ('{| a_tns := %s; a_name := %s; a_classes := %s; a_deps := %s; a_imports := %s; a_svcs := %s; a_pst := %s |}'
            % (gtext(tns), gtext(itf.get_name()), glist(cl), gdeps, gimports, glist(svcs), pst))
    # the order in which the real toposort2 hands the classes over (decides ties between equal reprs)
    rank = []
    tiers = []
    try:
        dcopy = dict((k, set(v)) for k, v in itf.deps.items())
        for tier in toposort2(dcopy):
            tiers.append(list(tier))
            rank.extend(ids[c] for c in tier if c in ids)
    except AssertionError:
        pass
    # what the hypotheses of the determinism theorems evaluate to on this snapshot, computed here from the
    # real tiers and confirmed in Coq (key_injb / tier_sepb) by the correspondence
    comps = topo_key_components()
    def key(c):
        kp = key_parts(c)
        return tuple(kp[i] for i in comps)
    registered = set(itf.deps.keys())
    for v in itf.deps.values():
        registered |= set(v)
    ks = [key(c) for c in registered]
    inj = len(set(ks)) == len(ks)
    sep = True
    for tier in tiers:
        kc = [key(c) for c in tier if kinds.get(c) == 'KComplex' or c not in kinds]
        if len(set(kc)) != len(kc):
            sep = False
    return term, rank, unsupported, (inj, sep)


_COMPS = {}
def topo_key_components():
    """indices into key_parts() of the components toposort2's key has in the tree under test
    (read from the source by the wsdlgen translator)"""
    if 'v' not in _COMPS:
        from translate import wsdlgen
        names = ['KRepr', 'KNamespace', 'KTypeName', 'KSubName']
        try:
            _COMPS['v'] = [names.index(n) for n in wsdlgen.topo_key(lib.REPO)]
        except Exception:
            _COMPS['v'] = [0, 1, 2, 3]
    return _COMPS['v']


# =============================================================== parsing the real bytes
def parse_doc(doc):
    """-> dict with the token list of Model.tok_doc, the xmlns table of the root and the
    resolved definitions / references used by the oracle"""
    from lxml import etree
    root = etree.fromstring(doc)
    P = {'tokens': [], 'refs': [], 'dups': [], 'root': root, 'schemas': []}
    tok = P['tokens']
    nsmap = dict((k, v) for k, v in root.nsmap.items() if k is not None)
    nsmap.setdefault('xml', 'http://www.w3.org/XML/1998/namespace')
    P['nsmap'] = sorted(nsmap.items())
    P['tns'] = root.get('targetNamespace')
    def ref(el, attr, kind):
        v = el.get(attr)
        if v is None:
            return ''
        P['refs'].append((kind, v, el))
        return v
    types, elems = {}, {}
    def define(table, key, kind):
        if key in table:
            P['dups'].append((kind, key))
        table[key] = True
    unknown = []
    for tnode in root.findall(WS + 'types'):
        for sc in tnode:
            if sc.tag != XS + 'schema':
                unknown.append(sc.tag)
                continue
            t = sc.get('targetNamespace')
            P['schemas'].append(sc)
            tok.extend(['S', t, 'I'])
            for ch in sc:
                if ch.tag == XS + 'import':
                    tok.append(ch.get('namespace'))
            for ch in sc:
                if ch.tag in (XS + 'complexType', XS + 'simpleType'):
                    define(types, (t, ch.get('name')), 'type')
                    base = ''
                    seq_parent = ch
                    for sub in ch:
                        if sub.tag == XS + 'complexContent':
                            ext = sub.find(XS + 'extension')
                            base = ref(ext, 'base', 'base')
                            seq_parent = ext
                        elif sub.tag == XS + 'restriction':
                            base = ref(sub, 'base', 'base')
                        elif sub.tag not in (XS + 'sequence', XS + 'annotation'):
                            unknown.append(sub.tag)
                    tok.extend(['T', ch.get('name'), base])
                    for seq in seq_parent.findall(XS + 'sequence'):
                        for mem in seq:
                            if mem.tag != XS + 'element':
                                unknown.append(mem.tag)
                                continue
                            tok.extend([mem.get('name'), ref(mem, 'type', 'type')])
            for ch in sc:
                if ch.tag == XS + 'element':
                    define(elems, (t, ch.get('name')), 'element')
                    tok.extend(['E', ch.get('name'), ref(ch, 'type', 'type')])
                elif ch.tag not in (XS + 'import', XS + 'complexType', XS + 'simpleType'):
                    unknown.append(ch.tag)
    msgs, pts, binds = {}, {}, {}
    for g in root.findall(WS + 'message'):
        define(msgs, g.get('name'), 'message')
        parts = []
        tok.extend(['M', g.get('name')])
        for p in g.findall(WS + 'part'):
            tok.extend([p.get('name'), ref(p, 'element', 'element')])
            parts.append((p.get('name'), p.get('element'), p))
        msgs[g.get('name')] = parts
    svcs = []
    for s in root.findall(WS + 'service'):
        tok.extend(['V', s.get('name')])
        ports = []
        for p in s.findall(WS + 'port'):
            tok.extend([p.get('name'), ref(p, 'binding', 'binding')])
            ports.append((p.get('name'), p.get('binding'), p))
        svcs.append((s.get('name'), ports))
    for pt in root.findall(WS + 'portType'):
        define(pts, pt.get('name'), 'portType')
        ops = []
        tok.extend(['P', pt.get('name')])
        for o in pt.findall(WS + 'operation'):
            i, u = o.find(WS + 'input'), o.find(WS + 'output')
            tok.extend(['O', o.get('name'), i.get('name'), ref(i, 'message', 'message'),
                        u.get('name') if u is not None else '', ref(u, 'message', 'message') if u is not None else ''])
            fl = []
            for f in o.findall(WS + 'fault'):
                tok.extend(['F', f.get('name'), ref(f, 'message', 'message')])
                fl.append((f.get('name'), f.get('message')))
            ops.append({'name': o.get('name'), 'in': (i.get('name'), i.get('message')),
                        'out': (u.get('name'), u.get('message')) if u is not None else None, 'faults': fl, 'el': o})
        pts[pt.get('name')] = ops
    blist = []
    for b in root.findall(WS + 'binding'):
        define(binds, b.get('name'), 'binding')
        tok.extend(['B', b.get('name'), ref(b, 'type', 'portType')])
        ops = []
        for o in b.findall(WS + 'operation'):
            i, u = o.find(WS + 'input'), o.find(WS + 'output')
            tok.extend(['O', o.get('name'), i.get('name')])
            hin, hout = [], []
            for h in i.findall(SP + 'header'):
                tok.extend(['H', ref(h, 'message', 'message'), h.get('part')])
                hin.append((h.get('message'), h.get('part'), h))
            tok.append(u.get('name') if u is not None else '')
            if u is not None:
                for h in u.findall(SP + 'header'):
                    tok.extend(['H', ref(h, 'message', 'message'), h.get('part')])
                    hout.append((h.get('message'), h.get('part'), h))
            fl = []
            for f in o.findall(WS + 'fault'):
                tok.extend(['F', f.get('name')])
                fl.append(f.get('name'))
            ops.append({'name': o.get('name'), 'in': i.get('name'), 'out': u.get('name') if u is not None else None,
                        'hin': hin, 'hout': hout, 'faults': fl})
        blist.append({'name': b.get('name'), 'type': b.get('type'), 'ops': ops, 'el': b})
    P.update(types=types, elems=elems, msgs=msgs, pts=pts, binds=binds, blist=blist, svcs=svcs, unknown=unknown)
    return P


# =============================================================== the direct oracle (implementation alone)
def resolve(el, q):
    """QName text in the context of element el -> (namespace, local) or None if the prefix is not declared"""
    if ':' in q:
        p, l = q.split(':', 1)
    else:
        p, l = None, q
    ns = el.nsmap.get(p)
    if ns is None:
        return None
    return (ns, l)

def region_of(features):
    for f in ('bare-simple-foreign-ns', 'bare-complex-foreign-ns', 'bare-class-reused-as-header',
              'subname-variant-reused-as-header', 'cyclic-types'):
        if f in features:
            return f
    return 'any'

WELL_KNOWN_LOCATIONS = ('http://www.w3.org/', 'http://schemas.xmlsoap.org/')

def oracle_schema_docs(P, features, served_by='fresh'):
    """per schema DOCUMENT (XSD part 1, 4.2.3 / src-resolve.4): a QName reference to a namespace other than the
    target namespace and the XSD namespace needs an xs:import of that namespace in the SAME xs:schema; and the
    WSDL must be self-contained: no schemaLocation that points at a file next to the WSDL.  -> [(key, what)]"""
    from lxml import etree
    out = []
    region = region_of(features)
    for sc in P['schemas']:
        t = sc.get('targetNamespace')
        imported = set(ch.get('namespace') for ch in sc if ch.tag == XS + 'import')
        seen = set()
        for el in sc.iter():
            if not isinstance(el.tag, str):
                continue
            if el.tag in (XS + 'import', XS + 'include', XS + 'redefine'):
                loc = el.get('schemaLocation')
                if loc is not None and not loc.startswith(WELL_KNOWN_LOCATIONS):
                    out.append(('C07|self-contained|schemaLocation|%s|%s' % (etree.QName(el).localname, served_by),
                                'xs:%s namespace=%r of the schema %r carries schemaLocation=%r: a client has to fetch '
                                'a document that is not part of the WSDL' % (etree.QName(el).localname, el.get('namespace'), t, loc)))
            for a in ('type', 'base', 'ref', 'itemType'):
                q = el.get(a)
                if q is None:
                    continue
                r = resolve(el, q)
                if r is None:
                    continue                       # undeclared prefix: reported by oracle_structure
                ns = r[0]
                if ns not in (t, NS_XSD) and ns not in imported and ns not in seen:
                    seen.add(ns)
                    out.append(('C07|closed|missing-import|%s|%s' % (a, region),
                                'the schema of %r refers to %s=%r in namespace %r without an xs:import of that namespace '
                                '(the reference does not resolve under XML Schema rules; libxml2 refuses the schema set)'
                                % (t, a, q, ns)))
    return out


def fetch_wsdl(app):
    """GET ...?wsdl through WsgiApplication, i.e. the document built on the application's OWN Wsdl11 object
    (app.interface.docs.wsdl11), on which an input protocol with validator='lxml' has already built its
    validation schema.  -> (status, bytes)"""
    from spyne.server.wsgi import WsgiApplication
    wsgi = WsgiApplication(app)
    env = {'REQUEST_METHOD': 'GET', 'PATH_INFO': '/app', 'SCRIPT_NAME': '', 'QUERY_STRING': 'wsdl',
           'SERVER_NAME': 'c07.invalid', 'SERVER_PORT': '80', 'SERVER_PROTOCOL': 'HTTP/1.1',
           'wsgi.url_scheme': 'http', 'wsgi.input': io.BytesIO(b''), 'wsgi.errors': io.StringIO(),
           'wsgi.multithread': False, 'wsgi.multiprocess': False, 'wsgi.run_once': False}
    st = {}
    def sr(status, hdrs, exc_info=None):
        st['status'] = status
    it = wsgi(env, sr)
    body = b''.join(it)
    if hasattr(it, 'close'):
        it.close()
    return st.get('status', ''), body, wsgi


VALIDATORS = (None, 'soft', 'lxml')

def served_leg(check, name, spec, doc, features):
    """the WSDL as the server hands it out, under every validator setting of the input protocol: the application
    must be constructible (validator='lxml' compiles the schema set with libxml2), the bytes must not depend on
    the validator nor on what was built on the document object before, and must be self-contained.
    Returns (application built with validator='lxml', its served WSDL) or (None, None)."""
    region = region_of(features)
    served = {}
    if spec.get('preprefix'):
        # prefixes registered by hand AFTER the application was constructed (which is when validator='lxml' builds
        # its schema) would make the harness, not Spyne, responsible for a difference: serve the plain application
        spec = dict((k, v) for k, v in spec.items() if k != 'preprefix')
        try:
            doc = build_wsdl(build_app(spec).app)
        except Exception as e:
            check.mismatch('harness', 'fresh build of %s without its hand-registered prefixes raised %r' % (name, e))
            return None, None
    for v in VALIDATORS:
        vn = v or 'none'
        try:
            b = build_app(spec, validator=v)
        except Exception as e:
            check.fail('C07|schema-set|application-refused|%s|validator=%s|%s' % (type(e).__name__, vn, region),
                       '%s: Application(..., Soap11(validator=%r)) raised %s: %s (the same services are accepted '
                       'without the validator)' % (name, v, type(e).__name__, str(e).split('\n')[0][:300]),
                       {'spec': spec, 'name': name, 'stage': 'served', 'validator': v})
            continue
        try:
            status, body, wsgi = fetch_wsdl(b.app)
        except Exception as e:
            check.fail('C07|served|exception|%s|validator=%s|%s' % (type(e).__name__, vn, region),
                       '%s: GET ?wsdl raised %s: %s' % (name, type(e).__name__, str(e)[:200]),
                       {'spec': spec, 'name': name, 'stage': 'served', 'validator': v})
            continue
        check.count(('served', name, vn, json.dumps(spec, sort_keys=True)))
        if not status.startswith('200'):
            check.fail('C07|served|status|%s|validator=%s|%s' % (status.split()[0] if status else '?', vn, region),
                       '%s: GET ?wsdl answered %r (validator=%r)' % (name, status, v),
                       {'spec': spec, 'name': name, 'stage': 'served', 'validator': v})
            continue
        served[v] = (b, body)
        if body != doc:
            check.fail('C07|determinism|served-vs-fresh|%s|validator=%s' % (diff_site(doc, body), vn),
                       '%s: the WSDL served by WsgiApplication (validator=%r, built on app.interface.docs.wsdl11) '
                       'differs from the document a fresh Wsdl11(app.interface) builds: %s' % (name, v, first_diff(doc, body)),
                       {'spec': spec, 'name': name, 'stage': 'served', 'validator': v})
            try:
                for key, what in oracle_schema_docs(parse_doc(body), features, 'served,validator=%s' % vn):
                    check.fail(key, '%s: %s' % (name, what), {'spec': spec, 'name': name, 'stage': 'served', 'validator': v})
            except Exception as e:
                check.fail('C07|well-formed|served|%s' % type(e).__name__, '%s: served document does not parse: %s' % (name, e),
                           {'spec': spec, 'name': name, 'stage': 'served', 'validator': v})
        # a second request is answered from the cache with the same bytes
        try:
            env_again = fetch_again(wsgi)
            if env_again != body:
                check.fail('C07|determinism|served-twice|%s|validator=%s' % (diff_site(body, env_again), vn),
                           '%s: two GET ?wsdl on one server differ' % name,
                           {'spec': spec, 'name': name, 'stage': 'served', 'validator': v})
        except Exception as e:
            check.mismatch('harness', 'second ?wsdl request of %s raised %r' % (name, e))
    return served.get('lxml', (None, None))


FAIL_POINTS = ('add_messages_for_methods', 'add_port_type', 'add_bindings_for_methods', '_add_port_to_service',
               'after-bindings')

def history_leg(check, name, spec, doc, features, force=None):
    """a first build of the WSDL that fails at a chosen point (before / in the middle of / after the portType and
    binding phases), then a second ?wsdl request on the same server: WsgiApplication builds again on the same
    Wsdl11 instance.  The second answer must be the whole document: the bytes of a never-failed application.
    Also: two successful builds on one instance give the same bytes."""
    from spyne.interface.wsdl import Wsdl11
    if spec.get('preprefix') or (features & GUARD_REGIONS):
        # (in the regions of the known findings the first document is already reported: there a prefix is handed
        # out after wsdl:definitions was created, which a second build then finds declared)
        return
    region = region_of(features)
    point = check.rng.choice(FAIL_POINTS)
    nth = check.rng.choice([1, 1, 2])           # fail in the first or in the second call of that emitter
    if force is not None and force[0] in FAIL_POINTS:
        point, nth = force
    class Boom(Exception):
        pass
    state = {'calls': 0, 'armed': True}
    if point == 'after-bindings':
        target, attr = None, None
    else:
        attr = point
    try:
        b = build_app(spec)
        w = b.app.interface.docs.wsdl11
        if attr is not None:
            orig = getattr(Wsdl11, attr)
            def failing(self, *a, **k):
                if self is w and state['armed']:
                    state['calls'] += 1
                    if state['calls'] == nth:
                        state['armed'] = False
                        raise Boom('C07: injected failure in %s' % attr)
                return orig(self, *a, **k)
            setattr(Wsdl11, attr, failing)
        else:
            # fails in the document_built event, i.e. when every node is already in place
            def handler(doc_):
                if state['armed']:
                    state['armed'] = False
                    raise Boom('C07: injected failure after the bindings')
            w.event_manager.add_listener('wsdl_document_built', handler)
        try:
            st1, body1, wsgi = fetch_wsdl(b.app)
            body2 = fetch_again(wsgi)
            st2 = '200' if body2[:5] == b'<?xml' else 'not-a-document'
        finally:
            if attr is not None:
                setattr(Wsdl11, attr, orig)
    except Exception as e:
        check.mismatch('harness', 'history leg of %s raised %r' % (name, e))
        return
    failed_first = not state['armed'] and not st1.startswith('200')
    check.count(('history', name, point, nth, json.dumps(spec, sort_keys=True)))
    rp = {'spec': spec, 'name': name, 'stage': 'history', 'fail_in': point, 'nth': nth}
    if body2 != doc:
        try:
            npt = len(parse_doc(body2)['pts'])
            what = '%d portType elements, %d in the document of a fresh application; first difference: %s' % (
                npt, len(parse_doc(doc)['pts']), first_diff(doc, body2))
            site = diff_site(doc, body2)
        except Exception:
            what, site = 'the answer is not a WSDL: %r' % body2[:60], 'not-a-document'
        check.fail('C07|determinism|rebuild-after-failed-build|%s|%s' % (point, site),
                   '%s: the first ?wsdl request failed in %s (%s), the second request on the same server was answered '
                   'with a document that is not the one a never-failed application serves: %s'
                   % (name, point, st1 or 'no status', what), rp)
    # two complete builds on one instance
    try:
        b3 = build_app(spec)
        w3 = b3.app.interface.docs.wsdl11
        w3.build_interface_document(WSDL_URL)
        d1 = w3.get_interface_document()
        w3.build_interface_document(WSDL_URL)
        d2 = w3.get_interface_document()
        if d1 != doc or d2 != doc:
            check.fail('C07|determinism|second-build-on-one-instance|%s' % diff_site(doc, d2 if d2 != doc else d1),
                       '%s: build_interface_document called twice on one Wsdl11 instance: the %s document differs from '
                       'the one a fresh instance builds: %s' % (name, 'second' if d1 == doc else 'first',
                                                                first_diff(doc, d2 if d1 == doc else d1)), 
                       {'spec': spec, 'name': name, 'stage': 'history', 'fail_in': 'none', 'nth': 0})
    except Exception as e:
        check.fail('C07|determinism|second-build-on-one-instance|%s' % type(e).__name__,
                   '%s: a second build_interface_document on one Wsdl11 instance raised %s: %s' % (name, type(e).__name__, str(e)[:200]),
                   {'spec': spec, 'name': name, 'stage': 'history', 'fail_in': 'none', 'nth': 0})


def fetch_again(wsgi):
    env = {'REQUEST_METHOD': 'GET', 'PATH_INFO': '/app', 'SCRIPT_NAME': '', 'QUERY_STRING': 'wsdl',
           'SERVER_NAME': 'c07.invalid', 'SERVER_PORT': '80', 'SERVER_PROTOCOL': 'HTTP/1.1',
           'wsgi.url_scheme': 'http', 'wsgi.input': io.BytesIO(b''), 'wsgi.errors': io.StringIO(),
           'wsgi.multithread': False, 'wsgi.multiprocess': False, 'wsgi.run_once': False}
    it = wsgi(env, lambda *a, **k: None)
    body = b''.join(it)
    if hasattr(it, 'close'):
        it.close()
    return body


def oracle_structure(P, app, features):
    """closed + one_op on the parsed bytes.  Returns list of (key, what)."""
    out = []
    feat = ','.join(sorted(features)) or '-'
    tns = P['tns']
    def bad(cat, detail, what):
        out.append(('C07|%s|%s' % (cat, detail), what))
    for kind, key in P['dups']:
        shape = 'shared-port-type-name' if (kind == 'binding' and 'shared-port-type' in features) else 'other'
        bad('closed', 'duplicate-%s|%s' % (kind, shape), 'two definitions of %s %r in one document' % (kind, key))
    def site(el):
        par = el.getparent()
        from lxml import etree
        return '%s/%s' % (etree.QName(par).localname if par is not None else '', etree.QName(el).localname)
    for kind, q, el in P['refs']:
        r = resolve(el, q)
        region = 'any'
        for f in ('bare-simple-foreign-ns', 'bare-class-reused-as-header', 'subname-variant-reused-as-header'):
            if f in features:
                region = f
        if r is None:
            bad('closed', 'undeclared-prefix|%s|%s|%s' % (kind, site(el), region),
                'QName %r (%s reference at %s) uses a prefix that is not declared in scope' % (q, kind, site(el)))
            continue
        ns, l = r
        if kind in ('type', 'base'):
            ok = (r in P['types']) or (ns == NS_XSD and l in XSD_BUILTINS)
        elif kind == 'element':
            ok = r in P['elems']
        elif kind == 'message':
            ok = ns == tns and l in P['msgs']
        elif kind == 'portType':
            ok = ns == tns and l in P['pts']
        elif kind == 'binding':
            ok = ns == tns and l in P['binds']
        if not ok:
            bad('closed', 'dangling-%s|%s|%s' % (kind, site(el), region),
                '%s reference %r at %s resolves to {%s}%s, which the document does not define' % (kind, q, site(el), ns, l))
    for b in P['blist']:
        for o in b['ops']:
            for (mq, part, h) in o['hin'] + o['hout']:
                r = resolve(h, mq)
                if r and r[0] == tns and r[1] in P['msgs'] and part not in [p[0] for p in P['msgs'][r[1]]]:
                    bad('closed', 'header-part|binding/operation', 'soap:header part %r is not a part of message %r' % (part, mq))
    # one_op: every exposed method is exactly one portType operation with matching binding operation,
    # messages and declared faults
    nports = max([len(s.get_port_types()) for s in app.interface.services] + [0])
    shape = 'ports>=2' if nports >= 2 else 'ports<2'
    if 'shared-port-type' in features:
        shape = 'shared-port-type-name'
    for region in ('bare-simple-foreign-ns', 'bare-complex-foreign-ns'):
        if region in features:
            shape = region
    for s in app.interface.services:
        for m in s.public_methods.values():
            opn = m.operation_name
            want_pt = m.port_type if m.port_type is not None else app.interface.get_name()
            hits = [(ptn, o) for ptn, ops in P['pts'].items() for o in ops if o['name'] == opn]
            if len(hits) != 1:
                bad('one_op', 'porttype-op-count|%s' % shape, 'method %s is %d portType operations' % (opn, len(hits)))
                continue
            ptn, o = hits[0]
            if ptn != want_pt:
                bad('one_op', 'porttype-op-misplaced|%s' % shape,
                    'operation %s is under portType %r, its method declares %r' % (opn, ptn, want_pt))
            def msg_ok(pair, cls):
                if pair is None:
                    return False
                r = resolve(o['el'], pair[1])
                if r is None or r[0] != tns or r[1] not in P['msgs']:
                    return False
                parts = P['msgs'][r[1]]
                if len(parts) != 1:
                    return False
                pr = resolve(parts[0][2], parts[0][1])
                from spyne.const.xml import DEFAULT_NS
                ens = cls.Attributes.sub_ns or cls.get_namespace()
                if ens is DEFAULT_NS:
                    ens = tns
                return pr == (ens, cls.get_element_name())
            if not msg_ok(o['in'], m.in_message):
                bad('one_op', 'input-message-mismatch|%s' % shape, 'operation %s: input message does not carry the method\'s request element' % opn)
            if not msg_ok(o['out'], m.out_message):
                bad('one_op', 'output-message-mismatch|%s' % shape, 'operation %s: output message does not carry the method\'s response element' % opn)
            if sorted(f[0] for f in o['faults']) != sorted(f.get_type_name() for f in (m.faults or [])):
                bad('one_op', 'faults-mismatch|%s' % shape, 'operation %s: declared faults differ from the method\'s' % opn)
            # binding side
            bhits = []
            for b in P['blist']:
                r = resolve(b['el'], b['type'])
                for bo in b['ops']:
                    if bo['name'] == opn:
                        bhits.append((b, r, bo))
            if len(bhits) != 1:
                bad('one_op', 'binding-op-count|%s' % shape, 'method %s is %d binding operations' % (opn, len(bhits)))
                continue
            b, r, bo = bhits[0]
            if r != (tns, ptn):
                bad('one_op', 'binding-op-not-in-porttype|%s' % shape,
                    'binding %s (type %s) has operation %s, which lives in portType %s' % (b['name'], b['type'], opn, ptn))
            if bo['in'] != o['in'][0] or (o['out'] and bo['out'] != o['out'][0]) or \
                    sorted(bo['faults']) != sorted(f[0] for f in o['faults']):
                bad('one_op', 'binding-op-mismatch|%s' % shape, 'binding operation %s does not match its portType operation' % opn)
            want_h = [h.get_type_name() for h in (m.in_header or ())]
            if [h[1] for h in bo['hin']] != want_h:
                bad('one_op', 'binding-in-headers|%s' % shape, 'binding operation %s: soap:header parts %r, declared %r' % (opn, [h[1] for h in bo['hin']], want_h))
            served = [p for sn, ports in P['svcs'] for p in ports
                      if resolve(p[2], p[1]) == (tns, b['name'])]
            if not served:
                bad('one_op', 'no-port-for-binding|%s' % shape, 'no wsdl:port refers to binding %s' % b['name'])
    # no binding operation without a portType operation
    for b in P['blist']:
        r = resolve(b['el'], b['type'])
        if r and r[0] == tns and r[1] in P['pts']:
            names = [o['name'] for o in P['pts'][r[1]]]
            for bo in b['ops']:
                if bo['name'] not in names:
                    bad('one_op', 'binding-op-not-in-porttype|%s' % shape,
                        'binding %s has operation %s that its portType %s lacks' % (b['name'], bo['name'], r[1]))
    return out


def spec_features(spec):
    f = set()
    seen = {}
    for sv in spec['services']:
        for p in sv['ports']:
            if p in seen and seen[p] != sv['name']:
                f.add('shared-port-type')
            seen[p] = sv['name']
        for m in sv['methods']:
            for nm, side in ((m.get('in_name'), 'params'), (m.get('out_name'), 'returns')):
                if nm and nm.startswith('{') and m['style'] != 'wrapped':
                    if side == 'params' and m['style'] == 'bare' and m['params']:
                        t = m['params'][0]
                    elif side == 'returns' and m['returns'] is not None:
                        t = m['returns']
                    else:
                        continue
                    f.add('bare-complex-foreign-ns' if t[0] == 'cls' else 'bare-simple-foreign-ns')
    if spec.get('cyclic'):
        f.add('cyclic-types')
    # a class that is the bare request/response of one method and a header of another
    bare, hdr = set(), set()
    for sv in spec['services']:
        for lst in (sv.get('in_header'), sv.get('out_header')):
            hdr.update(lst or [])
        for m in sv['methods']:
            hdr.update(m.get('in_header') or [])
            hdr.update(m.get('out_header') or [])
            if m['style'] == 'bare' and m['params'] and m['params'][0][0] == 'cls':
                bare.add(m['params'][0][1])
            if m['style'] != 'wrapped' and m['returns'] is not None and m['returns'][0] == 'cls':
                bare.add(m['returns'][1])
    if bare & hdr:
        f.add('bare-class-reused-as-header')
    # ... or a member of some class through a variant that differs in sub_name (same root: has_class() takes the
    # variant that is registered first for the class, and only that one gets its xs:element)
    subbed = set(ft[1] for c in spec['classes'] for fn, ft in c['fields'] if ft[0] == 'cls' and len(ft) > 2)
    if (subbed & hdr) and 'bare-class-reused-as-header' not in f:
        f.add('subname-variant-reused-as-header')
    return f


# =============================================================== fresh-process determinism
def child_main():
    """stdin: JSON list of specs; stdout: JSON list of base64 documents (or error strings)"""
    sys.path.insert(0, os.environ.get('VERIF_REPO', '/repo'))
    import logging, warnings
    warnings.simplefilter('ignore')
    logging.disable(logging.CRITICAL)
    specs = json.load(sys.stdin)
    out = []
    for spec in specs:
        try:
            b = build_app(spec)
            d1 = build_wsdl(b.app)
            out.append(base64.b64encode(d1).decode())
        except Exception as e:
            out.append('!%s' % type(e).__name__)
    json.dump(out, sys.stdout)

def run_children(specs, seeds):
    """one fresh interpreter per hash seed; returns {seed: [bytes|str]}"""
    procs = []
    env0 = dict(os.environ)
    env0['VERIF_REPO'] = lib.REPO
    for sd in seeds:
        env = dict(env0)
        env['PYTHONHASHSEED'] = str(sd)
        p = subprocess.Popen([PY, '-W', 'ignore', HERE, '--child'], stdin=subprocess.PIPE, stdout=subprocess.PIPE,
                             stderr=subprocess.PIPE, env=env)
        procs.append((sd, p))
    payload = json.dumps(specs).encode()
    import threading
    res = {}
    def feed(sd, p):
        so, se = p.communicate(payload, timeout=600)
        if p.returncode != 0:
            res[sd] = RuntimeError('child failed: %s' % se.decode()[-800:])
        else:
            res[sd] = [base64.b64decode(x) if not x.startswith('!') else x for x in json.loads(so.decode())]
    th = [threading.Thread(target=feed, args=a) for a in procs]
    for t in th:
        t.start()
    for t in th:
        t.join()
    return res

def first_diff(a, b):
    from lxml import etree
    try:
        la = etree.tostring(etree.fromstring(a), pretty_print=True).decode().split('\n')
        lb = etree.tostring(etree.fromstring(b), pretty_print=True).decode().split('\n')
    except Exception:
        return 'unparsable'
    for i, (x, y) in enumerate(zip(la, lb)):
        if x != y:
            return 'line %d: %s | %s' % (i, x.strip()[:100], y.strip()[:100])
    return 'length %d vs %d' % (len(la), len(lb))

def diff_site(a, b):
    """which kind of node differs first (for the finding key)"""
    from lxml import etree
    try:
        ea = list(etree.fromstring(a).iter())
        eb = list(etree.fromstring(b).iter())
    except Exception:
        return 'unparsable'
    for x, y in zip(ea, eb):
        if x.tag != y.tag or dict(x.attrib) != dict(y.attrib):
            return etree.QName(x).localname
    return 'serialisation'


# =============================================================== the foreign client (zeep, in-process)
def zeep_leg(check, spec, b, doc, name):
    """client built from the bytes alone; returns list of (key, what)"""
    import zeep, requests
    from zeep.transports import Transport
    from zeep.helpers import serialize_object
    from spyne.server.wsgi import WsgiApplication
    out = []
    wsgi = WsgiApplication(b.app)
    class InProc(Transport):
        def load(self, url):
            if url == WSDL_URL:
                return doc
            raise IOError('C07: the client tried to load %r (only the WSDL itself is available)' % url)
        def post(self, address, message, headers):
            env = {'REQUEST_METHOD': 'POST', 'PATH_INFO': '/app', 'SCRIPT_NAME': '', 'QUERY_STRING': '',
                   'SERVER_NAME': 'c07.invalid', 'SERVER_PORT': '80', 'SERVER_PROTOCOL': 'HTTP/1.1',
                   'wsgi.url_scheme': 'http', 'wsgi.input': io.BytesIO(message), 'wsgi.errors': io.StringIO(),
                   'wsgi.multithread': False, 'wsgi.multiprocess': False, 'wsgi.run_once': False,
                   'CONTENT_LENGTH': str(len(message)), 'CONTENT_TYPE': headers.get('Content-Type', 'text/xml')}
            for k, v in headers.items():
                env['HTTP_' + k.upper().replace('-', '_')] = v
            st = {}
            def sr(status, hdrs, exc_info=None):
                st['status'] = status
                st['headers'] = hdrs
            body = b''.join(wsgi(env, sr))
            r = requests.Response()
            r.status_code = int(st['status'].split()[0])
            r._content = body
            for k, v in st['headers']:
                r.headers[k] = v
            r.encoding = 'utf-8'
            return r
    try:
        client = zeep.Client(WSDL_URL, transport=InProc())
    except Exception as e:
        return [('C07|client|load|%s' % type(e).__name__, 'zeep cannot load the WSDL of %s: %s: %s' % (name, type(e).__name__, str(e)[:300]))]
    classes = spec['classes']
    rng = check.rng
    tns = spec['tns']
    appname = spec['name']
    def to_native(v):
        from spyne.model import ComplexModelBase
        if isinstance(v, ComplexModelBase):
            d = {}
            for k in v.get_flat_type_info(v.__class__):
                x = getattr(v, k, None)
                if x is not None:
                    d[k] = to_native(x)
            return d
        if isinstance(v, (list, tuple)):
            return [to_native(x) for x in v]
        return v
    def collapse(v):
        # zeep hands a one-member array wrapper over either as the wrapper or as the bare list
        if isinstance(v, dict):
            if len(v) == 1 and isinstance(list(v.values())[0], list):
                return collapse(list(v.values())[0])
            return dict((k, collapse(x)) for k, x in v.items())
        if isinstance(v, list):
            return [collapse(x) for x in v]
        return v
    def strip_none(v):
        if isinstance(v, dict):
            return dict((k, strip_none(x)) for k, x in v.items() if x is not None)
        if isinstance(v, list):
            return [strip_none(x) for x in v]
        return v
    for sv in spec['services']:
        sname = sv.get('service_name') or sv['name']
        for m in sv['methods']:
            opn = m['op'] or m['fn']
            port = m['port'] or appname
            style = m['style']
            key_shape = '%s|%s' % (style, 'ports' if sv['ports'] else 'default-port')
            if m.get('in_name') and m['in_name'].startswith('{') and not m['in_name'].startswith('{%s}' % tns):
                key_shape = 'foreign-in-message-ns'
            try:
                proxy = client.bind(sname, port)
                args = [sample_value(t, classes, rng) for t in m['params']]
                ret = None
                if m['returns'] is not None:
                    if isinstance(m['returns'][0], list):
                        ret = [sample_value(t, classes, rng) for t in m['returns']]
                    else:
                        ret = sample_value(m['returns'], classes, rng)
                b.returns[m['fn']] = ret
                hdr_cls = m['in_header'] if m['in_header'] is not None else sv.get('in_header')
                kw = {}
                sent_h = None
                if hdr_cls:
                    sent_h = [sample_value(['cls', i], classes, rng) for i in hdr_cls]
                    kw['_soapheaders'] = dict((classes[i]['name'], client_shape(['cls', i], v, classes))
                                              for i, v in zip(hdr_cls, sent_h))
                    if len(set(hdr_cls)) != len(hdr_cls):
                        continue
                del b.calls[:]
                cargs = [client_shape(t, v, classes) for t, v in zip(m['params'], args)]
                if style == 'bare' and m['params'] and m['params'][0][0] == 'cls':
                    kw.update(cargs[0])
                    res = getattr(proxy, opn)(**kw)
                else:
                    res = getattr(proxy, opn)(*cargs, **kw)
            except Exception as e:
                out.append(('C07|client|call|%s|%s' % (type(e).__name__, key_shape),
                            '%s: zeep call of %s.%s failed: %s: %s' % (name, sname, opn, type(e).__name__, str(e)[:300])))
                continue
            # the server accepted the request and decoded what was sent
            if len(b.calls) != 1 or b.calls[0][0] != m['fn']:
                out.append(('C07|client|dispatch|%s' % key_shape, '%s: request for %s ran %r' % (name, opn, [c[0] for c in b.calls])))
                continue
            got_args = [to_native(a) for a in b.calls[0][1]]
            if collapse(strip_none(got_args)) != collapse(strip_none(args)):
                out.append(('C07|client|request-values|%s' % key_shape,
                            '%s: %s received %r, client sent %r' % (name, opn, got_args, args)))
            if sent_h is not None:
                gh = b.calls[0][2]
                if gh is not None and not isinstance(gh, (list, tuple)):
                    gh = [gh]
                if gh is None or strip_none([to_native(x) for x in gh]) != strip_none(sent_h):
                    out.append(('C07|client|request-headers|%s' % key_shape,
                                '%s: %s received headers %r, client sent %r' % (name, opn, gh and [to_native(x) for x in gh], sent_h)))
            # the reply decodes to the value returned
            got = serialize_object(res, dict)
            if isinstance(got, dict) and set(got.keys()) == set(['header', 'body']):
                got = got['body']       # the operation declares output headers
                rn = m.get('out_var') or '%sResult' % m['fn']
                if style == 'wrapped' and isinstance(got, dict) and list(got.keys()) == [rn]:
                    got = got[rn]
            if m['returns'] is None:
                exp = None
            elif isinstance(m['returns'][0], list):
                exp = dict(('%sResult%d' % (m['fn'], i), client_shape(t, v, classes))
                           for i, (t, v) in enumerate(zip(m['returns'], ret)))
            else:
                exp = client_shape(m['returns'], ret, classes)
            def unwrap1(v):
                # zeep removes wrappers that have a single member
                while isinstance(v, dict) and len(v) == 1:
                    v = list(v.values())[0]
                return v
            if unwrap1(collapse(strip_none(got))) != unwrap1(collapse(strip_none(exp))):
                out.append(('C07|client|reply-values|%s' % key_shape,
                            '%s: %s returned %r, client decoded %r' % (name, opn, exp, got)))
            check.count(('zeep', name, opn))
    return out


# =============================================================== one application through everything
IMPORTS = ('From SpyneV Require Import Base.Prelude C07.Model.\n'
           'Definition perm_by (rank l : list Z) : list Z :=\n'
           '  filter (fun x => memz x l) rank ++ filter (fun x => negb (memz x rank)) l.\n'
           'Fixpoint tl_eqb (a b : list text) : bool := match a, b with [] , [] => true\n'
           '  | x :: a, y :: b => text_eqb x y && tl_eqb a b | _, _ => false end.\n'
           'Fixpoint pl_eqb (a b : list (text * text)) : bool := match a, b with [] , [] => true\n'
           '  | x :: a, y :: b => text_eqb (fst x) (fst y) && text_eqb (snd x) (snd y) && pl_eqb a b | _, _ => false end.\n'
           'Definition obs := (option (list text * list (text * text)))%type.\n'
           'Definition c07_ok (c : snap * list Z * obs * bool * bool * bool) : bool :=\n'
           '  let \'(a, rank, o, guard, pinj, psep) := c in\n'
           '  Bool.eqb (key_injb a) pinj && Bool.eqb (tier_sepb a) psep &&\n'
           '  match render (perm_by rank) a, o with\n'
           '  | ROk (toks, nm), Some (otoks, onm) =>\n'
           '      tl_eqb toks otoks && pl_eqb (isort (fun x y => text_leb (fst x) (fst y)) nm) onm\n'
           '      && implb guard (wf_snapb a) && implb guard (wf_importsb a)\n'
           '  | RErr EKeyError, None | RErr EAssertCyclic, None | RErr EValueError, None | RErr ESameName, None => true\n'
           '  | _, _ => false end.\n'
           'Definition c07_show (c : snap * list Z * obs * bool * bool * bool) :=\n'
           '  let \'(a, rank, o, guard, pinj, psep) := c in\n'
           '  (wf_snapb a, wf_importsb a, key_injb a, tier_sepb a, render (perm_by rank) a).')

# the regions of the known findings in which the hypothesis wf_snap of C07_schema_closed does not hold
GUARD_REGIONS = frozenset(['bare-simple-foreign-ns', 'bare-complex-foreign-ns', 'bare-class-reused-as-header',
                           'subname-variant-reused-as-header',
                           'cyclic-types'])

def process(check, name, spec, cases, want_zeep=True, want_served=True):
    """build, snapshot, build the document, parse, queue the correspondence case, run the oracle.
    Returns the document bytes (or None)."""
    features = spec_features(spec)
    try:
        b = build_app(spec)
    except Exception as e:
        # the application itself is rejected by Spyne: outside the property's domain
        check.extra.setdefault('rejected_specs', []).append('%s: %s' % (name, type(e).__name__))
        return None
    term, rank, unsupported, (pinj, psep) = snapshot(b.app)
    if unsupported:
        check.mismatch('wsdl_skeleton', '%s: generator produced constructs outside the model: %r' % (name, unsupported[:3]))
        return None
    try:
        doc = build_wsdl(b.app)
    except Exception as e:
        if spec.get('expect_reject') == type(e).__name__:
            # Spyne refuses the application (a method names a port type its service does not have): the model must too
            check.extra.setdefault('rejected_specs', []).append('%s: %s' % (name, type(e).__name__))
            cases.append(('(%s, %s, None, false, %s, %s)' % (term, glist([gz(x) for x in rank]), gbool(pinj), gbool(psep)),
                          name + ' (application refused)'))
            check.count(('rejected', name, json.dumps(spec, sort_keys=True)))
            return None
        region = [f for f in ('bare-complex-foreign-ns', 'cyclic-types') if f in features]
        key = 'C07|build-crash|%s|%s' % (type(e).__name__, region[0] if region else 'any')
        check.fail(key, '%s: build_interface_document raised %s: %s' % (name, type(e).__name__, str(e).split('\n')[0][:200]),
                   {'spec': spec, 'name': name})
        cases.append(('(%s, %s, None, false, %s, %s)' % (term, glist([gz(x) for x in rank]), gbool(pinj), gbool(psep)),
                      name + ' (build raises)'))
        check.count(('crash', name, json.dumps(spec, sort_keys=True)))
        return None
    try:
        P = parse_doc(doc)
    except Exception as e:
        check.fail('C07|well-formed|%s' % type(e).__name__, '%s: document is not well-formed XML: %s' % (name, e),
                   {'spec': spec, 'name': name})
        return None
    if spec.get('expect_reject'):
        check.fail('C07|accepted-invalid|%s' % name, '%s: an application that names a port type its service does not have '
                   'got a WSDL' % name, {'spec': spec, 'name': name})
    if P['unknown']:
        check.mismatch('wsdl_skeleton', '%s: document has nodes the skeleton does not cover: %r' % (name, P['unknown'][:3]))
    obs = '(Some (%s, %s))' % (glist([gtext(t or '') for t in P['tokens']]),
                               glist(['(%s, %s)' % (gtext(k), gtext(v)) for k, v in P['nsmap']]))
    guard = not (features & GUARD_REGIONS)
    cases.append(('(%s, %s, %s, %s, %s, %s)' % (term, glist([gz(x) for x in rank]), obs, gbool(guard), gbool(pinj), gbool(psep)),
                  name))
    dh = check.extra.setdefault('determinism_hypotheses', {'snapshots': 0, 'key_injective (C07_doc_det)': 0,
                                                            'key separates the writing classes of every tier (C07_doc_det_tiers)': 0})
    dh['snapshots'] += 1
    dh['key_injective (C07_doc_det)'] += int(pinj)
    dh['key separates the writing classes of every tier (C07_doc_det_tiers)'] += int(psep)
    check.count(('doc', json.dumps(spec, sort_keys=True)))
    for key, what in oracle_structure(P, b.app, features) + oracle_schema_docs(P, features):
        check.fail(key, '%s: %s' % (name, what), {'spec': spec, 'name': name, 'stage': 'structure'})
    # the document as the server hands it out, under every validator setting
    b_lxml, doc_lxml = (None, None)
    if want_served:
        b_lxml, doc_lxml = served_leg(check, name, spec, doc, features)
        history_leg(check, name, spec, doc, features)
    # rebuilding in the same process gives the same bytes
    try:
        doc2 = build_wsdl(build_app(spec).app)
        if doc2 != doc:
            check.fail('C07|determinism|same-process|%s' % diff_site(doc, doc2),
                       '%s: two builds in one process differ: %s' % (name, first_diff(doc, doc2)),
                       {'spec': spec, 'name': name, 'stage': 'rebuild'})
    except Exception as e:
        check.mismatch('harness', 'rebuild of %s raised %r' % (name, e))
    if want_zeep and not features:
        # the client is built from the SERVED bytes and talks to the server that validates requests with libxml2
        # (falls back to the fresh document when that application could not be built: reported above)
        zb, zdoc = (b_lxml, doc_lxml) if b_lxml is not None else (b, doc)
        for key, what in zeep_leg(check, spec, zb, zdoc, name):
            check.fail(key, what, {'spec': spec, 'name': name, 'stage': 'zeep'})
    return doc


def determinism(check, named_specs, seeds):
    specs = [s for _, s in named_specs]
    res = run_children(specs, seeds)
    ref_seed = seeds[0]
    for sd in seeds:
        if isinstance(res.get(sd), Exception) or res.get(sd) is None:
            check.mismatch('harness', 'fresh-process build under PYTHONHASHSEED=%s failed: %r' % (sd, res.get(sd)))
            return
    for i, (name, spec) in enumerate(named_specs):
        ref = res[ref_seed][i]
        for sd in seeds[1:]:
            cur = res[sd][i]
            check.count(('det', name, sd, json.dumps(spec, sort_keys=True)))
            if cur != ref:
                if isinstance(cur, str) or isinstance(ref, str):
                    what = 'build outcome differs: %r vs %r' % (ref if isinstance(ref, str) else 'document',
                                                                 cur if isinstance(cur, str) else 'document')
                    site = 'outcome'
                else:
                    what = first_diff(ref, cur)
                    site = diff_site(ref, cur)
                check.fail('C07|determinism|hashseed|%s' % site,
                           '%s: documents built in fresh processes under PYTHONHASHSEED=%s and %s differ: %s'
                           % (name, ref_seed, sd, what),
                           {'spec': spec, 'name': name, 'stage': 'determinism', 'seeds': [ref_seed, sd]})
                break


def run(check):
    tier = check.tier
    check.rule = ('generated applications (1..3 services, 0..8 classes over 6 namespaces with inheritance/arrays, '
                  'custom operation / message names with and without foreign namespaces, 0..2 in/out headers per '
                  'method or per service, 0..2 faults, 0..3 port types per service, wrapped/bare/out_bare, 0..2 '
                  'hand-registered sN prefixes) plus fixed boundary applications and one witness per known finding; a '
                  'case is distinct by its full specification; counted: documents compared with the model, zeep calls, '
                  'fresh-process rebuilds')
    check.trusted = list(lib.COMMON_TRUSTED) + [
        'the snapshot function of harness/c07.py (reads the populated Interface: classes/deps/imports/prefix tables and '
        'the MethodDescriptors) and its parser of the emitted bytes into the token skeleton',
        'harness/translate/wsdlgen.py: what it accepts in wsdl11.py / interface/_base.py / xml_schema/_base.py / '
        'util/toposort.py means what Gen/WsdlGen.v says (message= prefixes, sorted() over the import sets, the '
        'components of the toposort2 key, the header-message suffixes, the prefix stem)',
        'lxml (parsing, in-scope namespace tables), zeep 4.3.3 and requests.Response as the independent client',
        'modelled, not verified: lxml freezes the nsmap of an element at creation; Python str / tuple ordering = code '
        'point order on the U+0000-joined components; dict / odict keep insertion order',
    ]
    check.assumptions = [
        'PROVED over the model, for every snapshot and every iteration order of the Python sets: prefix allocation is '
        'injective and total; toposort2 is total, sound and - where the key separates - order independent; message / '
        'portType / binding / port references resolve; one portType operation and one matching binding operation per '
        'method; binding names unique; type / base / element references of the schemas and wsdl:part elements resolve '
        '(under wf_snap); every schema document imports every namespace it refers to (under wf_importsb); the document '
        'skeleton, prefixes and xmlns table are order independent (under key_injb or tier_sepb)',
        'Interface.populate_interface is outside the model: what it leaves behind enters C07_schema_closed as the decidable '
        'hypothesis wf_snap (classes registered with a registered variant of their base, requests / responses in the target '
        'namespace or registered, headers and faults registered under their element name); wf_snapb is evaluated in Coq '
        'on the snapshot of every generated application and must be true outside the regions of the known findings',
        'wf_importsb (hypothesis of C07_imports_closed: what add_class / add_method register in Interface.imports) is '
        'likewise evaluated in Coq on every snapshot; independently the oracle checks, per xs:schema of the emitted bytes, '
        'that every referenced namespace is imported, and libxml2 compiles the schema set of every generated application '
        '(Application(..., Soap11(validator=\'lxml\')))',
        'the model starts from an empty schema table: that build_interface_document rebuilds the schema nodes whatever was '
        'built on the object before is read from the source (gen_rebuilds_schema) and observed: the WSDL is fetched through '
        'WsgiApplication (?wsdl, i.e. app.interface.docs.wsdl11) under validator None / soft / lxml and must equal, byte '
        'for byte, the document of a fresh Wsdl11(app.interface), carry no schemaLocation, and drive the zeep client '
        'against the server that validates with libxml2',
        'faults_in_tns (hypothesis of C07_wsdl_closed): Interface.add_method assigns fault.__namespace__ = tns; read off '
        'the snapshot, not proved',
        'determinism: C07_doc_det needs the toposort2 key to separate all registered classes, C07_doc_det_tiers only the '
        'classes of one tier whose handler writes a node; which of the two holds is computed from the real tiers and '
        'confirmed in Coq per snapshot (coverage.determinism_hypotheses).  Where neither holds (two Array(...) / customised '
        'twins of a complex class in one tier, which write identical nodes) byte identity is OBSERVED (same-process '
        'rebuild with fresh class objects, fresh processes under 4/10 PYTHONHASHSEEDs), not proved',
        'C07_binding_ops assumes that no service lists a port type twice in __port_types__',
        'callbacks, async methods, auxiliary services, partner links, XmlAttribute/XmlData members, customised simple '
        'types and enums are outside the generated universe (the harness reports them as outside the model)',
        'well-formedness of the bytes (lxml parses them) and the foreign client (zeep built from the bytes alone, '
        'in-process transport, every operation called once with sample values, request values / headers seen by the '
        'server and reply values compared) are exercised, not proved',
    ]
    check.regen(['wsdlgen'])
    try:
        gen = open(os.path.join(lib.COQ, 'Gen', 'WsdlGen.v')).read()
    except IOError:
        gen = ''
    if 'Definition gen_shape_ok : bool := true.' not in gen:
        import re
        why = re.findall(r'\(\* SHAPE MISMATCH: (.*?) \*\)', gen, re.S)
        check.broken.append(('translator', 'wsdlgen', 'the emitters do not have the shape the translator reads: %s'
                             % ('; '.join(why) if why else 'Gen/WsdlGen.v missing')))
    check.extra['generated_constants'] = [l.strip() for l in gen.split('\n') if l.startswith('Definition gen_')]
    check.check_sources()
    check.prove('Props.C07', THEOREMS)
    rng = check.rng
    cases = []
    named = []
    for name, spec in fixed_specs():
        named.append((name, spec))
    n = 120 if tier == 'quick' else 600
    for i in range(n):
        size = 's' if i % 3 == 0 else ('m' if i % 3 == 1 else 'l')
        named.append(('gen%d' % i, gen_spec(rng, size)))
    zeep_budget = 60 if tier == 'quick' else 300
    for idx, (name, spec) in enumerate(named):
        process(check, name, spec, cases, want_zeep=idx < zeep_budget)
        if idx < 6:
            check.sample({'name': name, 'services': len(spec['services']),
                          'methods': sum(len(s['methods']) for s in spec['services']),
                          'classes': len(spec['classes'])})
    fnamed = finding_specs()
    for name, spec in fnamed:
        process(check, name, spec, cases, want_zeep=True)   # the client runs only where the structure is sound
    # the oracle and the theorem must talk about the same XSD builtins
    lib.correspond(check, 'xsd_builtins', 'From SpyneV Require Import Base.Prelude C07.Model.\n'
                   'Fixpoint tl_eqb (a b : list text) : bool := match a, b with [] , [] => true\n'
                   '  | x :: a, y :: b => text_eqb x y && tl_eqb a b | _, _ => false end.\n'
                   'Definition bi_ok (c : text * list text) : bool :=\n'
                   '  text_eqb (fst c) xsd_ns && tl_eqb (isort text_leb (snd c)) (isort text_leb xsd_builtins).',
                   'text * list text', 'bi_ok',
                   [('(%s, %s)' % (gtext(NS_XSD), glist([gtext(x) for x in sorted(XSD_BUILTINS)])), 'XSD_BUILTINS')])
    lib.correspond(check, 'wsdl_skeleton', IMPORTS, 'snap * list Z * obs * bool * bool * bool', 'c07_ok', cases, shard=12,
                   show='c07_show')
    # byte identity in fresh processes under different hash seeds
    seeds = [0, 1, 2, 7] if tier == 'quick' else [0, 1, 2, 3, 5, 7, 11, 13, 101, 4242]
    seeds = seeds[:1] + [s + (check.seed % 1000) * 17 for s in seeds[1:]]
    determinism(check, named, seeds)
    check.extra['hash_seeds'] = seeds
    lib.flush_correspondences(check)
    return check.finish()


def replay(check, path):
    r = json.load(open(path))
    rp = r.get('replay', {})
    print(json.dumps({k: r[k] for k in ('property', 'key', 'what')}, indent=1))
    spec = rp.get('spec')
    if spec is None:
        print(json.dumps(rp, indent=1))
        return 0
    cases = []
    if rp.get('stage') == 'determinism':
        determinism(check, [(rp.get('name', 'replay'), spec)], rp.get('seeds', [0, 1]) + [2, 3])
    elif rp.get('stage') == 'history':
        doc = build_wsdl(build_app(spec).app)
        history_leg(check, rp.get('name', 'replay'), spec, doc, spec_features(spec),
                    force=(rp.get('fail_in'), rp.get('nth', 1)))
    else:
        process(check, rp.get('name', 'replay'), spec, cases, want_zeep=True)
    for key, what, p in check.violations:
        print('reproduced: %s [%s]' % (what, key))
    for key, what in check.known_seen.items():
        print('reproduced (known finding): %s [%s]' % (what, key))
    lib.cleanup_scratch()
    return 1 if check.violations else 0


if __name__ == '__main__':
    if len(sys.argv) > 1 and sys.argv[1] == '--child':
        child_main()
