"""C09 — faults arrive intact, are classified correctly and never leak internals.

Drives the real Spyne code (WsgiApplication served chunked and unchunked, ServerBase, and a loopback
client built on spyne.client.RemoteProcedureBase) with generated faults / exceptions raised from
five eager sites and two generator sites (before / after the first item; for HttpRpc the generator
is a streamed ByteArray) under eight output protocols, and

* compares status + parsed response document with the Coq model (coq/C09/Model.v), case by case;
* compares the Coq reference decoders / client parsers with the Python ones on the real bytes;
* runs the direct oracle: exactly what the property demands, on the implementation alone.
"""
import io, os, sys, json
import lib
from lib import gz, gtext, glist, gopt

THEOREMS = [
    'C09_response_determined_by_first_raise', 'C09_no_return_on_fault', 'C09_no_leak',
    'C09_fault_reported', 'C09_streamed_response', 'C09_streaming_refuted',
    'C09_status_table', 'C09_builtin_classes_classified',
    'C09_fault_intact_dict', 'C09_fault_intact_xml11', 'C09_fault_intact_soap12',
    'C09_fault_intact_httprpc_partial', 'C09_httprpc_detail_refuted', 'C09_xml_unrepresentable_refuted',
    'C09_loopback_soap11', 'C09_loopback_msgpackrpc',
    'C09_loopback_soap12_partial', 'C09_loopback_soap12_stripped', 'C09_loopback_soap12_strip_refuted',
]

PROTS = ['PSoap11', 'PSoap12', 'PXml', 'PJson', 'PYaml', 'PMsgpack', 'PMsgpackRpc', 'PHttpRpc']
XML_PROTS = ('PSoap11', 'PSoap12', 'PXml')
SOAP_PROTS = ('PSoap11', 'PSoap12')
LOOP_PROTS = ('PSoap11', 'PSoap12', 'PMsgpackRpc')
EAGER_SITES = ['body', 'call_app', 'call_svc', 'ret_app', 'ret_svc']
LAZY_SITES = ['gen_later', 'gen_first']
MARKER_FN = 'c09_marker_function_name'
IMPORTS = 'From SpyneV Require Import Base.Prelude Gen.FaultTables C09.Model C09.Obs.'

NS11 = 'http://schemas.xmlsoap.org/soap/envelope/'
NS12 = 'http://www.w3.org/2003/05/soap-envelope'


def prot_class(pn):
    from spyne.protocol.soap import Soap11, Soap12
    from spyne.protocol.xml import XmlDocument
    from spyne.protocol.json import JsonDocument
    from spyne.protocol.yaml import YamlDocument
    from spyne.protocol.msgpack import MessagePackDocument, MessagePackRpc
    from spyne.protocol.http import HttpRpc
    return {'PSoap11': Soap11, 'PSoap12': Soap12, 'PXml': XmlDocument, 'PJson': JsonDocument,
            'PYaml': YamlDocument, 'PMsgpack': MessagePackDocument, 'PMsgpackRpc': MessagePackRpc,
            'PHttpRpc': HttpRpc}[pn]


# ------------------------------------------------------------------ the world: one app per configuration
class World(object):
    """An application whose user code (method bodies and event listeners) does what self.box says."""

    def __init__(self, pname, in_kind):
        from spyne import Application, rpc, Service, Unicode, Iterable, ByteArray
        from spyne.protocol.http import HttpRpc
        from spyne.protocol.json import JsonDocument
        box = self.box = {}
        self.pname = pname

        def c09_marker_function_name(site):
            mk = box.get(site)
            if mk is not None:
                e = mk()
                box['raised'] = e
                raise e

        fire = c09_marker_function_name

        class C09Service(Service):
            @rpc(Unicode, _returns=Unicode)
            def plain(ctx, s):
                fire('body')
                return box['retval']

            @rpc(Unicode, _returns=Iterable(Unicode))
            def lazy(ctx, s):
                fire('gen_first')
                yield box['retval']
                fire('gen_later')

            # HttpRpc serialises primitives only: its generator-valued result is a ByteArray whose
            # chunks are produced lazily (the documented way of streaming a response)
            @rpc(Unicode, _returns=ByteArray)
            def stream(ctx, s):
                fire('gen_first')
                yield box['retval'].encode('utf8')
                fire('gen_later')

        C09Service.event_manager.add_listener('method_call', lambda ctx: fire('call_svc'))
        C09Service.event_manager.add_listener('method_return_object', lambda ctx: fire('ret_svc'))
        P = prot_class(pname)
        inp = {'http': HttpRpc, 'json': JsonDocument, 'same': P}[in_kind]()
        self.app = Application([C09Service], 'c09.tns', in_protocol=inp, out_protocol=P())
        self.app.event_manager.add_listener('method_call', lambda ctx: fire('call_app'))
        self.app.event_manager.add_listener('method_return_object', lambda ctx: fire('ret_app'))

    def arm(self, site, maker, retval):
        self.box.clear()
        self.box['retval'] = retval
        if site is not None:
            self.box[site] = maker

    # -- transports
    def wsgi_app(self, chunked):
        from spyne.server.wsgi import WsgiApplication
        if not hasattr(self, '_wsgi'):
            self._wsgi = {}
        if chunked not in self._wsgi:
            self._wsgi[chunked] = WsgiApplication(self.app, chunked=chunked)
        return self._wsgi[chunked]

    def wsgi(self, method, chunked=True):
        st = {}

        def start_response(status, headers, exc_info=None):
            st['status'] = status
            st['headers'] = headers
        env = {'REQUEST_METHOD': 'GET', 'PATH_INFO': '/' + method, 'QUERY_STRING': 's=x',
               'wsgi.input': io.BytesIO(b''), 'SERVER_NAME': 'h', 'SERVER_PORT': '80',
               'wsgi.url_scheme': 'http', 'CONTENT_TYPE': ''}
        try:
            it = self.wsgi_app(chunked)(env, start_response)
        except Exception as e:
            return ('escape', e, st.get('status'))
        chunks = []
        try:
            try:
                for c in it:
                    chunks.append(c)
            finally:
                if hasattr(it, 'close'):
                    it.close()
        except Exception as e:
            if 'status' in st:
                # the response iterable raised after start_response: status line and these chunks are sent
                return ('partial', st['status'], st['headers'], b''.join(chunks), e)
            return ('escape', e, None)
        if 'status' not in st:
            return ('escape', RuntimeError('start_response never called'), None)
        return ('ok', st['status'], st['headers'], b''.join(chunks))

    def server(self, method, chunked=True):
        """ServerBase driven directly (JSON request document)"""
        from spyne.server import ServerBase
        from spyne.context import MethodContext
        if not hasattr(self, '_srv'):
            self._srv = ServerBase(self.app)
            self._srv.transport = 'c09'
        ctx = MethodContext(self._srv, MethodContext.SERVER)
        ctx.in_string = [json.dumps({method: {'s': 'x'}}).encode()]
        ctx, = self._srv.generate_contexts(ctx)
        if ctx.in_error:
            return ('harness', 'in_error %r' % ctx.in_error)
        self._srv.get_in_object(ctx)
        if ctx.in_error:
            return ('harness', 'in_error %r' % ctx.in_error)
        try:
            self._srv.get_out_object(ctx)
            self._srv.get_out_string(ctx)
            body = b''.join(ctx.out_string)
        except Exception as e:
            return ('escape', e, None)
        return ('ok', None, [], body)

    def loopback(self, method, chunked=True):
        """Spyne's own client, its transport replaced by a direct call of the WSGI application"""
        from spyne.client import RemoteProcedureBase, RemoteService
        wsgi, res = self.wsgi_app(chunked), {}

        class Proc(RemoteProcedureBase):
            def __call__(self, *args, **kwargs):
                self.ctx, = self.contexts
                self.get_out_object(self.ctx, args, kwargs)
                self.get_out_string(self.ctx)
                req = b''.join(self.ctx.out_string)
                st = {}

                def start_response(status, headers, exc_info=None):
                    st['status'] = status
                env = {'REQUEST_METHOD': 'POST', 'PATH_INFO': '/', 'QUERY_STRING': '',
                       'wsgi.input': io.BytesIO(req), 'CONTENT_LENGTH': str(len(req)),
                       'SERVER_NAME': 'h', 'SERVER_PORT': '80', 'wsgi.url_scheme': 'http',
                       'CONTENT_TYPE': self.app.out_protocol.mime_type}
                try:
                    body = b''.join(wsgi(env, start_response))
                except Exception as e:
                    res['server_escape'] = e
                    return self
                res['status'], res['body'] = st.get('status'), body
                self.ctx.in_string = [body]
                self.get_in_object(self.ctx)
                return self
        try:
            r = getattr(RemoteService(Proc, None, self.app), method)('x')
        except Exception as e:
            return ('client_escape', e, res)
        if 'server_escape' in res:
            return ('server_escape', res['server_escape'], res)
        return ('ok', r.ctx.in_error, r.ctx.in_object, res)


# ------------------------------------------------------------------ generators
ASCII_WORDS = ['Foo', 'Bar', 'x', 'ValidationError', 'a1', 'Q_z', 'sub-code', 'Sender', 'Receiver', 'Client', 'Server']
UNI_POOL = ['h\xe9llo', '世界', '\U0001f600', 'Ж', 'a b', '<&>"\'', ']]>', 'tab\there', 'nl\nnl',
            'cr\rlf', '\x7f', '\x85', '\xa0', ' ', '�', '\U0010ffff', '%s %d', '{0}', '\\n', '&amp;', 'x' * 30]
# text that is data here but syntax to some layer a fault might be (wrongly) pushed through: XML/HTML
# character and entity references, markup, CDATA, comments, processing instructions, doctype,
# percent / backslash / MIME / UTF-7 escapes, format and template placeholders.  A fault field is
# opaque: every one of these must arrive character for character.
MARKUP = ['&#233;', '&#xE9;', '&#x41;', '&#65', '&#', '&#;', '&#x;', '&#38;amp;', '&#60;b&#62;', '&#0;', '&#1114112;',
          '&#xD800;', '&eacute;', '&lt;tag&gt;', '&nbsp;', '&unknown;', '&amp;#233;', '&', '& #65;', '<b>bold</b>', '<br/>',
          '<name>', '</faultstring>', '<!-- c -->', '<?pi x?>', '<![CDATA[cd]]>', '<!DOCTYPE x>', '< a', 'a<b>c', '%41',
          '%26%2365%3B', '%', '%%', '%(x)s', '\\u00e9', '\\x41', '\\', '${x}', '{{x}}', '{x}', '=?utf-8?q?=C3=A9?=',
          '+ADw-', '\'', '"q"', '`x`', '$(x)', 'a\tb', '\r\n']
XML_BAD = ['\x00', '\x0b', '\x1f', '￾', '￿', '\x01mid']
SPACES = [' ', '\t', '\n', '\xa0', '　', '\x1f', '\x85']
KEYS_OK = ['a', 'b', 'key', 'K9', '_u', 'a.b', 'a-b', 'detail', 'faultcode', 'Zz', 'x1', 'some']
KEYS_BAD = ['', 'a b', '1a', '-a', 'a:b', 'a<', '.a', 'a/b']
KEYS_UNI = ['&#65;', '<k>', '%41', 'cl\xe9', '世', 'a b', '', '1', 'k:1', '\U0001f600']


def gen_text(rng, allow_bad=False, allow_empty=True):
    r = rng.random()
    if r < 0.08 and allow_empty:
        return ''
    parts = []
    for _ in range(rng.randint(1, 4)):
        q = rng.random()
        if q < 0.45:
            parts.append(rng.choice(ASCII_WORDS))
        elif q < 0.75:
            parts.append(rng.choice(UNI_POOL))
        elif q < 0.9:
            parts.append(rng.choice(MARKUP))
        else:
            parts.append(''.join(chr(rng.choice([rng.randint(32, 126), rng.randint(0xa0, 0x2fff),
                                                 rng.randint(0x10000, 0x10ffff)])) for _ in range(rng.randint(1, 5))))
    if allow_bad and rng.random() < 0.5:
        parts.insert(rng.randint(0, len(parts)), rng.choice(XML_BAD))
    s = rng.choice(['', '', '', ' ']).join(parts)
    if rng.random() < 0.15:
        s = rng.choice(SPACES) + s
    if rng.random() < 0.15:
        s = s + rng.choice(SPACES)
    return s


def gen_code(rng, pname, stream):
    """stream: 'valid' (first segment Client/Server), 'open' (any first segment), 'boundary'"""
    if stream == 'boundary':
        return rng.choice(['Client', 'Client.', 'Client.x', 'Clientx', 'Clientx.y', 'client', 'client.x', 'CLIENT.x',
                           ' Client', 'Client .x', 'Server', 'Server.Client', 'Server.Client.x', 'Sender', 'Sender.x',
                           'Receiver', 'x.Client.', 'Client..', 'Client..x', '.Client', 'Server.', 'Other', ''])
    first = rng.choice(['Client', 'Server']) if stream == 'valid' else \
        rng.choice(['Other', 'client', 'Clientele', 'Sender', 'soap11env:Client', 'VersionMismatch', 'Cl\xe9', 'X'])
    segs = [first]
    for _ in range(rng.choice([0, 0, 1, 1, 2, 3, 6])):
        q = rng.random()
        if q < 0.7:
            segs.append(rng.choice(ASCII_WORDS))
        elif q < 0.8:
            segs.append('')
        elif q < 0.9:
            segs.append(rng.choice(['ns:Local', 'h\xe9', '世', 'a b', 'a\nb', '<x>', '&#65;', '&amp;', '%41', '<!--c-->']))
        else:
            segs.append(''.join(rng.choice('abcXYZ019_-') for _ in range(rng.randint(1, 8))))
    return '.'.join(segs)


def gen_dval(rng, keys, depth, allow_bad):
    q = rng.random()
    if depth <= 0 or q < 0.5:
        if q < 0.08:
            return None
        return gen_text(rng, allow_bad=allow_bad and rng.random() < 0.3)
    return gen_dict(rng, keys, depth - 1, allow_bad)


def gen_dict(rng, keys, depth, allow_bad, minlen=0):
    n = rng.choice([0, 1, 1, 2, 2, 3, 4]) if minlen == 0 else rng.randint(minlen, 4)
    d = {}
    for _ in range(n):
        pool = keys
        if allow_bad and rng.random() < 0.25:
            pool = KEYS_BAD
        d[rng.choice(pool)] = gen_dval(rng, keys, depth, allow_bad)
    return d


def gen_detail(rng, pname, bad):
    q = rng.random()
    if q < 0.25:
        return None
    if q < 0.32:
        return {}
    keys = KEYS_OK if (pname in XML_PROTS or rng.random() < 0.5) else KEYS_OK + KEYS_UNI
    return gen_dict(rng, keys, rng.choice([0, 1, 2, 3]), bad and pname in XML_PROTS, minlen=1)


def error_classes():
    import spyne.error as E
    from spyne.model.fault import Fault
    names = ['Fault', 'InvalidCredentialsError', 'RequestTooLongError', 'RequestNotAllowed', 'ArgumentError',
             'InvalidInputError', 'MissingFieldError', 'ValidationError', 'InternalError',
             'ResourceNotFoundError', 'RespawnError', 'ResourceAlreadyExistsError', 'Redirect']
    return dict((n, Fault if n == 'Fault' else getattr(E, n)) for n in names)


_SUBCLASS_CACHE = {}

def make_class(rng, root_name, depth):
    """a generated subclass chain below a class of spyne/error.py"""
    key = (root_name, depth)
    if key not in _SUBCLASS_CACHE:
        cls = error_classes()[root_name]
        for i in range(depth):
            cls = type('C09Gen%s%d' % (root_name, i), (cls,), {'__module__': 'c09.generated'})
        _SUBCLASS_CACHE[key] = cls
    return _SUBCLASS_CACHE[key]


NATURAL_ARGS = {
    'Fault': None, 'InvalidCredentialsError': (), 'RequestTooLongError': (), 'RequestNotAllowed': ('not allowed',),
    'ArgumentError': ('bad arg',), 'InvalidInputError': ('bad', 'data'), 'MissingFieldError': ('fld',),
    'ValidationError': ('val',), 'InternalError': ('err',), 'ResourceNotFoundError': ('thing',),
    'RespawnError': ('thing',), 'ResourceAlreadyExistsError': ('thing',), 'Redirect': (None, 'http://elsewhere/')}


def gen_fault_spec(rng, pname, stream, bad=False):
    """A description of the fault to raise: JSON-able, so that it can be replayed."""
    roots = ['Fault'] * 6 + ['InvalidCredentialsError', 'RequestTooLongError', 'RequestNotAllowed', 'ArgumentError',
                             'InvalidInputError', 'MissingFieldError', 'ValidationError', 'InternalError',
                             'ResourceNotFoundError', 'RespawnError', 'ResourceAlreadyExistsError']
    root = rng.choice(roots)
    spec = {'root': root, 'depth': rng.choice([0, 0, 1, 2]), 'natural': False}
    if root != 'Fault' and rng.random() < 0.4:
        spec['natural'] = True          # the class's own constructor decides code and message
        if rng.random() < 0.5 and root in NATURAL_ALT:
            spec['argv'] = rng.randrange(12)
        if rng.random() < 0.5:
            spec['detail'] = gen_detail(rng, pname, False)
        return spec
    spec['code'] = gen_code(rng, pname, stream)
    spec['string'] = gen_text(rng, allow_bad=bad and pname in XML_PROTS and rng.random() < 0.5)
    spec['actor'] = rng.choice(['', '', '', 'http://actor.example/', gen_text(rng)])
    spec['detail'] = gen_detail(rng, pname, bad)
    spec['lang'] = rng.choice(['en', 'en', 'en', 'tr', 'en-US', ''])
    return spec


# the resource / field / value handed to a dedicated error is the caller's: a tuple key, a number, a dict,
# None are all legal there (the classes format it with %r / into their message)
NATURAL_ALT = {
    'ResourceNotFoundError': [(('users', 42),), ((7,),), (None,), ({'id': 1},), (3.5,), ('100%',)],
    'RespawnError': [(('pool', 'w1'),), (None,)],
    'ResourceAlreadyExistsError': [(('users', 42),), (None,), ('100%',), ((7,),)],
    'MissingFieldError': [(('a', 'b'),), ('100%',)],
    'ValidationError': [(('a', 'b'),), (None,), ('100%',), ((7,),)],
    'InternalError': [(('a', 'b'),), ('100%',), (None,)],
}
CONSTRUCT_FAILED = []


def natural_args(spec):
    alts = NATURAL_ALT.get(spec['root'], [])
    i = spec.get('argv')
    return alts[i % len(alts)] if (i is not None and alts) else NATURAL_ARGS[spec['root']]


def build_fault(spec):
    cls = make_class(None, spec['root'], spec['depth'])
    if spec.get('natural'):
        try:
            e = cls(*natural_args(spec))
        except Exception as x:
            CONSTRUCT_FAILED.append((spec['root'], repr(natural_args(spec)), type(x).__name__))
            raise
        if 'detail' in spec:
            e.detail = spec['detail']
        return e
    e = cls.__new__(cls)
    from spyne.model.fault import Fault
    Fault.__init__(e, spec['code'], spec['string'], spec['actor'], spec['detail'], spec['lang'])
    return e                             # (the constructor replaces an empty message by the type name)


EXN_KINDS = ['ValueError', 'KeyError', 'RuntimeError', 'ZeroDivisionError', 'AttributeError', 'TypeError',
             'AssertionError', 'OSError', 'UnicodeDecodeError', 'CustomNamed', 'CustomStr', 'Chained', 'LookupError',
             'NotImplementedError', 'StopIteration', 'RecursionError', 'FaultLookalike']


def gen_exn_spec(rng):
    tok = 'TOK' + ''.join(rng.choice('0123456789abcdef') for _ in range(12))
    return {'kind': rng.choice(EXN_KINDS), 'token': tok,
            'text': rng.choice(['%s', 'secret %s here', '<%s>', '"%s"', '%s\n', 'h\xe9 %s 世', "pass'word %s"]) % tok}


def build_exn(spec):
    k, tx, tok = spec['kind'], spec['text'], spec['token']
    if k == 'ZeroDivisionError':
        try:
            1 // 0
        except ZeroDivisionError as e:
            e.args = (tx,)
            return e
    if k == 'OSError':
        return OSError(13, tx, '/etc/' + tok)
    if k == 'UnicodeDecodeError':
        return UnicodeDecodeError('utf8', tok.encode(), 0, 1, tx)
    if k == 'CustomNamed':
        return type('Err' + tok, (Exception,), {})(tx)
    if k == 'CustomStr':
        return type('C09Custom', (Exception,), {'__str__': lambda s: tx, '__repr__': lambda s: tx,
                                                'faultcode': 'Client.' + tok, 'faultstring': tx})()
    if k == 'Chained':
        e = RuntimeError(tx)
        e.__cause__ = ValueError('cause ' + tok)
        e.__context__ = KeyError('context ' + tok)
        return e
    if k == 'FaultLookalike':
        return type('Fault', (Exception,), {'faultcode': 'Client.' + tok, 'faultstring': tx, 'detail': {tok: tx},
                                            'faultactor': tok, 'lang': 'en'})(tx)
    import builtins
    return getattr(builtins, k)(tx)


def exn_tokens(spec):
    return [spec['token'], MARKER_FN, 'Traceback', 'c09.py', 'harness/', 'File "']


# ------------------------------------------------------------------ parsing responses into model documents
class Unprintable(Exception):
    pass


def parse_xml(body):
    from lxml import etree
    root = etree.fromstring(body)

    def conv(el):
        if not isinstance(el.tag, str):
            raise Unprintable('non-element node in the response')
        q = etree.QName(el)
        attrs = sorted((etree.QName(k).namespace or '', etree.QName(k).localname, v) for k, v in el.attrib.items())
        if el.tail and el.tail.strip():
            raise Unprintable('mixed content')
        return (q.namespace or '', q.localname, attrs, el.text or '', [conv(c) for c in el])
    return conv(root)


def gxml(x):
    ns, name, attrs, text, kids = x
    return '(Elt %s %s %s %s %s)' % (gtext(ns), gtext(name),
                                     glist(['(%s, %s, %s)' % (gtext(a), gtext(b), gtext(c)) for a, b, c in attrs]),
                                     gtext(text), glist([gxml(k) for k in kids]))


def to_doc(v):
    if v is None:
        return ('null',)
    if isinstance(v, bool):
        raise Unprintable('bool')
    if isinstance(v, str):
        return ('str', v)
    if isinstance(v, int):
        return ('int', v)
    if isinstance(v, dict):
        for k in v:
            if not isinstance(k, str):
                raise Unprintable('non-string key')
        return ('dict', [(k, to_doc(x)) for k, x in v.items()])
    if isinstance(v, (list, tuple)):
        return ('list', [to_doc(x) for x in v])
    raise Unprintable(type(v).__name__)


def gdoc(d):
    k = d[0]
    if k == 'null':
        return 'JNull'
    if k == 'str':
        return '(JStr %s)' % gtext(d[1])
    if k == 'int':
        return '(JInt %s)' % gz(d[1])
    if k == 'dict':
        return '(JDict %s)' % glist(['(%s, %s)' % (gtext(a), gdoc(b)) for a, b in d[1]])
    return '(JList %s)' % glist([gdoc(x) for x in d[1]])


def parse_body(pname, body):
    """response bytes -> ('xml', tree) | ('doc', value) | ('text', str)"""
    if pname in XML_PROTS:
        return ('xml', parse_xml(body))
    if pname == 'PJson':
        return ('doc', to_doc(json.loads(body.decode('utf8'))))
    if pname == 'PYaml':
        import yaml
        return ('doc', to_doc(yaml.safe_load(body.decode('utf8'))))
    if pname in ('PMsgpack', 'PMsgpackRpc'):
        import msgpack
        return ('doc', to_doc(msgpack.unpackb(body, raw=False, strict_map_key=False)))
    return ('text', body.decode('utf8'))


def gwire(w):
    if w[0] == 'xml':
        return '(WXml %s)' % gxml(w[1])
    if w[0] == 'doc':
        return '(WDoc %s)' % gdoc(w[1])
    if w[0] == 'text':
        return '(WText %s)' % gtext(w[1])
    return '(WReturn %s)' % gtext(w[1])


def gdval(v):
    if v is None:
        return 'DNone'
    if isinstance(v, str):
        return '(DStr %s)' % gtext(v)
    return '(DDict %s)' % gkvs(v)


def gkvs(d):
    items = d.items() if isinstance(d, dict) else d
    return glist(['(%s, %s)' % (gtext(k), gdval(v)) for k, v in items])


ROOTS = None

def root_of(e):
    """nearest class of spyne/error.py in the MRO"""
    global ROOTS
    if ROOTS is None:
        ROOTS = dict((c, n) for n, c in error_classes().items())
    for c in type(e).__mro__:
        if c in ROOTS:
            return ROOTS[c]
    raise Unprintable('not a Fault')


def gfault(e):
    return '(Build_fault E_%s %s %s %s %s %s)' % (
        root_of(e), gtext(e.faultcode), gtext(e.faultstring), gtext(e.faultactor),
        gopt(e.detail, gkvs), gtext(e.lang))


def graise(kind, e, spec):
    if kind == 'fault':
        return '(RFault %s)' % gfault(e)
    return '(RExn (Build_pyexn %s %s))' % (gtext(type(e).__name__), gtext(spec['text']))


def gucode(site, r, retval):
    none, ret = 'None', '(inr (RPlain %s))' % gtext(retval)
    some = '(Some %s)' % r
    if site is None:
        return '(Build_ucode None %s None)' % ret
    if site in ('call_app', 'call_svc'):
        return '(Build_ucode %s %s None)' % (some, ret)
    if site == 'body':
        return '(Build_ucode None (inl %s) None)' % r
    if site in ('ret_app', 'ret_svc'):
        return '(Build_ucode None %s %s)' % (ret, some)
    if site == 'gen_later':
        return '(Build_ucode None (inr (RGen %s %s)) None)' % (gtext(retval), some)
    if site == 'gen_first':
        return '(Build_ucode None (inr (RGen0 %s)) None)' % r
    if site == 'gen_none':
        return '(Build_ucode None (inr (RGen %s None)) None)' % gtext(retval)
    raise ValueError(site)


def crash_class(e, raised):
    if e is raised:
        return 'OtherExn'
    if isinstance(e, ValueError):
        return 'ValueError'
    if isinstance(e, TypeError):
        return 'TypeError'
    if isinstance(e, AssertionError):
        return 'AssertionError'
    return 'OtherExn'


def status_number(status):
    try:
        return int(status.split(' ', 1)[0])
    except Exception:
        return -1


# ------------------------------------------------------------------ Python reference decoder + expectations
def ref_elt_to_dv(x):
    ns, name, attrs, text, kids = x
    if not kids:
        return text
    return [(k[1], ref_elt_to_dv(k)) for k in kids]


def ref_find(kids, ns, name):
    for k in kids:
        if k[0] == ns and k[1] == name:
            return k
    return None


def ref_local(s):
    return s.split(':', 1)[1] if ':' in s else s


def ref_decode(pname, w):
    """independent reading of a fault document: (code, message, detail) or None.
    detail: None | list of (key, value) with value str | None | list"""
    try:
        if pname in ('PXml', 'PSoap11', 'PSoap12'):
            x = w[1]
            ns = NS12 if pname == 'PSoap12' else NS11
            if pname != 'PXml':
                if (x[0], x[1]) != (ns, 'Envelope'):
                    return None
                b = ref_find(x[4], ns, 'Body')
                if b is None or not b[4]:
                    return None
                x = b[4][0]
            if (x[0], x[1]) != (ns, 'Fault'):
                return None
            if pname == 'PSoap12':
                c, r = ref_find(x[4], ns, 'Code'), ref_find(x[4], ns, 'Reason')
                v, tx = ref_find(c[4], ns, 'Value'), ref_find(r[4], ns, 'Text')
                first = ref_local(v[3])
                segs = [{'Sender': 'Client', 'Receiver': 'Server'}.get(first, first)]
                sc = ref_find(c[4], ns, 'Subcode')
                while sc is not None:
                    sv = ref_find(sc[4], ns, 'Value')
                    if sv is not None:
                        segs.append(sv[3])
                    sc = ref_find(sc[4], ns, 'Subcode')
                d = ref_find(x[4], ns, 'Detail')
                return ('.'.join(segs), tx[3], None if d is None else [(k[1], ref_elt_to_dv(k)) for k in d[4]])
            c, s = ref_find(x[4], '', 'faultcode'), ref_find(x[4], '', 'faultstring')
            d = ref_find(x[4], '', 'detail')
            return (ref_local(c[3]), s[3], None if d is None else [(k[1], ref_elt_to_dv(k)) for k in d[4]])
        if pname in ('PJson', 'PYaml', 'PMsgpack', 'PMsgpackRpc'):
            d = w[1]
            if pname == 'PMsgpackRpc':
                if d[0] != 'list' or len(d[1]) != 3 or d[1][0] != ('int', 3):
                    return None
                d = d[1][2]
            if d[0] != 'dict':
                return None
            m = dict(d[1])
            c, s = m.get('faultcode'), m.get('faultstring')
            if c is None or s is None or c[0] != 'str' or s[0] != 'str':
                return None

            def dv(x):
                if x[0] == 'null':
                    return None
                if x[0] == 'str':
                    return x[1]
                if x[0] == 'dict':
                    return [(k, dv(v)) for k, v in x[1]]
                raise Unprintable('detail leaf')
            det = m.get('detail')
            if det is not None:
                det = dv(det)
                if not isinstance(det, list):
                    return None
            return (c[1], s[1], det)
        if pname == 'PHttpRpc':
            s = w[1]
            if '\n\n' not in s:
                return None
            a, b = s.split('\n\n', 1)
            return (a, b, None)
    except (Unprintable, TypeError, AttributeError, IndexError):
        return None
    return None


def gfobs(o):
    if o is None:
        return 'None'
    return '(Some (Build_fobs %s %s %s))' % (gtext(o[0]), gtext(o[1]), gopt(o[2], gkvs))


def norm_dict(v, xml):
    """detail value as the property compares it: dicts as sorted item lists; under XML None, ''
    and {} are the same empty element"""
    if isinstance(v, (dict, list)):
        items = v.items() if isinstance(v, dict) else v
        if xml and len(items) == 0:
            return ''
        return sorted((k, norm_dict(x, xml)) for k, x in items)
    if v is None:
        return '' if xml else None
    return v


def norm_detail(d, xml):
    if d is None:
        return None
    if xml and len(d) == 0:
        return None
    items = d.items() if isinstance(d, dict) else d
    return sorted((k, norm_dict(x, xml)) for k, x in items)


def documented_status(pname, e):
    import spyne.error as E
    if pname in SOAP_PROTS:
        return 500
    if isinstance(e, E.RequestTooLongError):
        return 413
    if isinstance(e, E.ResourceNotFoundError):
        return 404
    if isinstance(e, E.RequestNotAllowed):
        return 405
    if isinstance(e, E.InvalidCredentialsError):
        return 401
    if e.faultcode == 'Client' or e.faultcode.startswith('Client.'):
        return 400
    return 500


def xml_ok_text(s):
    for ch in s:
        c = ord(ch)
        if not (c in (9, 10, 13) or 32 <= c <= 0xd7ff or 0xe000 <= c <= 0xfffd or 0x10000 <= c <= 0x10ffff):
            return False
    return True


def xml_ok_name(k):
    import re
    return re.match(r'^[A-Za-z_][A-Za-z0-9_.\-]*$', k) is not None


def xml_ok_detail(d):
    if d is None or isinstance(d, str):
        return d is None or xml_ok_text(d)
    return all(xml_ok_name(k) and xml_ok_detail(v) for k, v in d.items())


def fault_representable(pname, e):
    """inside the property's quantifier for this protocol?  (reason when not)"""
    if pname == 'PSoap12' and e.faultcode.split('.')[0] not in ('Client', 'Server'):
        return 'soap12-closed-vocabulary'
    if pname in XML_PROTS:
        if not (xml_ok_text(e.faultcode) and xml_ok_text(e.faultstring) and xml_ok_text(e.faultactor)
                and xml_ok_text(e.lang) and xml_ok_detail(e.detail)):
            return 'xml-unrepresentable-content'
    if pname == 'PHttpRpc' and '\n\n' in e.faultcode + '\n':
        return 'httprpc-blank-line-in-code'
    return None


def detail_shape(d):
    if d is None:
        return 'none'
    if len(d) == 0:
        return 'empty'
    nested = any(isinstance(v, dict) for v in d.values())
    return ('1key' if len(d) == 1 else 'multikey') + ('-nested' if nested else '')


def site_class(site):
    return {'body': 'eager', 'call_app': 'eager', 'call_svc': 'eager', 'ret_app': 'eager', 'ret_svc': 'eager',
            'gen_later': 'lazy-generator', 'gen_first': 'generator-first-item'}[site]


# ------------------------------------------------------------------ one case through one transport
def method_for(pname, site):
    if site in ('gen_later', 'gen_first', 'gen_none'):
        return 'stream' if pname == 'PHttpRpc' else 'lazy'
    return 'plain'


class Runner(object):
    def __init__(self, check):
        self.check = check
        self.worlds = {}
        self.wsgi_cases, self.server_cases, self.dec_cases, self.client_cases = [], [], [], []
        self.stats = {}

    def world(self, pname, in_kind):
        k = (pname, in_kind)
        if k not in self.worlds:
            self.worlds[k] = World(pname, in_kind)
        return self.worlds[k]

    def stat(self, k):
        self.stats[k] = self.stats.get(k, 0) + 1

    def run_case(self, case, transports=('wsgi',), oracle=True):
        """case: {'prot','site','kind': 'fault'|'exn'|'none','spec', 'retval'}"""
        pname, site, kind, spec = case['prot'], case['site'], case['kind'], case['spec']
        retval = case['retval']
        chunked = case.get('chunked', True)
        method = method_for(pname, site)
        maker = None if kind == 'none' else (lambda: build_fault(spec)) if kind == 'fault' else (lambda: build_exn(spec))
        results = {}
        for tr in transports:
            w = self.world(pname, {'wsgi': 'http', 'server': 'json', 'loopback': 'same'}[tr])
            w.arm(None if kind == 'none' else site, maker, retval)
            del CONSTRUCT_FAILED[:]
            res = getattr(w, tr)(method, chunked)
            raised = w.box.get('raised')
            if CONSTRUCT_FAILED:
                root, args, exn = CONSTRUCT_FAILED[0]
                self.check.fail('C09|%s|constructor|%s' % (root, exn),
                                'user code could not even raise %s%s: its constructor raised %s, so the client gets the '
                                'generic Server fault instead of the documented fault and status' % (root, args, exn),
                                {'spec': spec, 'protocol': pname, 'site': site})
                continue
            results[tr] = (res, raised)
            self.check.count((tr, pname, site, kind, chunked, json.dumps(spec, sort_keys=True, default=repr)))
            self.stat('%s/%s/%s' % (tr, kind, site_class(site) if kind != 'none' else 'return'))
            if kind != 'none' and raised is None:
                self.check.mismatch('harness', 'the armed site %s never ran (%s, %s)' % (site, pname, tr))
                continue
            if tr in ('wsgi', 'server'):
                self.correspond_response(case, tr, res, raised)
            else:
                self.correspond_client(case, res, raised)
            if oracle and kind != 'none' and not (tr == 'server' and site_class(site) != 'eager'):
                # (ServerBase alone is not a transport: what the serialiser raises reaches its caller by design)
                self.oracle(case, tr, res, raised)
        return results

    # -- model correspondence
    def correspond_response(self, case, tr, res, raised):
        pname, site, kind, spec, retval = case['prot'], case['site'], case['kind'], case['spec'], case['retval']
        try:
            r = 'None' if kind == 'none' else graise(kind, raised, spec)
            u = gucode(site if kind != 'none' else ({'gen_later': 'gen_none'}.get(site)), r, retval)
        except Unprintable as e:
            self.check.mismatch('harness', 'cannot print case: %s' % e)
            return
        chunked = case.get('chunked', True)
        desc = '%s %s %s %s %s' % (tr, pname, 'chunked' if chunked else 'unchunked', site,
                                   json.dumps(spec, default=repr, ensure_ascii=True)[:300])
        if res[0] == 'harness':
            self.check.mismatch('harness', res[1])
            return
        if res[0] == 'escape':
            obs, wire = '(Crash %s)' % crash_class(res[1], raised), None
        elif res[0] == 'partial':
            # start_response was called, these bytes were handed over, then the iterable raised
            sent = res[3].decode('utf8', 'replace')
            # (PEP 479: a StopIteration raised inside a generator leaves it as RuntimeError from that StopIteration)
            same = res[4] is raised or (isinstance(raised, StopIteration) and isinstance(res[4], RuntimeError)
                                        and res[4].__cause__ is raised)
            if not same:
                sent = '<the response iterable raised %s, not what user code raised>' % type(res[4]).__name__
            obs, wire = '(Ok (%s, (WPartial %s)))' % (gz(status_number(res[1])), gtext(sent)), None
        else:
            body = res[3]
            try:
                if kind == 'none':
                    ok = retval.encode('utf8') in body or json.dumps(retval).strip('"').encode() in body
                    wire = ('ret', retval if ok else '<return value not found in the response>')
                else:
                    wire = parse_body(pname, body)
            except Exception as e:
                if retval.encode('utf8') in body:
                    wire = ('ret', retval)      # a success document where a fault was expected
                else:
                    wire = ('text', '<unparseable response: %s>' % type(e).__name__)
            if tr == 'wsgi':
                obs = '(Ok (%s, %s))' % (gz(status_number(res[1])), gwire(wire))
            else:
                obs = '(Ok %s)' % gwire(wire)
        if tr == 'wsgi':
            self.wsgi_cases.append(('(%s, %s, %s, %s)' % (pname, lib.gbool(chunked), u, obs), desc))
        else:
            self.server_cases.append(('(%s, %s, %s)' % (pname, u, obs), desc))
        # the Coq decoders against the Python ones, on the real document
        if wire is not None and wire[0] != 'ret' and kind != 'none':
            self.dec_cases.append(('(%s, %s, %s)' % (pname, gwire(wire), gfobs(ref_decode(pname, wire))), desc))

    def observe_client_error(self, err):
        """ctx.in_error of the loopback client -> (code, message, detail)"""
        d = err.detail
        if d is not None and hasattr(d, 'tag'):
            from lxml import etree
            d = [(k[1], ref_elt_to_dv(k)) for k in parse_xml(etree.tostring(d))[4]]
        elif isinstance(d, dict):
            def dv(x):
                return [(k, dv(v)) for k, v in x.items()] if isinstance(x, dict) else x
            d = dv(d)
        return (err.faultcode, err.faultstring, d)

    def correspond_client(self, case, res, raised):
        pname, spec = case['prot'], case['spec']
        desc = 'loopback %s %s %s' % (pname, case['site'], json.dumps(spec, default=repr, ensure_ascii=True)[:300])
        if res[0] != 'ok' or case['kind'] == 'none':
            # the server side is compared through the wsgi transport; a client-side escape is the oracle's business
            return
        err, obj, info = res[1], res[2], res[3]
        try:
            wire = parse_body(pname, info['body'])
            obs = None if err is None else self.observe_client_error(err)
            self.client_cases.append(('(%s, %s, %s)' % (pname, gwire(wire), gfobs(obs)), desc))
        except Exception as e:
            self.check.mismatch('harness', 'cannot print client case %s: %r' % (desc, e))

    # -- the direct oracle: the property, on the implementation alone
    def oracle(self, case, tr, res, raised):
        pname, site, kind, spec, retval = case['prot'], case['site'], case['kind'], case['spec'], case['retval']
        check = self.check
        sc = site_class(site)
        chunked = case.get('chunked', True)
        replay = {'case': case, 'transport': tr}

        def fail(symptom, shape, what):
            key = 'C09|%s|%s|%s|%s|%s' % (pname, tr, sc, symptom, shape)
            # defects whose site does not depend on protocol / transport / raised class get one stable key
            if symptom == 'detail-lost':
                key = 'C09|PHttpRpc|Fault.to_bytes_iterable|detail-lost'
            elif shape == 'xml-unrepresentable-content' and symptom in ('escape:ValueError', 'escape:UnicodeEncodeError'):
                key = 'C09|xml-family|lxml-text-check|escape:ValueError|xml-unrepresentable-content'
            elif symptom == 'message-stripped':
                key = 'C09|PSoap12|loopback|fault_from_element:strip|message-stripped'
            elif symptom == 'streamed':
                # (protocol-specific on purpose: only HttpRpc hands generator chunks through)
                key = 'C09|%s|wsgi|chunked-streaming|raise-after-first-chunk|status-and-chunk-already-sent' % pname
            replay['observed'] = what
            check.fail(key, '%s under %s via %s (%s site): %s' % (symptom, pname, tr, sc, what), dict(replay))

        if kind == 'fault':
            e = raised
            import spyne.error as E
            if isinstance(e, E.Redirect):
                return              # a control-flow signal, not a fault report (see the evidence notes)
            out_of_scope = fault_representable(pname, e)
            shape = 'detail-%s' % detail_shape(e.detail)
            if out_of_scope == 'soap12-closed-vocabulary' or out_of_scope == 'httprpc-blank-line-in-code':
                return
            if out_of_scope:
                shape = out_of_scope
        else:
            shape = 'exception'

        if tr == 'loopback':
            if res[0] == 'server_escape':
                return fail('escape:%s' % type(res[1]).__name__, shape, 'the WSGI callable raised %r' % (res[1],))
            if res[0] == 'client_escape':
                return fail('client-escape:%s' % type(res[1]).__name__, shape,
                            'the client could not read the response: %r' % (res[1],))
            err, info = res[1], res[3]
            body, status = info.get('body', b''), info.get('status')
            if err is None:
                return fail('no-in-error', shape, 'ctx.in_error is None (status %s)' % status)
            got = self.observe_client_error(err)
            if kind == 'fault':
                want_code = e.faultcode
                code = got[0].split(':', 1)[1] if pname in SOAP_PROTS and ':' in got[0] else got[0]
                if pname == 'PSoap12':
                    f = code.split('.')
                    f[0] = {'Sender': 'Client', 'Receiver': 'Server'}.get(f[0], f[0])
                    code = '.'.join(f)
                if code != want_code:
                    return fail('code-changed', shape, 'raised %r, client sees %r' % (want_code, got[0]))
                if got[1] != e.faultstring:
                    if got[1] == (e.faultstring.strip() or 'Fault'):
                        # (the client re-builds a plain Fault, whose constructor replaces an empty message by the class name)
                        return fail('message-stripped', 'surrounding-whitespace',
                                    'raised %r, client sees %r' % (e.faultstring, got[1]))
                    return fail('message-changed', shape, 'raised %r, client sees %r' % (e.faultstring, got[1]))
                xml = pname in XML_PROTS
                if norm_detail(got[2], xml) != norm_detail(e.detail, xml):
                    return fail('detail-changed', shape, 'raised %r, client sees %r' % (e.detail, got[2]))
            else:
                code = got[0].split(':', 1)[1] if ':' in got[0] else got[0]
                if (code, got[1], got[2]) not in (('Server', 'Internal Error', None), ('Receiver', 'Internal Error', None)):
                    return fail('not-generic', shape, 'client sees %r' % (got,))
                self.leak_check(fail, spec, body, [], [got[0], got[1], repr(got[2]), repr(err.faultactor)])
            return

        # wsgi / server
        if res[0] == 'harness':
            return
        if res[0] == 'escape':
            return fail('escape:%s' % type(res[1]).__name__, shape,
                        'no response: %r escaped the %s' % (res[1], 'WSGI callable' if tr == 'wsgi' else 'server'))
        if res[0] == 'partial':
            if kind == 'exn':
                self.leak_check(fail, spec, res[3], res[2], [res[1]])
            if chunked and sc == 'lazy-generator':
                return fail('streamed', shape, 'status %r and the first chunk %r of the return value were sent, then '
                            'the response iterable raised %r: nothing is reported' % (res[1], res[3][:80], res[4]))
            return fail('raised-after-start_response', shape,
                        'status %r and %r were sent, then the response iterable raised %r' % (res[1], res[3][:80], res[4]))
        status, headers, body = res[1], res[2], res[3]
        if retval.encode('utf8') in body:
            return fail('return-value-sent', shape, 'the return value marker is in the response %r' % body[:200])
        try:
            wire = parse_body(pname, body)
        except Exception as ex:
            return fail('unparseable', shape, 'response %r is not a %s document (%r)' % (body[:200], pname, ex))
        got = ref_decode(pname, wire)
        if got is None:
            return fail('not-a-fault', shape, 'response %r is not a fault document' % body[:300])
        if kind == 'fault':
            if tr == 'wsgi':
                want = documented_status(pname, e)
                if status_number(status) != want:
                    return fail('status', '%s-instead-of-%d' % (status_number(status), want),
                                '%r (%s) answered with %r' % (e, type(e).__mro__[:3], status))
            if got[0] != e.faultcode:
                return fail('code-changed', shape, 'raised %r, wire says %r' % (e.faultcode, got[0]))
            if got[1] != e.faultstring:
                return fail('message-changed', shape, 'raised %r, wire says %r' % (e.faultstring, got[1]))
            xml = pname in XML_PROTS
            if norm_detail(got[2], xml) != norm_detail(e.detail, xml):
                if pname == 'PHttpRpc' and got[2] is None:
                    return fail('detail-lost', 'text-plain-has-no-detail',
                                'raised detail %r, the text/plain body carries none' % (e.detail,))
                return fail('detail-changed', shape, 'raised %r, wire says %r' % (e.detail, got[2]))
        else:
            if tr == 'wsgi' and status_number(status) != 500:
                return fail('status', '%s-instead-of-500' % status_number(status), 'answered with %r' % status)
            if got != ('Server', 'Internal Error', None):
                return fail('not-generic', shape, 'wire says %r' % (got,))
            self.leak_check(fail, spec, body, headers, [])

    def leak_check(self, fail, spec, body, headers, strings):
        hay = [body, body.decode('utf8', 'replace').encode('ascii', 'backslashreplace')]
        for k, v in headers or []:
            hay.append(('%s: %s' % (k, v)).encode('utf8', 'replace'))
        for s in strings:
            hay.append(s.encode('utf8', 'replace'))
        for tok in exn_tokens(spec) + [spec['kind']]:
            if spec['kind'] in ('CustomNamed', 'CustomStr', 'Chained', 'FaultLookalike') and tok == spec['kind']:
                continue
            tb = tok.encode()
            for h in hay:
                if tb in h:
                    return fail('leak', 'token-in-response', '%r occurs in the response %r' % (tok, h[:300]))


# ------------------------------------------------------------------ case streams
def fixed_cases():
    """boundary cases, theorem witnesses and the pinned-tree defects; always run first"""
    F = lambda **kw: dict({'root': 'Fault', 'depth': 0, 'natural': False, 'code': 'Client.Foo.Bar', 'string': 'h\xe9llo 世',
                           'actor': '', 'detail': None, 'lang': 'en'}, **kw)
    specs = [
        F(), F(detail={'a': 'x'}), F(code='Server.X', string='msg', detail={'a': 'x', 'b': {'c': 'd'}}),
        F(code='Server', detail={}), F(detail={'a': {'b': {'c': {'d': 'deep'}}}, 'e': None, 'f': '', 'g': {}}),
        F(code='Client', string=' padded '), F(code='Client.', string='\tx\n'), F(code='Clientx', string='x'),
        F(code='Server.Client.y', string=']]><&>'), F(code='Client..x', string='a\n\nb'),
        F(code='Client.ns:Local.z', string='\U0001f600'), F(string='', detail={'k': ''}),
        # fields that look like syntax to some layer (see MARKUP): opaque data, must arrive verbatim
        F(string='see &#233; and &#x41;'), F(string='bad escape &#38;amp; in field <name>'), F(string='  padded &#x41; message'),
        F(string='&eacute; &lt;b&gt; <b>bold</b> <!-- c --> <![CDATA[cd]]> <?pi x?>', actor='urn:a?x=&#65;&y=<z>'),
        F(code='Client.&#65;.<x>.%41', string='100% of %41 %s {0} ${x} \\u00e9', detail={'a': '&#233; <b>x</b> &amp;', 'b': {'c': '<![CDATA[&#65;]]>'}}),
        F(code='Server.&amp;', string='&#', detail={'k': '&#0; &#xD800; &#1114112;'}),
        F(root='ResourceNotFoundError', code='Server.Moved', string='nf'), F(root='RequestTooLongError', code='Server', string='long'),
        F(root='RequestNotAllowed', depth=2, code='Client.x', string='na'), F(root='InvalidCredentialsError', depth=1, code='Other', string='cred'),
        F(root='RespawnError', code='Client.ResourceNotFound', string='respawn'), F(root='ValidationError', depth=1, string='v'),
        F(actor='http://actor.example/', lang='tr', detail={'some': 'extra info'}),
        {'root': 'ResourceNotFoundError', 'depth': 0, 'natural': True}, {'root': 'RequestTooLongError', 'depth': 1, 'natural': True},
        {'root': 'InvalidCredentialsError', 'depth': 0, 'natural': True, 'detail': {'user': 'u', 'realm': {'name': 'r'}}},
        {'root': 'RequestNotAllowed', 'depth': 0, 'natural': True}, {'root': 'InternalError', 'depth': 0, 'natural': True},
        {'root': 'ArgumentError', 'depth': 0, 'natural': True}, {'root': 'MissingFieldError', 'depth': 0, 'natural': True},
        {'root': 'ValidationError', 'depth': 0, 'natural': True}, {'root': 'ResourceAlreadyExistsError', 'depth': 0, 'natural': True},
        {'root': 'InvalidInputError', 'depth': 0, 'natural': True},
    ]
    # every dedicated error with every kind of resource / field / value argument (tuple keys, None, dicts, '%')
    for root, alts in sorted(NATURAL_ALT.items()):
        for i in range(len(alts)):
            specs.append({'root': root, 'depth': 0, 'natural': True, 'argv': i})
    return specs


def make_cases(check):
    rng, tier = check.rng, check.tier
    scale = 1 if tier == 'quick' else 12
    cases = []

    def add(prot, site, kind, spec, transports, oracle=True, chunked=None):
        if chunked is None:
            chunked = rng.random() < 0.6          # WsgiApplication's default is chunked=True
        cases.append(({'prot': prot, 'site': site, 'kind': kind, 'spec': spec, 'chunked': chunked,
                       'retval': 'RETVAL' + ''.join(rng.choice('0123456789abcdef') for _ in range(10))},
                      transports, oracle))

    def transports_for(prot, i):
        t = ['wsgi']
        if i % 3 == 0:
            t.append('server')
        if prot in LOOP_PROTS and i % 2 == 0:
            t.append('loopback')
        return tuple(t)

    for prot in PROTS:
        sites = EAGER_SITES + LAZY_SITES
        # 0. success path (the model's other branch), both ways of serving
        for ch in (True, False):
            add(prot, 'body', 'none', {}, ('wsgi', 'server') + (('loopback',) if prot in LOOP_PROTS else ()), False, ch)
            add(prot, 'gen_later', 'none', {}, ('wsgi', 'server'), False, ch)
        # 1. fixed corpus
        for i, spec in enumerate(fixed_cases()):
            add(prot, sites[i % len(sites)], 'fault', spec, transports_for(prot, i))
        add(prot, 'body', 'fault', {'root': 'Redirect', 'depth': 0, 'natural': True}, ('wsgi',))
        add(prot, 'gen_first', 'fault', {'root': 'Redirect', 'depth': 0, 'natural': True}, ('wsgi',))
        # 2. generated faults: valid stream, boundary codes, open vocabulary, unrepresentable content
        for i in range(40 * scale):
            add(prot, rng.choice(sites), 'fault', gen_fault_spec(rng, prot, 'valid'), transports_for(prot, i))
        for i in range(24 * scale):
            add(prot, rng.choice(sites), 'fault', gen_fault_spec(rng, prot, 'boundary'), transports_for(prot, i))
        for i in range(10 * scale):
            add(prot, rng.choice(sites), 'fault', gen_fault_spec(rng, prot, 'open'), transports_for(prot, i))
        if prot in XML_PROTS:
            for i in range(12 * scale):
                add(prot, rng.choice(sites), 'fault', gen_fault_spec(rng, prot, 'valid', bad=True), transports_for(prot, i))
        # 3. non-Fault exceptions carrying tokens, every site, every kind at least once
        for i, k in enumerate(EXN_KINDS):
            spec = gen_exn_spec(rng)
            spec['kind'] = k
            add(prot, sites[i % len(sites)], 'exn', spec, transports_for(prot, i))
        for i in range(16 * scale):
            add(prot, rng.choice(sites), 'exn', gen_exn_spec(rng), transports_for(prot, i))
        # 4. both generator sites x both ways of serving x Fault / exception, always (the streamed
        #    configuration and the first-item repair are decided here)
        for site in LAZY_SITES:
            for ch in (True, False):
                add(prot, site, 'fault', fixed_cases()[1], ('wsgi',), True, ch)
                add(prot, site, 'exn', gen_exn_spec(rng), ('wsgi',), True, ch)
    return cases


def non_interference(check, runner):
    """two different exceptions (type, text, site, return value) must give byte-identical responses"""
    rng = check.rng
    for prot in PROTS:
        sites = EAGER_SITES + LAZY_SITES
        seen = {}
        for i in range(6 if check.tier == 'quick' else 40):
            spec = gen_exn_spec(rng)
            site = rng.choice(sites)
            w = runner.world(prot, 'http')
            w.arm(site, lambda: build_exn(spec), 'RETVAL%d' % rng.randint(0, 10 ** 9))
            chunked = rng.random() < 0.5
            if prot == 'PHttpRpc' and site == 'gen_later':
                chunked = False         # (the streamed configuration is the oracle stream's business)
            res = w.wsgi(method_for(prot, site), chunked)
            check.count(('ni', prot, site, chunked, json.dumps(spec, sort_keys=True)))
            if res[0] != 'ok':
                continue            # reported by the oracle stream
            obs = (res[1], tuple(sorted(res[2])), res[3])
            seen.setdefault(obs, (site, spec))
        if len(seen) > 1:
            (a, b) = list(seen.items())[:2]
            check.fail('C09|%s|wsgi|non-interference|responses-differ' % prot,
                       'two non-Fault exceptions give different responses under %s: %r vs %r' % (prot, a[0], b[0]),
                       {'first': a[1], 'second': b[1], 'responses': [repr(a[0]), repr(b[0])]})


def scalar_detail(check, runner):
    """oracle only (not modelled in Coq): detail leaves that are numbers or booleans - 0, 0.0 and False
    included - arrive as their value (JSON family) or as its text form (XML family), at any depth and
    inside lists; nothing is dropped or emptied"""
    from spyne.model.fault import Fault
    from lxml import etree
    rng = check.rng
    leaves = [0, 1, -5, 10 ** 20, 0.0, 1.5, False, True]
    def mk(depth):
        d = {}
        for k in rng.sample(['a', 'b', 'key', 'K9', 'some', 'x1'], rng.randint(1, 3)):
            r = rng.random()
            if depth > 0 and r < 0.3:
                d[k] = mk(depth - 1)
            elif r < 0.45:
                d[k] = [rng.choice(leaves), rng.choice(leaves)]
            else:
                d[k] = rng.choice(leaves)
        return d
    def flat_expected(d, xml):
        out = []
        for k in sorted(d):
            v = d[k]
            if isinstance(v, dict):
                out.append((k, flat_expected(v, xml)))
            elif isinstance(v, list):
                out.append((k, [str(x) if xml else x for x in v]))
            else:
                out.append((k, str(v) if xml else v))
        return out
    def flat_xml(el):
        groups = {}
        order = []
        for ch in el:
            k = etree.QName(ch).localname
            val = flat_xml(ch) if len(ch) else (ch.text or '')
            if k not in groups:
                order.append(k)
            groups.setdefault(k, []).append(val)
        return [(k, groups[k][0] if len(groups[k]) == 1 else groups[k]) for k in sorted(order)]
    def flat_doc(d):
        return [(k, flat_doc(d[k]) if isinstance(d[k], dict) else d[k]) for k in sorted(d)]
    details = [{'a': 0}, {'a': False}, {'a': 0.0}, {'a': {'b': 0, 'key': False}}, {'a': [0, 1]}, {'a': 7, 'b': True}]
    details += [mk(2) for _ in range(6 if check.tier == 'quick' else 60)]
    for prot in ('PSoap11', 'PSoap12', 'PXml', 'PJson', 'PYaml', 'PMsgpack'):
        xml = prot in XML_PROTS
        for det in details:
            w = runner.world(prot, 'http')
            w.arm('body', lambda: Fault('Client.Scalar', 'scalar detail', detail=det), 'RETVAL')
            res = w.wsgi('plain', rng.random() < 0.5)
            check.count(('scalar-detail', prot, json.dumps(det, sort_keys=True)))
            rp = {'protocol': prot, 'detail': det}
            if res[0] == 'escape' and prot == 'PMsgpack' and type(res[1]).__name__ == 'OverflowError' \
                    and '100000000000000000000' in json.dumps(det):
                # msgpack has no integer beyond 64 bits: unrepresentable content, like NUL under XML
                check.fail('C09|PMsgpack|msgpack-int-range|escape:OverflowError|detail-int-beyond-64-bit',
                           'a Fault whose detail holds the integer 10**20 cannot be packed: OverflowError escapes '
                           'handle_error before start_response', rp)
                continue
            if res[0] != 'ok':
                check.fail('C09|%s|wsgi|scalar-detail|no-response' % prot,
                           'a Fault whose detail holds number/boolean leaves %r was not reported: %r' % (det, res[:2]), rp)
                continue
            body = res[3]
            try:
                if xml:
                    root = etree.fromstring(body)
                    dets = [e for e in root.iter() if isinstance(e.tag, str) and etree.QName(e).localname.lower() == 'detail']
                    got = flat_xml(dets[0]) if dets else None
                else:
                    doc = (json.loads(body.decode('utf8')) if prot == 'PJson' else
                           __import__('yaml').safe_load(body) if prot == 'PYaml' else
                           __import__('msgpack').unpackb(body, raw=False))
                    def find(x):
                        if isinstance(x, dict):
                            if 'detail' in x:
                                return x['detail']
                            for v in x.values():
                                r = find(v)
                                if r is not None:
                                    return r
                        if isinstance(x, list):
                            for v in x:
                                r = find(v)
                                if r is not None:
                                    return r
                        return None
                    dd = find(doc)
                    got = flat_doc(dd) if isinstance(dd, dict) else None
            except Exception as e:
                got = 'unreadable: %r' % e
            want = flat_expected(det, xml)
            if got != want:
                check.fail('C09|%s|wsgi|scalar-detail|detail-changed' % prot,
                           'raised detail %r, the wire carries %r (expected %r)' % (det, got, want), rp)
    check.sample({'family': 'scalar detail leaves (oracle only)', 'details': details[:4]})


def run(check):
    check.rule = ('per output protocol (8): fixed corpus of boundary faults + seeded generated faults (valid codes with '
                  'arbitrary dotted sub-codes, boundary codes around the Client test, open-vocabulary first segments, '
                  'XML-unrepresentable content) and 17 kinds of non-Fault exceptions carrying random tokens, raised '
                  'from 5 eager sites (method body, method_call / method_return_object listeners on application and '
                  'service) and 2 generator sites (before the first item, after it; an Iterable(Unicode) result, for '
                  'HttpRpc a generator-valued ByteArray); each case runs through a WsgiApplication served chunked or '
                  'unchunked (seeded choice; both for the generator sites) and, for a subset, ServerBase and the '
                  'loopback client; a case is distinct by (transport, protocol, site, chunked, raised object)')
    check.trusted = list(lib.COMMON_TRUSTED) + [
        'translator harness/translate/faultpipe.py (error.py class table, fault_to_http_response_code chains, '
        'get_fault_string_from_exception, the try/except skeleton of process_request, the except clauses around '
        'next(g) and get_out_string in WsgiApplication.handle_rpc, where the unchunked join and the 200 default sit, '
        'the status rule of handle_error -> Gen/FaultTables.v)',
        'modelled, not verified: lxml (E-factory text/tag validation, tostring/fromstring), json, PyYAML, msgpack '
        'turn the modelled documents into bytes and back; the harness parses the real response bytes with the same '
        'libraries into the model\'s document types before comparing',
        'hand-written and tied only by the correspondence: the control flow of handle_rpc/handle_error around the '
        'generated tables, which protocols serialise a generator result lazily (Model.lazy_out: HttpRpc only), the '
        'fault serialisers/parsers of xml.py, soap12.py, model/fault.py, util/etreeconv.py',
        'equality notions of the property as encoded in Model.expected_obs and the Python oracle: QName prefix of a '
        'SOAP fault code ignored, Sender/Receiver = Client/Server under SOAP 1.2, and None = "" = {} inside a detail '
        'carried as XML (all three are an empty element)',
    ]
    check.assumptions = [
        'fault detail values are nested dicts with str/None leaves (ints, lists, lxml elements as detail are not modelled)',
        'generated Fault subclasses add no fields of their own (extra members would be serialised as extra sub-elements)',
        'Redirect and its subclasses are a control-flow signal handled by their own except clause, not a fault report: '
        'modelled (base-class do_redirect raises NotImplementedError -> generic fault) but excluded from the theorems',
        'the opt-in return_traceback_in_unhandled_exceptions() is not called; BaseException subclasses that are not '
        'Exception (KeyboardInterrupt, SystemExit) are deliberately not caught by Spyne and are outside the property',
        'ctx.transport.resp_code is not set by user code before it raises',
        'XML element names of detail keys: theorem guard is the ASCII NCName subset; non-ASCII names are accepted by '
        'lxml but not generated for XML protocols',
        'SOAP 1.2: first code segment is Client or Server (closed vocabulary, anything else is TypeError by design)',
        'output protocols outside the eight modelled ones (HtmlMicroFormat, cloth, csv, ...) and the other transports '
        '(twisted, django, zeromq, NullServer) are not covered',
        'no auxiliary (aux) method contexts: process_contexts has nothing to do',
    ]
    check.regen(['faultpipe'])
    check.check_sources()
    # (Obs.vo is a target of its own: the correspondence must still run when a proof no longer checks)
    check.prove('Props.C09', THEOREMS, targets=['C09/Obs.vo', 'Props/C09.vo'])
    lib.ensure_repo_on_path()
    runner = Runner(check)
    for case, transports, oracle in make_cases(check):
        runner.run_case(case, transports, oracle)
        if len(check.samples) < 10 and case['kind'] != 'none' and check.rng.random() < 0.02:
            check.sample({'protocol': case['prot'], 'site': case['site'], 'kind': case['kind'], 'spec': case['spec']})
    non_interference(check, runner)
    scalar_detail(check, runner)
    lib.correspond(check, 'wsgi_response', IMPORTS, 'prot * bool * ucode * out (Z * wire)', 'wsgi_ok', runner.wsgi_cases,
                   show='(fun c : prot * bool * ucode * out (Z * wire) => '
                        'handle_rpc (fst (fst (fst c))) (snd (fst (fst c))) (snd (fst c)))')
    lib.correspond(check, 'server_response', IMPORTS, 'prot * ucode * out wire', 'server_ok', runner.server_cases,
                   show='(fun c : prot * ucode * out wire => server_out (fst (fst c)) (snd (fst c)))')
    lib.correspond(check, 'reference_decoder', IMPORTS, 'prot * wire * option fobs', 'dec_ok', runner.dec_cases,
                   show='(fun c : prot * wire * option fobs => dec_fault (fst (fst c)) (snd (fst c)))')
    lib.correspond(check, 'client_parser', IMPORTS, 'prot * wire * option fobs', 'client_ok', runner.client_cases,
                   show='(fun c : prot * wire * option fobs => client_in_error (fst (fst c)) (snd (fst c)))')
    lib.flush_correspondences(check)
    check.extra['case_distribution'] = runner.stats
    return check.finish()


def replay(check, path):
    """re-run one recorded case against the implementation (direct oracle only)"""
    r = json.load(open(path))
    rp = r.get('replay', {})
    if 'case' not in rp:
        print(json.dumps(r, indent=1))
        return 0
    lib.ensure_repo_on_path()
    runner = Runner(check)
    res = runner.run_case(rp['case'], (rp['transport'],), True)
    for tr, (obs, raised) in res.items():
        print('transport %s: raised %r -> %r' % (tr, raised, obs[:4] if isinstance(obs, tuple) else obs))
    for key, what, p in check.violations:
        print('VIOLATION reproduced: %s [%s]' % (what, key))
    for key, what in check.known_seen.items():
        print('KNOWN-FINDING reproduced: %s [%s]' % (what, key))
    return 1 if check.violations else 0
