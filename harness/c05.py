"""C05 — soft validation enforces exactly the declared constraints, identically in every protocol."""
import os, sys, json, re, decimal
from io import BytesIO
from urllib.parse import quote
import lib
from lib import gz, gtext, glist, gbool, gopt
from c08 import observe, gout

THEOREMS = ['C05_bounded_native_is_spec', 'C05_integer_native_is_spec', 'C05_unsigned_native_is_spec',
            'C05_none_native_is_spec', 'C05_text_leaf_spec', 'C05_leaf_verdicts_agree', 'C05_text_leaf_total',
            'C05_freq_verdicts_agree', 'C05_dict_freq_spec',
            'C05_unicode_checks_are_spec', 'C05_unicode_none_is_spec', 'C05_text_paths_are_spec', 'C05_text_verdicts_agree',
            'C05_text_null_verdicts_agree', 'C05_text_paths_total', 'C05_datetime_native_is_spec', 'C05_datetime_naive_rule',
            'C05_datetime_verdict_of_instant', 'C05_datetime_lex_instant', 'C05_date_native_is_spec', 'C05_time_native_is_spec',
            'C05_datetime_leaf_spec', 'C05_date_leaf_spec', 'C05_time_leaf_spec', 'C05_range_paths_agree',
            'C05_array_occurrence_is_spec', 'C05_flat_array_is_spec', 'C05_array_verdicts_agree',
            'C05_xml_nil_verdict', 'C05_xsi_target_keeps_declared', 'C05_xsi_target_named', 'C05_xsi_target_total',
            'C05_enum_readers_are_spec', 'C05_enum_readers_agree', 'C05_decimal_native_is_spec', 'C05_decimal_verdict_of_number',
            'C05_decimal_text_leaf_spec', 'C05_decimal_number_is_text',
            'C05_member_freq_by_kind', 'C05_stray_nodes_irrelevant']

INT_CLASSES = {'Integer8': (True, 8), 'Integer16': (True, 16), 'Integer32': (True, 32), 'Integer64': (True, 64),
               'UnsignedInteger8': (False, 8), 'UnsignedInteger16': (False, 16), 'UnsignedInteger32': (False, 32),
               'UnsignedInteger64': (False, 64), 'Integer': None, 'UnsignedInteger': (False, None)}
TNS = 'tns'
XSI = 'http://www.w3.org/2001/XMLSchema-instance'
XSD = 'http://www.w3.org/2001/XMLSchema'
PROTOS = ('xml', 'soap11', 'json', 'yaml', 'msgpack', 'http')


def hw_bounds(cn):
    b = INT_CLASSES[cn]
    if b is None:
        return None, None
    signed, bits = b
    if bits is None:
        return 0, None
    return (-(2 ** (bits - 1)), 2 ** (bits - 1) - 1) if signed else (0, 2 ** bits - 1)


def ref_conforms_int(cn, kw, z):
    """the specification, written independently of the Coq text"""
    lo, hi = hw_bounds(cn)
    if lo is not None and z < lo:
        return False
    if hi is not None and z > hi:
        return False
    if 'ge' in kw and not z >= kw['ge']:
        return False
    if 'gt' in kw and not z > kw['gt']:
        return False
    if 'le' in kw and not z <= kw['le']:
        return False
    if 'lt' in kw and not z < kw['lt']:
        return False
    if kw.get('values') and z not in kw['values']:
        return False
    return True


def ref_conforms_text(kw, s):
    if len(s) < kw.get('min_len', 0):
        return False
    if 'max_len' in kw and len(s) > kw['max_len']:
        return False
    if 'pattern' in kw and re.fullmatch(kw['pattern'], s) is None:
        return False
    if kw.get('values') and s not in kw['values']:
        return False
    return True


def g_ext(v):
    if v is None:
        raise ValueError
    if v == decimal.Decimal('inf') or v == float('inf'):
        return 'PosInf'
    if v == decimal.Decimal('-inf') or v == float('-inf'):
        return 'NegInf'
    return '(Fin %s)' % gz(int(v))


def g_num_attrs(T):
    A = T.Attributes
    return ('{| na_nillable := %s; na_gt := %s; na_ge := %s; na_lt := %s; na_le := %s; na_values := %s; '
            'na_max_str_len := %s; na_min_bound := %s; na_max_bound := %s |}' % (
                gbool(A.nillable), g_ext(A.gt), g_ext(A.ge), g_ext(A.lt), g_ext(A.le),
                glist([gz(v) for v in sorted(A.values)]), g_ext(A.max_str_len),
                gopt(A.min_bound, gz), gopt(A.max_bound, gz)))


def g_int_type(cn):
    return ('(mk_int_type attrs_%s validate_native_%s validate_native_none_%s validate_string_%s validate_string_none_%s)'
            % ((cn,) * 5))


# ------------------------------------------------------------------ end-to-end driver
class NoForm(Exception):
    """the logical request has no wire form in this protocol"""


class _No(object):
    def __repr__(self):
        return 'NO'
NO = _No()


class Wv(object):
    """a leaf value with its wire forms: `text` for XML / SOAP / HttpRpc (None: no text form), `doc` for
    JSON / YAML / MessagePack (NO: no document form), `nil` for an explicit null"""

    def __init__(self, text=None, doc=NO, nil=False, xsi=None):
        # xsi: (namespace, type name) written as an xsi:type attribute on the XML / SOAP element
        self.text, self.doc, self.nil, self.xsi = text, doc, nil, xsi

    def __repr__(self):
        return 'Wv(%r, %r%s%s)' % (self.text, self.doc, ', nil=True' if self.nil else '',
                                   ', xsi=%r' % (self.xsi,) if self.xsi else '')
NULL = Wv(None, None, nil=True)

_NS = {}
def ns():
    """the names that type expressions and payloads of the tables (and of replay files) may use"""
    if not _NS:
        import datetime, decimal, uuid
        import spyne.model.primitive as P
        from spyne.model.complex import Array
        from spyne.model.enum import Enum
        for k in ('Unicode', 'AnyUri', 'Integer', 'UnsignedInteger', 'Integer8', 'Integer16', 'Integer32', 'Integer64',
                  'UnsignedInteger8', 'UnsignedInteger16', 'UnsignedInteger32', 'UnsignedInteger64', 'Decimal', 'Double',
                  'Boolean', 'DateTime', 'Date', 'Time', 'Duration', 'Uuid'):
            _NS[k] = getattr(P, k)
        _NS.update(datetime=datetime, D=decimal.Decimal, uuid=uuid, Array=Array, Enum=Enum, Wv=Wv, NO=NO, NULL=NULL,
                   utc=datetime.timezone.utc, nan=float('nan'), inf=float('inf'))
    return _NS


def mk_type(expr):
    return eval(expr, dict(ns()))


class Harness(object):
    """one generated service around the type under test, at every nesting position"""

    def __init__(self, T, multi=None, array=None, extra_types=(), xml_kwargs=None):
        from spyne import Application, rpc, ServiceBase, ComplexModel, Array, Unicode, XmlAttribute
        from spyne.model.complex import ComplexModelMeta
        import spyne.model.primitive as P
        self.T = T
        self.xml_kwargs = dict(xml_kwargs or {})
        # types that only have to be known to the interface (targets of xsi:type)
        known = [P.Unicode, P.Integer, P.Boolean, P.Decimal, P.Double, P.DateTime, P.Date, P.Time] + list(extra_types)
        self.calls = calls = []
        W = ComplexModelMeta('W', (ComplexModel,), {'__namespace__': TNS, '_type_info': [('v', T)]})
        WA = ComplexModelMeta('WA', (ComplexModel,), {'__namespace__': TNS, '_type_info': [('v', XmlAttribute(T))]})
        M = T.customize(min_occurs=multi[0], max_occurs=multi[1]) if multi else T.customize(max_occurs=3)
        WM = ComplexModelMeta('WM', (ComplexModel,), {'__namespace__': TNS, '_type_info': [('v', M)]})
        AT = array if array is not None else Array(T)
        WL = ComplexModelMeta('WL', (ComplexModel,), {'__namespace__': TNS, '_type_info': [('l', AT)]})
        self.item_tag = list(AT._type_info.keys())[0]
        KN = ComplexModelMeta('KN', (ComplexModel,), {'__namespace__': TNS, '_type_info': [('k%d' % i, t) for i, t in enumerate(known)]})

        class S(ServiceBase):
            @rpc(T, _returns=Unicode)
            def top(ctx, x):
                calls.append(('top', x)); return 'ok'

            @rpc(W, _returns=Unicode)
            def nested(ctx, x):
                calls.append(('nested', None if x is None else x.v)); return 'ok'

            @rpc(AT, _returns=Unicode)
            def arr(ctx, x):
                calls.append(('arr', None if x is None else list(x))); return 'ok'

            @rpc(WL, _returns=Unicode)
            def narr(ctx, x):
                calls.append(('narr', None if x is None or x.l is None else list(x.l))); return 'ok'

            @rpc(WA, _returns=Unicode)
            def att(ctx, x):
                calls.append(('att', None if x is None else x.v)); return 'ok'

            @rpc(M, _returns=Unicode)
            def multi(ctx, x):
                calls.append(('multi', None if x is None else list(x))); return 'ok'

            @rpc(WM, _returns=Unicode)
            def nmulti(ctx, x):
                calls.append(('nmulti', None if x is None or x.v is None else list(x.v))); return 'ok'

            @rpc(KN, _returns=Unicode)
            def known_types(ctx, x):
                calls.append(('known_types', x)); return 'ok'
        self.S = S
        self.apps = {}

    def app(self, proto):
        from spyne import Application
        from spyne.protocol.xml import XmlDocument
        from spyne.protocol.soap import Soap11
        from spyne.protocol.json import JsonDocument
        from spyne.protocol.yaml import YamlDocument
        from spyne.protocol.msgpack import MessagePackDocument
        from spyne.protocol.http import HttpRpc
        if proto not in self.apps:
            kw = self.xml_kwargs if proto in ('xml', 'soap11') else {}
            inp = {'xml': XmlDocument, 'soap11': Soap11, 'json': JsonDocument, 'yaml': YamlDocument,
                   'msgpack': MessagePackDocument, 'http': HttpRpc}[proto](validator='soft', **kw)
            self.apps[proto] = Application([self.S], TNS, in_protocol=inp, out_protocol=JsonDocument())
        return self.apps[proto]

    # ---- wire forms.  A logical request is (method, payload) with payload:
    #   top/nested/att: ('val', value) | ('null',) | ('absent',) | ('dup', [values])
    #   arr/narr/multi/nmulti: ('items', [values]) | ('absent',) | ('null',)
    #   a value is a plain int/str/bool (text form str(v), document form v) or a Wv
    def xml_body(self, meth, payload, soap):
        from lxml import etree
        ns = '{%s}' % TNS
        root = etree.Element(ns + meth, nsmap={None: TNS, 'xsi': XSI, 'xs': XSD, 'tns0': TNS})

        def elem(parent, tag, v):
            e = etree.SubElement(parent, ns + tag)
            if isinstance(v, Wv) and v.nil:
                e.set('{%s}nil' % XSI, 'true')
            else:
                e.text = wire_text(v)
            if isinstance(v, Wv) and v.xsi:
                e.set('{%s}type' % XSI, '%s:%s' % ({XSD: 'xs', TNS: 'tns0'}[v.xsi[0]], v.xsi[1]))
            return e

        def leaf(parent, tag, p):
            if p[0] == 'absent':
                return
            elem(parent, tag, NULL if p[0] == 'null' else p[1])
        if meth == 'top' and payload[0] == 'dup':
            for it in payload[1]:
                elem(root, 'x', it)
        elif meth == 'nested' and payload[0] == 'dup':
            x = etree.SubElement(root, ns + 'x')
            for it in payload[1]:
                elem(x, 'v', it)
        elif meth == 'top':
            leaf(root, 'x', payload)
        elif meth == 'nested':
            x = etree.SubElement(root, ns + 'x')
            leaf(x, 'v', payload)
        elif meth == 'att':
            x = etree.SubElement(root, ns + 'x')
            if payload[0] == 'val':
                x.set('v', wire_text(payload[1]))
            elif payload[0] == 'null':
                raise NoForm()       # an attribute cannot be nil
        elif meth in ('arr', 'narr'):
            parent = root if meth == 'arr' else etree.SubElement(root, ns + 'x')
            tag = 'x' if meth == 'arr' else 'l'
            if payload[0] == 'null':
                elem(parent, tag, NULL)
            elif payload[0] == 'items':
                x = etree.SubElement(parent, ns + tag)
                for it in payload[1]:
                    elem(x, self.item_tag, it)
        elif meth == 'multi':
            for it in payload[1]:
                elem(root, 'x', it)
        elif meth == 'nmulti':
            x = etree.SubElement(root, ns + 'x')
            for it in payload[1]:
                elem(x, 'v', it)
        if soap:
            env = etree.Element('{http://schemas.xmlsoap.org/soap/envelope/}Envelope')
            body = etree.SubElement(env, '{http://schemas.xmlsoap.org/soap/envelope/}Body')
            body.append(root)
            root = env
        return etree.tostring(root)

    def doc_body(self, meth, payload):
        def leaf(p):
            return None if p[0] == 'null' else doc_value(p[1])
        if payload[0] == 'dup':
            raise NoForm()        # a map cannot hold a key twice: not expressible in a dict document
        if meth == 'top':
            inner = {} if payload[0] == 'absent' else {'x': leaf(payload)}
        elif meth in ('nested', 'att'):
            inner = {'x': ({} if payload[0] == 'absent' else {'v': leaf(payload)})}
        elif meth in ('arr', 'multi'):
            inner = {} if payload[0] == 'absent' else {'x': None if payload[0] == 'null' else [doc_value(i) for i in payload[1]]}
        elif meth in ('narr', 'nmulti'):
            k = 'l' if meth == 'narr' else 'v'
            inner = {'x': ({} if payload[0] == 'absent' else
                           {k: None if payload[0] == 'null' else [doc_value(i) for i in payload[1]]})}
        else:
            raise NoForm()
        return {meth: inner}

    def http_qs(self, meth, payload):
        if payload[0] == 'null':
            raise NoForm()        # the flat notation has no null
        key = {'top': 'x', 'nested': 'x.v', 'att': 'x.v', 'arr': 'x', 'multi': 'x', 'narr': 'x.l', 'nmulti': 'x.v'}[meth]
        if payload[0] == 'absent':
            if meth in ('nested', 'att', 'narr', 'nmulti'):
                raise NoForm()    # no pairs at all: the enclosing object itself is absent in the flat form
            return ''
        vals = [payload[1]] if payload[0] == 'val' else payload[1]
        if payload[0] == 'items' and not vals:
            if meth in ('arr', 'narr', 'nmulti'):
                raise NoForm()    # present-but-empty has no flat form; for nmulti the enclosing object would be absent
            return ''
        return '&'.join(key + '=' + quote(wire_text(i)) for i in vals)

    def run(self, proto, meth, payload):
        """-> ('called', value) | ('fault', code) | ('crash', exc type) | None when the request has no wire form"""
        try:
            if proto == 'http':
                return drive(self.app(proto), self.calls, proto, qs=self.http_qs(meth, payload), meth=meth)
            if proto in ('xml', 'soap11'):
                body = self.xml_body(meth, payload, proto == 'soap11')
            else:
                body = encode_doc(proto, self.doc_body(meth, payload))
        except NoForm:
            return None
        return drive(self.app(proto), self.calls, proto, body=body)


def encode_doc(proto, d):
    try:
        if proto == 'json':
            return json.dumps(d).encode()
        if proto == 'yaml':
            import yaml
            return yaml.safe_dump(d).encode()
        import msgpack
        (k, v), = d.items()
        # documented convention: integers msgpack cannot carry (outside -2^63 .. 2^64-1) travel as text
        return msgpack.packb({k.encode(): mp_big(v)})
    except (TypeError, ValueError, OverflowError):
        raise NoForm()            # this document format cannot carry the value (e.g. bytes in JSON)
    except Exception as e:
        if type(e).__module__.startswith('yaml'):
            raise NoForm()
        raise


def drive(app, calls, proto, body=None, qs=None, meth=None):
    """one request through the real pipeline -> ('called', value) | ('fault', code) | ('crash', exc type)"""
    from spyne.server import ServerBase
    from spyne.server.wsgi import WsgiApplication
    from spyne.context import MethodContext
    del calls[:]
    try:
        if proto == 'http':
            w = WsgiApplication(app)
            st = []
            env = {'REQUEST_METHOD': 'GET', 'PATH_INFO': '/' + meth, 'QUERY_STRING': qs, 'SERVER_NAME': 'x',
                   'SERVER_PORT': '80', 'wsgi.url_scheme': 'http', 'wsgi.input': BytesIO(b''), 'SCRIPT_NAME': ''}
            out = b''.join(w(env, lambda s, h, e=None: st.append(s)))
            if calls:
                return ('called', calls[0][1])
            try:
                return ('fault', json.loads(out.decode('utf8')).get('faultcode'))
            except Exception:
                return ('fault', 'status ' + st[0] if st else '?')
        srv = ServerBase(app)
        ctx = MethodContext(srv, MethodContext.SERVER)
        ctx.in_string = [body]
        ctx, = srv.generate_contexts(ctx)
        if ctx.in_error:
            return ('fault', ctx.in_error.faultcode)
        srv.get_in_object(ctx)
        if ctx.in_error:
            return ('fault', ctx.in_error.faultcode)
        srv.get_out_object(ctx)
        if ctx.out_error:
            return ('fault', ctx.out_error.faultcode)
        if calls:
            return ('called', calls[0][1])
        return ('fault', 'not called')
    except Exception as e:
        return ('crash', type(e).__name__)


def mp_big(v):
    if isinstance(v, dict):
        return {k: mp_big(x) for k, x in v.items()}
    if isinstance(v, list):
        return [mp_big(x) for x in v]
    if isinstance(v, int) and not isinstance(v, bool) and not (-2 ** 63 <= v < 2 ** 64):
        return str(v)
    return v


def wire_text(v):
    if isinstance(v, Wv):
        if v.text is None:
            raise NoForm()
        return v.text
    if isinstance(v, bool):
        return 'true' if v else 'false'
    return str(v)


def doc_value(v):
    if isinstance(v, Wv):
        if v.doc is NO:
            raise NoForm()
        return v.doc
    return v


def int_type_cases(check, tier):
    """(class name, kwargs)"""
    rng = check.rng
    cases = [(cn, {}) for cn in INT_CLASSES]
    cases += [('Integer8', {'ge': -5, 'le': 5}), ('Integer8', {'gt': -5, 'lt': 5}), ('Integer', {'ge': 0, 'lt': 100}),
              ('Integer32', {'values': [1, 5, 7]}), ('Integer', {'values': [7]}), ('UnsignedInteger16', {'le': 1000}), ('Integer', {'gt': 10 ** 20}),
              ('Integer16', {'ge': 10, 'gt': 12, 'le': 20, 'lt': 19}), ('Integer64', {'le': -1}),
              ('Integer8', {'nillable': False}), ('Integer', {'nillable': False, 'min_occurs': 1}),
              ('Integer32', {'min_occurs': 1})]
    n = 4 if tier == 'quick' else 40
    for _ in range(n):
        cn = rng.choice(list(INT_CLASSES))
        lo, hi = hw_bounds(cn)
        lo = -10 ** 6 if lo is None else lo
        hi = 10 ** 6 if hi is None else hi
        kw = {}
        a, b = sorted([rng.randint(lo, hi), rng.randint(lo, hi)])
        if rng.random() < .5:
            kw[rng.choice(['ge', 'gt'])] = a
        if rng.random() < .5:
            kw[rng.choice(['le', 'lt'])] = b
        if rng.random() < .2:
            kw['values'] = sorted(set(rng.randint(lo, hi) for _ in range(3)))
        if rng.random() < .3:
            kw['nillable'] = False
        if rng.random() < .3:
            kw['min_occurs'] = 1
        cases.append((cn, kw))
    return cases


def int_probe_values(cn, kw, rng, n_rand=4):
    lo, hi = hw_bounds(cn)
    vals = set([0, 1, -1])
    for b in (lo, hi, kw.get('ge'), kw.get('gt'), kw.get('le'), kw.get('lt')):
        if b is not None:
            vals.update([b - 1, b, b + 1])
    for v in kw.get('values', []):
        vals.update([v - 1, v, v + 1])
    for _ in range(n_rand):
        vals.add(rng.randint(-2 ** 70, 2 ** 70) if lo is None and hi is None else rng.randint((lo or 0) - 3, (hi or 2 ** 70) + 3))
    return sorted(vals)


def classify(res):
    if res is None:
        return None
    if res[0] == 'called':
        return 'accept'
    if res[0] == 'fault' and isinstance(res[1], str) and res[1].startswith('Client.ValidationError'):
        return 'reject'
    return 'other:%s' % (res[1],)


def family_int_e2e(check, tier):
    import spyne.model.primitive.number as P
    rng = check.rng
    positions = ('top', 'nested', 'arr', 'att')
    for cn, kw in int_type_cases(check, tier):
        T = getattr(P, cn)
        if kw:
            T = T.customize(**kw)
        h = Harness(T)
        nill = kw.get('nillable', True)
        mino = kw.get('min_occurs', 0)
        vals = int_probe_values(cn, kw, rng, 3 if tier == 'quick' else 12)
        if tier == 'thorough' and not kw:
            # exhaustive sweeps that validate the model: every value around the 8-bit types, a
            # dense sweep around the 16-bit ones (the theorem covers all widths)
            if cn in ('Integer8', 'UnsignedInteger8'):
                vals = sorted(set(vals) | set(range(-300, 301)))
            elif cn in ('Integer16', 'UnsignedInteger16'):
                vals = sorted(set(vals) | set(range(-33100, -32400)) | set(range(32400, 33100)) | set(range(65200, 65800)))
        if len(vals) > 14 and tier == 'quick':
            vals = sorted(set(vals[:5] + vals[-5:] + rng.sample(vals, 4)))
        for z in vals:
            want = ref_conforms_int(cn, kw, z)
            if len(str(z)) > 1000:
                continue
            for proto in PROTOS:
                for pos in positions:
                    payload = ('items', [z]) if pos == 'arr' else ('val', z)
                    res = h.run(proto, pos, payload)
                    got = classify(res)
                    if got is None:
                        continue
                    check.count(('int', cn, tuple(sorted((k, str(v)) for k, v in kw.items())), z, proto, pos))
                    ok = (got == 'accept') == want and not got.startswith('other')
                    if ok and got == 'accept':
                        delivered = res[1][0] if pos == 'arr' else res[1]
                        ok = delivered == z
                    if not ok:
                        facet = violated_facet(cn, kw, z)
                        check.fail('C05|int|%s|%s|%s|%s' % (cn if not kw else cn + '+' + '+'.join(sorted(kw)), facet, proto, pos),
                                   '%s%r value %d over %s at %s: expected %s, got %r' % (cn, kw, z, proto, pos,
                                                                                      'accept' if want else 'reject', res),
                                   {'class': cn, 'attrs': kw, 'value': z, 'protocol': proto, 'position': pos})
        # None: explicit null is accepted iff nillable; absent iff min_occurs == 0
        for proto in PROTOS:
            for pos in ('top', 'nested'):
                for form, want in ((('null',), nill), (('absent',), mino == 0)):
                    if proto == 'http' and pos == 'nested':
                        continue   # the flat form cannot say "x present, x.v absent": x itself would be absent
                    res = h.run(proto, pos, form)
                    got = classify(res)
                    if got is None:
                        continue
                    check.count(('none', cn, str(kw), proto, pos, form))
                    if (got == 'accept') != want or got.startswith('other') or (got == 'accept' and res[1] is not None):
                        check.fail('C05|none|%s|%s|%s|nillable=%s,min_occurs=%s' % (form[0], proto, pos, nill, mino),
                                   '%s%r %s over %s at %s: expected %s, got %r' % (cn, kw, form[0], proto, pos,
                                                                                'accept' if want else 'reject', res),
                                   {'class': cn, 'attrs': kw, 'form': form[0], 'protocol': proto, 'position': pos})
    check.sample({'family': 'int-e2e', 'protocols': PROTOS, 'positions': positions,
                  'example': ['Integer8', {'ge': -5, 'le': 5}, [-129, -128, -6, -5, 5, 6, 127, 128]]})


def violated_facet(cn, kw, z):
    lo, hi = hw_bounds(cn)
    if (lo is not None and z < lo) or (hi is not None and z > hi):
        return 'hw-bound'
    for f in ('ge', 'gt', 'le', 'lt'):
        if f in kw and not ref_conforms_int(cn, {f: kw[f]}, z):
            return f
    if kw.get('values') and z not in kw['values']:
        return 'values'
    return 'conforming'


def family_text_e2e(check, tier):
    from spyne.model.primitive import Unicode
    rng = check.rng
    tcases = [{'min_len': 2}, {'max_len': 3}, {'min_len': 1, 'max_len': 4}, {'pattern': '[a-z]+'}, {'pattern': 'a|ab'},
              {'pattern': '\\d{3}'}, {'values': ['red', 'green']}, {'min_len': 2, 'pattern': '[ab]*'}, {'values': ['red']}]
    probes = ['', 'a', 'ab', 'abc', 'abcd', 'abcde', 'red', 'Red', 'green', 'abc1', '123', '1234', '12', 'ab\n', 'aab', 'b', 'ünï']
    for kw in tcases:
        T = Unicode.customize(**kw)
        h = Harness(T)
        for s in probes:
            want = ref_conforms_text(kw, s)
            for proto in PROTOS:
                for pos in ('top', 'nested', 'arr', 'att'):
                    payload = ('items', [s]) if pos == 'arr' else ('val', s)
                    res = h.run(proto, pos, payload)
                    got = classify(res)
                    if got is None:
                        continue
                    check.count(('text', str(kw), s, proto, pos))
                    ok = (got == 'accept') == want and not got.startswith('other')
                    if ok and got == 'accept':
                        delivered = res[1][0] if pos == 'arr' else res[1]
                        ok = delivered == s
                    if not ok:
                        check.fail('C05|text|%s|%s|%s' % ('+'.join(sorted(kw)), proto, pos),
                                   'Unicode%r value %r over %s at %s: expected %s, got %r' % (
                                       kw, s, proto, pos, 'accept' if want else 'reject', res),
                                   {'attrs': kw, 'value': s, 'protocol': proto, 'position': pos})
    check.sample({'family': 'text-e2e', 'types': tcases[:3], 'probes': probes[:6]})


def family_occurs(check, tier):
    """occurrence counts 0..bound against (min_occurs, max_occurs), all protocols, top-level and nested;
    also the correspondence of xml_freq / dict_freq with the implementation"""
    from spyne.model.primitive import Integer
    bounds = [(0, 1), (0, 2), (1, 2), (2, 3), (0, 'unbounded'), (1, 'unbounded'), (2, 2)]
    hi = 5 if check.tier == 'quick' else 9
    imports = 'From SpyneV Require Import Base.Prelude Base.Ext C05.Valid.'
    xc, dc = [], []
    for mn, mx in bounds:
        h = Harness(Integer, multi=(mn, mx))
        for n in range(0, hi):
            want = n >= mn and (mx == 'unbounded' or n <= mx)
            for proto in PROTOS:
                for pos in ('multi', 'nmulti'):
                    if mx == 1:
                        continue
                    if proto == 'http' and pos == 'nmulti' and n == 0:
                        continue   # no pairs at all: the enclosing object itself is absent in the flat form
                    res = h.run(proto, pos, ('items', list(range(n))))
                    got = classify(res)
                    if got is None:
                        continue
                    check.count(('occ', mn, mx, n, proto, pos))
                    ok = (got == 'accept') == want and not got.startswith('other')
                    if ok and got == 'accept':
                        ok = (res[1] or []) == list(range(n))
                    if not ok:
                        check.fail('C05|occurs|%s|%s|%s' % (proto, pos, 'over-max' if (mx != 'unbounded' and n > mx) else
                                                            'under-min' if n < mn else 'conforming'),
                                   'min_occurs=%s max_occurs=%s with %d items over %s at %s: expected %s, got %r' % (
                                       mn, mx, n, proto, pos, 'accept' if want else 'reject', res),
                                   {'min_occurs': mn, 'max_occurs': mx, 'items': n, 'protocol': proto, 'position': pos})
                    if pos == 'multi' and proto in ('xml', 'json') and not got.startswith('other'):
                        decl = '[([120], %s, %s)]' % (gz(mn), 'PosInf' if mx == 'unbounded' else '(Fin %s)' % gz(mx))
                        if proto == 'xml':
                            xc.append(('(%s, %s, %s)' % (decl, glist(['[120]'] * n), gbool(got == 'accept')),
                                       'xml %s..%s n=%d -> %s' % (mn, mx, n, got)))
                        else:
                            dc.append(('(%s, [([120], %s)], %s)' % (decl, gz(n), gbool(got == 'accept')),
                                       'json %s..%s n=%d -> %s' % (mn, mx, n, got)))
    lib.correspond(check, 'xml_freq', imports, 'list occ_decl * list text * bool',
                   "(fun c => match c with (d, ch, r) => Bool.eqb (xml_freq d ch) r end)", xc)
    lib.correspond(check, 'dict_freq', imports, 'list occ_decl * list (text * Z) * bool',
                   "(fun c => match c with (d, it, r) => Bool.eqb (dict_freq d it) r end)", dc)
    check.sample({'family': 'occurrence', 'bounds': bounds, 'counts': [0, hi - 1]})


def family_occurs_single(check, tier):
    """a member that is not repeatable (max_occurs=1, optional or mandatory) sent 0..3 times: only the
    element-per-item protocols (XML, SOAP) and the flat key/value notation (HttpRpc) can express it; every
    one of them must reach the same verdict, min_occurs <= n <= 1"""
    from spyne.model.primitive import Integer
    for mn in (0, 1):
        h = Harness(Integer.customize(min_occurs=mn, max_occurs=1))
        for n in range(0, 4):
            want = mn <= n <= 1
            for proto in ('xml', 'soap11', 'http'):
                for pos in ('top', 'nested'):
                    if proto == 'http' and pos == 'nested' and n == 0:
                        continue   # no pairs at all: the enclosing object itself is absent in the flat form
                    res = h.run(proto, pos, ('dup', list(range(1, n + 1))))
                    got = classify(res)
                    if got is None:
                        continue
                    check.count(('occ1', mn, n, proto, pos))
                    ok = (got == 'accept') == want and not got.startswith('other')
                    if ok and got == 'accept':
                        ok = res[1] == (1 if n else None)
                    if not ok:
                        check.fail('C05|occurs-single|%s|%s|%s' % (proto, pos, 'over-max' if n > 1 else
                                                                   'under-min' if n < mn else 'conforming'),
                                   'min_occurs=%s max_occurs=1 member sent %d times over %s at %s: expected %s, got %r' % (
                                       mn, n, proto, pos, 'accept' if want else 'reject', res),
                                   {'min_occurs': mn, 'max_occurs': 1, 'times': n, 'protocol': proto, 'position': pos})
    check.sample({'family': 'occurrence of non-repeatable members', 'times': [0, 3], 'protocols': ['xml', 'soap11', 'http']})


def family_datetime_range(check, tier):
    """range facets of DateTime are facets of the INSTANT: a literal with a UTC offset is compared with the
    bound as a point in time, whatever its wall-clock fields say; identically over every protocol"""
    import datetime as dtm
    from spyne.model.primitive import DateTime
    rng = check.rng
    utc = dtm.timezone.utc
    bound = dtm.datetime(2020, 1, 1, 0, 0, 0, tzinfo=utc)
    facets = [('ge', lambda v: v >= bound), ('gt', lambda v: v > bound), ('le', lambda v: v <= bound), ('lt', lambda v: v < bound)]
    offs = [0, 60, -60, 120, -120, 330, -210, 840, -840, 1]
    if tier != 'quick':
        offs += [rng.randint(-840, 840) for _ in range(12)]
    for fname, pred in facets:
        h = Harness(DateTime.customize(**{fname: bound}))
        for off in offs:
            tz = dtm.timezone(dtm.timedelta(minutes=off))
            for delta in (-7200, -3600, -1, 0, 1, 3600, 7200):
                inst = bound + dtm.timedelta(seconds=delta)
                lit = inst.astimezone(tz).isoformat()
                if off == 0:
                    lit = lit.replace('+00:00', 'Z')
                want = pred(inst)
                for proto in ('xml', 'soap11', 'json', 'yaml', 'msgpack', 'http'):
                    for pos in ('top', 'nested'):
                        res = h.run(proto, pos, ('val', lit))
                        got = classify(res)
                        if got is None:
                            continue
                        check.count(('dtrange', fname, off, delta, proto, pos))
                        ok = (got == 'accept') == want and not got.startswith('other')
                        if ok and got == 'accept':
                            v = res[1]
                            ok = isinstance(v, dtm.datetime) and v.tzinfo is not None and v == inst
                        if not ok:
                            check.fail('C05|datetime-range|%s|%s|%s' % (fname, proto, 'offset' if off else 'utc'),
                                       'DateTime(%s=2020-01-01T00:00:00Z) literal %s (instant %+d s from the bound) over %s at %s: '
                                       'expected %s, got %r' % (fname, lit, delta, proto, pos, 'accept' if want else 'reject', res),
                                       {'facet': fname, 'literal': lit, 'protocol': proto, 'position': pos})
    check.sample({'family': 'DateTime range facets', 'bound': bound.isoformat(), 'offsets_min': offs[:6]})


def family_leaf_corr(check, tier):
    """text_leaf / num_leaf (Coq, over the generated validation functions) against the real
    XmlDocument.from_element and JsonDocument._from_dict_value for customised types"""
    import spyne.model.primitive.number as P
    from spyne.protocol.xml import XmlDocument
    from spyne.protocol.json import JsonDocument
    from lxml import etree
    rng = check.rng
    xml = XmlDocument(validator='soft')
    js = JsonDocument(validator='soft')
    imports = ('From SpyneV Require Import Base.Prelude Base.Digits Base.Ext C08.IntModel C05.Valid Gen.NumTypes.\n'
               'Definition ozeqb (a b : option Z) := match a, b with Some x, Some y => Z.eqb x y | None, None => true | _, _ => false end.\n'
               'Definition oout_eqb := out_eqb ozeqb.')
    tc, nc = [], []
    for cn, kw in int_type_cases(check, tier):
        if cn not in INT_CLASSES or INT_CLASSES[cn] is None and cn != 'Integer':
            continue
        if cn in ('Integer', 'UnsignedInteger'):
            gT = 'class_%s' % cn
        else:
            gT = g_int_type(cn)
        T = getattr(P, cn)
        if kw:
            T = T.customize(**{k: v for k, v in kw.items()})
        ga = g_num_attrs(T)
        texts = [str(v) for v in int_probe_values(cn, kw, rng, 3)] + ['', 'abc', '+5', ' 5', '007', '1_0', '5.0', '٣']
        texts = [t for t in texts if all(ord(c) < 128 for c in t)]
        for s in texts + [None]:
            el = etree.Element('x')
            el.text = s if s != '' else None
            src = None if (s is None or s == '') else s
            o = observe(xml.from_element, None, T, el)
            g = gout(o, lambda v: gopt(v, gz))
            tc.append(('(%s, %s, %s, %s)' % (gT, ga, gopt(src, gtext), g), 'xml %s%r text=%r -> %r' % (cn, kw, s, o)))
            check.count(('tleaf', cn, str(kw), s))
        for z in int_probe_values(cn, kw, rng, 3) + [None]:
            o = observe(js._from_dict_value, None, 'k', T, z, js.validator)
            if o[0] == 'ok' and o[1] is not None and not isinstance(o[1], int):
                continue
            g = gout(o, lambda v: gopt(v, gz))
            nc.append(('(%s, %s, %s, %s)' % (gT, ga, gopt(z, gz), g), 'json %s%r value=%r -> %r' % (cn, kw, z, o)))
            check.count(('nleaf', cn, str(kw), z))
    lib.correspond(check, 'text_leaf', imports, 'int_type * num_attrs * option text * out (option Z)',
                   '(fun c => match c with (T, a, s, r) => oout_eqb (text_leaf T a s) r end)', tc,
                   show='(fun c : int_type * num_attrs * option text * out (option Z) => match c with (T, a, s, r) => text_leaf T a s end)')
    lib.correspond(check, 'num_leaf', imports, 'int_type * num_attrs * option Z * out (option Z)',
                   '(fun c => match c with (T, a, s, r) => oout_eqb (num_leaf T a s) r end)', nc,
                   show='(fun c : int_type * num_attrs * option Z * out (option Z) => match c with (T, a, s, r) => num_leaf T a s end)')


LEX = {
    'DateTime': ('dateTime', ['2020-01-01T00:00:00', '2020-01-01T00:00:00Z', '2020-01-01T00:00:00+02:00', '2020-01-01T00:00:00.5Z',
                              '2020-01-01T00:00:00-04:49', '2020-01-01T00:00:00Zjunk', '2020-01-01T00:00:00+02:00x',
                              '2020-01-01T00:00:00 ', '2020-01-01T00:00:00+0200', '2020-01-01', 'abc', '2020-01-01T00:00',
                              '2020-1-01T00:00:00', '20-01-01T00:00:00Z', '2020-13-01T00:00:00Z', '2020-02-30T00:00:00',
                              '2020-01-01T25:00:00Z', '2020-01-01T00:00:00+24:00', '0000-01-01T00:00:00Z']),
    'Date': ('date', ['2020-01-05', '2020-01-05Z', '2020-01-05+02:00', '2020-01-05junk', '2020-01-05Zjunk', '2020-1-5',
                      '2020-01-5', 'abc', '2020-01', '05-01-2020', '2020-02-30', '2020-02-30Z', '2020-13-01+02:00']),
    'Time': ('time', ['12:00:00', '12:00:00.5', '23:59:59.999999', '12:00:00junk', '12:00', 'abc', '1:00:00', '12:00:00.',
                      '25:00:00', '12:61:00', '12:00:61']),
    'Duration': ('duration', ['P1D', 'PT1S', 'PT0.5S', '-P1DT2H', 'P1Djunk', 'PT1x5S', 'PT', 'P', 'xyz', 'P1S', 'PT1D', '1D', 'P1DT']),
    'Boolean': ('boolean', ['true', 'false', '1', '0', 'maybe', 'yes', '2', 'TRUE', 'tru', 'truex']),
    'Integer': ('integer', ['5', '-5', '+5', '007', '5x', '5.0', '1e3', '0x10', 'abc', '1_0', '--5']),
    'Decimal': ('decimal', ['1.5', '-1.5', '+1.5', '1.', '.5', '007.50', '1E+1', '1e3', 'NaN', 'sNaN', 'Infinity', '-Infinity',
                            'abc', '1_0', '1,5', '1.5x', '--1']),
    'Double': ('double', ['1.5', '-1.5', '1e3', '1E+3', '1.5E-3', 'NaN', 'INF', '-INF', 'inf', 'nan', 'Infinity', '-inf',
                          'abc', '1_0', '0x10', '1.5x', '.5', '5.']),
}

def lex_shape(tn, lit):
    """what kind of ill-formedness: used in finding keys"""
    import re as _re
    if tn == 'Boolean':
        return 'unknown-literal-read-as-false' if lit.lower() not in ('true', '1') else 'case-insensitive-true'
    pre = {'DateTime': r'\d{4}-\d{2}-\d{2}[T ]\d{2}:\d{2}:\d{2}(\.\d+)?(Z|[+-]\d{2}:\d{2})?',
           'Date': r'\d{4}-\d{2}-\d{2}(Z|[+-]\d{2}:\d{2})?', 'Time': r'\d{2}:\d{2}:\d{2}(\.\d+)?',
           'Duration': r'-?P(\d+Y)?(\d+M)?(\d+D)?(T(\d+H)?(\d+M)?(\d+(\.\d+)?S)?)?'}.get(tn)
    if pre:
        m = _re.match(pre, lit)
        if m and m.end() < len(lit) and m.end() > 0:
            return 'trailing-junk-after-valid-prefix'
        if tn == 'Date' and _re.fullmatch(r'\d{4}-\d{1,2}-\d{1,2}', lit):
            return 'one-digit-month-or-day'
        if tn == 'Duration' and m and m.end() == len(lit):
            return 'degenerate-duration-without-components'
        if tn in ('DateTime', 'Date', 'Time') and m and m.end() == len(lit):
            return 'field-out-of-range'        # month 13, 30 February, hour 25, offset +24:00 ...
    if tn in ('Integer', 'Decimal', 'Double') and _re.fullmatch(r'[+-]?\d+(_\d+)+', lit):
        return 'underscore-digit-separator'
    if tn == 'Decimal' and _re.fullmatch(r'[+-]?(\d+\.?\d*|\.\d+)[eE][+-]?\d+', lit):
        return 'exponent-notation'
    if tn == 'Double' and lit.lower().lstrip('+-') in ('inf', 'infinity', 'nan') and lit not in ('INF', '-INF', 'NaN'):
        return 'python-spelling-of-special-value'
    return 'literal:' + lit

def family_lexical(check, tier):
    """lexical well-formedness: a literal is accepted iff it is in the XSD lexical space of the type
    (lxml's XMLSchema is the independent judge), over the text protocols"""
    import spyne.model.primitive as P
    from c08 import xsd_ok
    for tn, (xs, lits) in LEX.items():
        T = getattr(P, tn)
        h = Harness(T)
        for lit in lits:
            want = xsd_ok(xs, lit)
            for proto in ('xml', 'soap11', 'http'):
                for pos in ('top', 'nested'):
                    res = h.run(proto, pos, ('val', lit))
                    got = classify(res)
                    if got is None:
                        continue
                    check.count(('lex', tn, lit, proto, pos))
                    if got.startswith('other') or (got == 'accept') != want:
                        check.fail('C05|lexical|%s|%s' % (tn, lex_shape(tn, lit)),
                                   '%s literal %r (%s per XSD) over %s at %s: got %r' % (
                                       tn, lit, 'valid' if want else 'invalid', proto, pos, res),
                                   {'type': tn, 'literal': lit, 'protocol': proto, 'position': pos})
    # xsi:nil="false"/"0" does not null an element
    import spyne.model.primitive.number as N
    h = Harness(N.Integer)
    from lxml import etree
    for nilv in ('false', '0'):
        for pos in ('top', 'nested'):
            body = h.xml_body(pos, ('val', 5), False)
            root = etree.fromstring(body)
            leafs = [e for e in root.iter() if e.text == '5']
            leafs[0].set('{%s}nil' % XSI, nilv)
            from spyne.server import ServerBase
            from spyne.context import MethodContext
            del h.calls[:]
            srv = ServerBase(h.app('xml'))
            ctx = MethodContext(srv, MethodContext.SERVER)
            ctx.in_string = [etree.tostring(root)]
            ctx, = srv.generate_contexts(ctx)
            srv.get_in_object(ctx)
            if not ctx.in_error:
                srv.get_out_object(ctx)
            check.count(('nilfalse', nilv, pos))
            if not h.calls or h.calls[0][1] != 5:
                check.fail('C05|xsi-nil-false|xml|%s' % pos, 'element with xsi:nil=%r and content 5 delivered as %r' % (
                    nilv, h.calls[0][1] if h.calls else ctx.in_error), {'nil': nilv, 'position': pos})
    check.sample({'family': 'lexical', 'DateTime': LEX['DateTime'][1][4:8]})


# ------------------------------------------------------------------ correspondences of the facet models
FACET_IMPORTS = ('From SpyneV Require Import Base.Prelude Base.Ext C08.DtModel C05.Facets Gen.FacetTypes C05.FacetModel.\n'
                 'Definition tout_eqb := out_eqb otext_eqb.\n'
                 'Definition run_text (p : Z) (a : str_attrs) (nl : bool) (v : option text) (pr : bool) : out (option text) :=\n'
                 '  let fullm := fun _ : text => pr in\n'
                 '  if p =? 0 then xml_elem_text class_Unicode fullm a nl v\n'
                 '  else if p =? 2 then hier_text class_Unicode fullm a v\n'
                 '  else match v with Some s => if p =? 1 then xml_attr_text class_Unicode fullm a s else flat_text class_Unicode fullm a s\n'
                 '                  | None => Crash OtherExn end.\n'
                 'Definition dtl_eqb := out_eqb (oeqb datetime_eqb).\nDefinition dl_eqb := out_eqb (oeqb date_eqb).\n'
                 'Definition tl_eqb := out_eqb (oeqb tod_eqb).')

def g_str_attrs(T):
    A = T.Attributes
    inf = _dec.Decimal('inf')
    return ('{| sa_nillable := %s; sa_min_len := %s; sa_max_len := %s; sa_has_pattern := %s; sa_values := %s |}' % (
        gbool(A.nillable), gz(A.min_len), 'PosInf' if A.max_len == inf else '(Fin %s)' % gz(A.max_len),
        gbool(A.pattern is not None), glist([gtext(v) for v in sorted(A.values)])))

def unicode_type_cases(check, tier):
    from spyne.model.primitive import Unicode
    rng = check.rng
    kws = [{}, {'min_len': 2}, {'max_len': 3}, {'min_len': 1, 'max_len': 4}, {'pattern': '[a-z]+'}, {'pattern': 'a|ab'},
           {'pattern': '\\d{2,3}'}, {'values': ['red', 'green']}, {'min_len': 2, 'pattern': '[ab]*'}, {'nillable': False},
           {'min_len': 3, 'max_len': 2}, {'values': ['a', ''], 'min_len': 1}, {'pattern': '.*', 'max_len': 2, 'nillable': False},
           {'min_len': 0, 'max_len': 0}]
    pats = ['[a-z]+', 'a|ab', '(ab)*', '.', '.*', '[^a]*', 'a?b?', '\\w+', '\\s*', 'ab', '']
    for _ in range(6 if tier == 'quick' else 60):
        kw = {}
        if rng.random() < .5:
            kw['min_len'] = rng.randint(0, 3)
        if rng.random() < .5:
            kw['max_len'] = rng.randint(0, 5)
        if rng.random() < .4:
            kw['pattern'] = rng.choice(pats)
        if rng.random() < .25:
            kw['values'] = rng.sample(['a', 'ab', 'abc', '', 'red', 'B', '12'], rng.randint(1, 3))
        if rng.random() < .3:
            kw['nillable'] = False
        kws.append(kw)
    return [(kw, Unicode.customize(**kw)) for kw in kws]

def unicode_probe_strings(kw, rng, n):
    base = ['', 'a', 'ab', 'abc', 'abcd', 'abcde', 'abcdef', 'red', 'Red', 'B', '12', '123', '1234', 'ab\n', 'aab', 'b', ' ',
            'ünï', '\U0001F600', 'a\U0001F600', 'é', 'ab ', ' ab']
    for v in kw.get('values', []):
        base += [v, v + 'x', v[:-1]]
    for _ in range(n):
        base.append(''.join(rng.choice('abAB12 \né\U0001F600') for _ in range(rng.randint(0, 6))))
    return base

def family_text_corr(check, tier):
    """the four Unicode enforcement paths of coq/C05/FacetModel.v against XmlDocument.from_element (element and
    attribute), JsonDocument._from_dict_value and HttpRpc's SimpleDictDocument.simple_dict_to_object; the regular
    expression engine's answer travels in the case (it is the oracle [fullm] of the model)"""
    from spyne import ComplexModel, XmlAttribute
    from spyne.model.complex import ComplexModelMeta
    from spyne.protocol.xml import XmlDocument
    from spyne.protocol.json import JsonDocument
    from spyne.protocol.http import HttpRpc
    from lxml import etree
    rng = check.rng
    from spyne.protocol.yaml import YamlDocument
    from spyne.protocol.msgpack import MessagePackDocument
    xml = XmlDocument(validator='soft')
    hiers = [('json', JsonDocument(validator='soft')), ('yaml', YamlDocument(validator='soft')),
             ('msgpack', MessagePackDocument(validator='soft'))]
    http = HttpRpc(validator='soft')
    cases = []
    def add(path, T, nil, v, o, what):
        subject = (v or '') if path == 0 else v       # an element without text holds the empty string
        pr = bool(T.Attributes.pattern is not None and subject is not None and T.Attributes._pattern_re.fullmatch(subject) is not None)
        if o[0] == 'ok' and o[1] is not None and not isinstance(o[1], str):
            return
        cases.append(('(%d, %s, %s, %s, %s, %s)' % (path, g_str_attrs(T), gbool(nil), gopt(v, gtext), gbool(pr),
                                                   gout(o, lambda x: gopt(x, gtext))), what))
        check.count(('tcorr', path, what))
    for kw, T in unicode_type_cases(check, tier):
        W = ComplexModelMeta('W', (ComplexModel,), {'__namespace__': TNS, '_type_info': [('v', T)]})
        WA = ComplexModelMeta('WA', (ComplexModel,), {'__namespace__': TNS, '_type_info': [('v', XmlAttribute(T))]})
        for s in unicode_probe_strings(kw, rng, 3 if tier == 'quick' else 12) + [None]:
            # XML element: None = an element without text; also with xsi:nil
            el = etree.Element('x')
            el.text = s if s else None
            add(0, T, False, s if s else None, observe(xml.from_element, None, T, el), 'xml elem %r %r' % (kw, s))
            if s is None or rng.random() < .15:
                el = etree.Element('x')
                el.text = s if s else None
                el.set('{%s}nil' % XSI, rng.choice(['true', '1']))
                add(0, T, True, s if s else None, observe(xml.from_element, None, T, el), 'xml nil %r %r' % (kw, s))
            hn, hp = rng.choice(hiers)      # the three hierarchical protocols share _from_dict_value
            add(2, T, False, s, observe(hp._from_dict_value, None, 'k', T, s, hp.validator), '%s %r %r' % (hn, kw, s))
            if s is not None:
                el = etree.Element('x')
                try:
                    el.set('v', s)
                except ValueError:
                    el = None
                if el is not None:
                    o = observe(xml.from_element, None, WA, el)
                    add(1, T, False, s, ('ok', o[1].v) if o[0] == 'ok' else o, 'xml attr %r %r' % (kw, s))
                o = observe(http.simple_dict_to_object, None, {'v': [s]}, W, http.validator)
                add(3, T, False, s, ('ok', o[1].v) if o[0] == 'ok' else o, 'flat %r %r' % (kw, s))
    lib.correspond(check, 'unicode_paths', FACET_IMPORTS, 'Z * str_attrs * bool * option text * bool * out (option text)',
                   '(fun c => match c with (p, a, nl, v, pr, r) => tout_eqb (run_text p a nl v pr) r end)', cases,
                   show='(fun c : Z * str_attrs * bool * option text * bool * out (option text) => '
                        'match c with (p, a, nl, v, pr, r) => run_text p a nl v pr end)')
    check.sample({'family': 'Unicode path correspondence', 'paths': ['xml element', 'xml attribute', 'json', 'http flat'],
                  'cases': len(cases)})


def g_rng_attrs(T, g):
    A = T.Attributes
    return ('{| ra_nillable := %s; ra_gt := %s; ra_ge := %s; ra_lt := %s; ra_le := %s; ra_values := %s |}' % (
        gbool(A.nillable), gopt(A.gt, g), g(A.ge), gopt(A.lt, g), g(A.le), glist([g(v) for v in sorted(A.values)])))

def family_range_corr(check, tier):
    """datetime_/date_/time_ xml_leaf and doc_leaf (Coq, generated validate_native + the C08 readers) against
    XmlDocument.from_element and JsonDocument._from_dict_value for customised DateTime / Date / Time types"""
    import datetime as D
    from spyne.model.primitive import DateTime, Date, Time
    from spyne.protocol.xml import XmlDocument
    from spyne.protocol.json import JsonDocument
    from lxml import etree
    from c08 import g_dt, g_date, g_tod, dt_literals
    rng = check.rng
    from spyne.protocol.yaml import YamlDocument
    from spyne.protocol.msgpack import MessagePackDocument
    xml = XmlDocument(validator='soft')
    hiers = [('json', JsonDocument(validator='soft')), ('yaml', YamlDocument(validator='soft')),
             ('msgpack', MessagePackDocument(validator='soft'))]
    def tz(o):
        return D.timezone(D.timedelta(minutes=o))
    def rdt(near=None):
        if near is not None and rng.random() < .7:
            base = near + D.timedelta(seconds=rng.choice([-7200, -3600, -61, -1, 0, 1, 59, 3600, 7200]), microseconds=rng.choice([0, 0, 1, -1]))
        else:
            base = D.datetime(rng.randint(1990, 2030), rng.randint(1, 12), rng.randint(1, 28), rng.randint(0, 23), rng.randint(0, 59),
                              rng.randint(0, 59), rng.choice([0, 0, 1, 999999, 500000]), tzinfo=D.timezone.utc)
        return base.astimezone(tz(rng.choice([0, 0, 60, -60, 330, -210, 840, -840, rng.randint(-840, 840)])))
    n_types = 14 if tier == 'quick' else 60
    n_vals = 12 if tier == 'quick' else 30
    malformed = dt_literals(check, 'quick')[:70]
    for kind in ('DateTime', 'Date', 'Time'):
        cases = {'xml': [], 'doc': []}
        for i in range(n_types):
            kw = {}
            if kind == 'DateTime':
                b1, b2 = sorted([rdt(), rdt()])
                g, near = g_dt, b1
            elif kind == 'Date':
                b1, b2 = sorted([rdt().date(), rdt().date()])
                g = g_date
            else:
                b1, b2 = sorted([rdt().time(), rdt().time()])
                g = g_tod
            if i == 0:
                pass                      # the default attributes
            else:
                if rng.random() < .7:
                    kw[rng.choice(['ge', 'gt'])] = b1
                if rng.random() < .7:
                    kw[rng.choice(['le', 'lt'])] = b2
                if rng.random() < .15:
                    kw['values'] = [b1, b2]
                if rng.random() < .3:
                    kw['nillable'] = False
            T = {'DateTime': DateTime, 'Date': Date, 'Time': Time}[kind].customize(**kw)
            ga = g_rng_attrs(T, g)
            lits = []
            for _ in range(n_vals):
                if kind == 'DateTime':
                    v = rdt(rng.choice([b1, b2]))
                    if rng.random() < .2:
                        v = v.replace(tzinfo=None)
                    lit = v.isoformat()
                    if lit.endswith('+00:00') and rng.random() < .5:
                        lit = lit[:-6] + 'Z'
                elif kind == 'Date':
                    v = rng.choice([b1, b2]) + D.timedelta(days=rng.choice([-366, -1, 0, 0, 1, 30, 365]))
                    lit = v.isoformat() + rng.choice(['', '', 'Z', '+02:00'])
                else:
                    b = rng.choice([b1, b2])
                    us = (b.hour * 3600 + b.minute * 60 + b.second) * 1000000 + b.microsecond + rng.choice([-3600000000, -1, 0, 0, 1, 1000000])
                    us = min(max(us, 0), 86399999999)
                    v = D.time(us // 3600000000, us // 60000000 % 60, us // 1000000 % 60, us % 1000000)
                    lit = v.isoformat()
                lits.append(lit)
            lits += rng.sample(malformed, 4)
            if kind == 'Date':
                lits += ['2020-02-30', '2020-1-5', '2020-01-05junk', 'abc', '']
            if kind == 'Time':
                lits += ['25:00:00', '12:00', '12:00:00junk', '']
            for lit in lits + [None]:
                el = etree.Element('x')
                el.text = lit if lit else None
                nil = lit is None and rng.random() < .5
                if nil:
                    el.set('{%s}nil' % XSI, 'true')
                hn, hp = rng.choice(hiers)
                for path, o in (('xml', observe(xml.from_element, None, T, el)),
                                ('doc', observe(hp._from_dict_value, None, 'k', T, lit, hp.validator))):
                    if path == 'xml' and lit == '':
                        src = None
                    else:
                        src = lit
                    if path == 'doc' and nil:
                        continue
                    try:
                        go = gout(o, lambda x: gopt(x, g))
                    except ValueError:
                        continue            # an offset with seconds: outside the C08 value model
                    if o[0] == 'ok' and o[1] is not None and type(o[1]) is not {'DateTime': D.datetime, 'Date': D.date, 'Time': D.time}[kind]:
                        continue
                    if path == 'xml':
                        cases['xml'].append(('(%s, %s, %s, %s)' % (ga, gbool(nil), gopt(src, gtext), go), '%s%r xml nil=%s %r -> %r' % (kind, kw, nil, lit, o)))
                    else:
                        cases['doc'].append(('(%s, %s, %s)' % (ga, gopt(src, gtext), go), '%s%r %s %r -> %r' % (kind, kw, hn, lit, o)))
                    check.count(('rcorr', kind, path, str(kw), lit))
        low = {'DateTime': 'datetime', 'Date': 'date', 'Time': 'time'}[kind]
        vt = {'DateTime': 'datetime', 'Date': 'date', 'Time': 'tod'}[kind]
        eqb = {'DateTime': 'dtl_eqb', 'Date': 'dl_eqb', 'Time': 'tl_eqb'}[kind]
        lib.correspond(check, low + '_xml_leaf', FACET_IMPORTS, 'rng_attrs %s * bool * option text * out (option %s)' % (vt, vt),
                       '(fun c => match c with (a, nl, s, r) => %s (%s_xml_leaf a nl s) r end)' % (eqb, low), cases['xml'],
                       show='(fun c : rng_attrs %s * bool * option text * out (option %s) => match c with (a, nl, s, r) => %s_xml_leaf a nl s end)' % (vt, vt, low))
        lib.correspond(check, low + '_doc_leaf', FACET_IMPORTS, 'rng_attrs %s * option text * out (option %s)' % (vt, vt),
                       '(fun c => match c with (a, s, r) => %s (%s_doc_leaf a s) r end)' % (eqb, low), cases['doc'],
                       show='(fun c : rng_attrs %s * option text * out (option %s) => match c with (a, s, r) => %s_doc_leaf a s end)' % (vt, vt, low))
    check.sample({'family': 'date/time range path correspondence', 'types': n_types * 3, 'values_per_type': n_vals})


# ------------------------------------------------------------------ wire forms of every primitive kind
import datetime as _dt
import decimal as _dec
NOCHECK = object()

def same_native(a, b):
    if b is NOCHECK:
        return True
    if isinstance(b, float) and b != b:
        return isinstance(a, float) and a != a
    if isinstance(b, _dt.datetime):
        return isinstance(a, _dt.datetime) and (a.tzinfo is None) == (b.tzinfo is None) and a == b
    try:
        return a == b
    except Exception:
        return False

def expect(check, h, fam, tdesc, texpr, shape, proto, pos, payload, want, native=NOCHECK, strict=True, extra=None,
           allowed=None):
    """one request against the oracle.  strict: the canonical wire form of a logical request - accepted iff it
    conforms.  lenient (an alternative document form, e.g. a MessagePack bin string or a JSON number where
    Spyne itself writes text): it may be read as the value or refused, but never crash, never be accepted when
    the value does not conform, never arrive as another value"""
    res = h.run(proto, pos, payload)
    got = classify(res)
    if got is None:
        return None
    check.count((fam, tdesc, shape, proto, pos, repr(payload)))
    if got.startswith('other'):
        ok = False
    elif strict:
        ok = (got == 'accept') == want
    else:
        ok = got != 'accept' or want
    if ok and got == 'accept' and native is not NOCHECK:
        delivered = res[1]
        if pos in ('arr', 'narr', 'multi', 'nmulti') and payload[0] == 'items' and len(payload[1]) == 1 and not isinstance(native, list):
            delivered = delivered[0] if isinstance(delivered, list) and len(delivered) == 1 else NOCHECK
        ok = same_native(delivered, native)
    if ok and got == 'accept' and allowed is not None:
        delivered = res[1]
        if pos in ('arr', 'narr', 'multi', 'nmulti') and isinstance(delivered, list) and len(delivered) == 1:
            delivered = delivered[0]
        ok = any((delivered is a) or (a is not None and delivered is not None and type(delivered) is type(a) and same_native(delivered, a))
                 for a in allowed)
    if not ok:
        rp = {'family': fam, 'type_expr': texpr, 'protocol': proto, 'position': pos, 'payload': repr(payload)}
        rp.update(extra or {})
        check.fail('C05|%s|%s|%s|%s|%s' % (fam, tdesc, shape, proto, pos),
                   '%s, %s, over %s at %s, request %r: expected %s, got %r' % (
                       texpr, shape, proto, pos, payload,
                       ('accept' if want else 'reject') if strict else ('accept or reject' if want else 'reject'), res), rp)
    return got

def d_(y, m, d, H=0, M=0, S=0, off=0):
    return _dt.datetime(y, m, d, H, M, S, tzinfo=_dt.timezone(_dt.timedelta(minutes=off)) if off is not None else None)

def forms_table():
    D = _dec.Decimal
    nan, inf = float('nan'), float('inf')
    U1 = '12345678-1234-1234-1234-123456789abc'
    import uuid
    T = []
    def add(texpr, tdesc, cases):
        T.append((texpr, tdesc, cases))
    # (shape, value, native, conforms, strict)
    add('Unicode(min_len=2, max_len=3)', 'Unicode+max_len+min_len', [
        ('empty-string', Wv('', ''), '', False, True),
        ('bin-too-short', Wv(None, b'a'), 'a', False, False),
        ('bin-too-long', Wv(None, b'abcd'), 'abcd', False, False),
        ('bin-conforming', Wv(None, b'ab'), 'ab', True, False),
        ('bin-not-utf8', Wv(None, b'\xff\xfe'), NOCHECK, False, False),
        ('number-for-text', Wv(None, 5), NOCHECK, False, False),
        ('list-for-text', Wv(None, ['ab']), NOCHECK, False, False)])
    add('Unicode', 'Unicode', [
        ('empty-string', Wv('', ''), '', True, True),
        ('bin-conforming', Wv(None, b'ab'), 'ab', True, False)])
    add('Unicode(pattern="[a-z]+")', 'Unicode+pattern', [
        ('bin-not-matching', Wv(None, b'AB'), 'AB', False, False),
        ('bin-matching', Wv(None, b'ab'), 'ab', True, False),
        ('empty-string', Wv('', ''), '', False, True)])
    add('Unicode(values=["red", "green"])', 'Unicode+values', [
        ('bin-not-listed', Wv(None, b'blue'), 'blue', False, False),
        ('bin-listed', Wv(None, b'red'), 'red', True, False)])
    for texpr, tdesc, onb in (('Decimal(ge=0, le=10)', 'Decimal+ge+le', True), ('Decimal(gt=0, lt=10)', 'Decimal+gt+lt', False)):
        add(texpr, tdesc, [
            ('in-range', Wv('1.5', '1.5'), D('1.5'), True, True),
            ('above', Wv('10.5', '10.5'), D('10.5'), False, True),
            ('below', Wv('-0.5', '-0.5'), D('-0.5'), False, True),
            ('on-upper-bound', Wv('10', '10'), D(10), onb, True),
            ('on-lower-bound', Wv('0', '0'), D(0), onb, True),
            ('nan', Wv('NaN', 'NaN'), NOCHECK, False, True),
            ('snan', Wv('sNaN', 'sNaN'), NOCHECK, False, True),
            ('infinity', Wv('Infinity', 'Infinity'), NOCHECK, False, True),
            ('number-in-range', Wv(None, 1.5), D('1.5'), True, False),
            ('number-above', Wv(None, 11), D(11), False, False),
            ('integer-number', Wv(None, 3), D(3), True, False),
            ('boolean-for-decimal', Wv(None, True), NOCHECK, False, False),
            ('list-for-decimal', Wv(None, [1]), NOCHECK, False, False),
            ('bin-in-range', Wv(None, b'1.5'), D('1.5'), True, False),
            ('bin-above', Wv(None, b'11'), D(11), False, False)])
    add('Decimal', 'Decimal', [
        ('nan', Wv('NaN', 'NaN'), NOCHECK, False, True),
        ('infinity', Wv('-Infinity', '-Infinity'), NOCHECK, False, True),
        ('plain', Wv('-12.50', '-12.50'), D('-12.50'), True, True),
        ('number-nan', Wv(None, nan), NOCHECK, False, False)])
    add('Double(ge=0.0, le=10.0)', 'Double+ge+le', [
        ('in-range', Wv('1.5', 1.5), 1.5, True, True),
        ('above', Wv('10.5', 10.5), 10.5, False, True),
        ('below', Wv('-0.5', -0.5), -0.5, False, True),
        ('on-upper-bound', Wv('10.0', 10.0), 10.0, True, True),
        ('integer-number', Wv('3', 3), 3, True, True),
        ('nan', Wv('NaN', nan), nan, False, True),
        ('inf', Wv('INF', inf), inf, False, True),
        ('neg-inf', Wv('-INF', -inf), -inf, False, True),
        ('text-for-double', Wv(None, '1.5'), 1.5, True, False),
        ('text-above', Wv(None, '10.5'), 10.5, False, False),
        ('list-for-double', Wv(None, [1.5]), NOCHECK, False, False)])
    add('Double', 'Double', [
        ('nan', Wv('NaN', nan), nan, True, True),
        ('inf', Wv('INF', inf), inf, True, True),
        ('neg-inf', Wv('-INF', -inf), -inf, True, True),
        ('huge', Wv('1e+300', 1e300), 1e300, True, True)])
    add('Double(gt=0.0)', 'Double+gt', [
        ('nan', Wv('NaN', nan), nan, False, True),
        ('inf', Wv('INF', inf), inf, True, True),
        ('neg-inf', Wv('-INF', -inf), -inf, False, True),
        ('on-lower-bound', Wv('0.0', 0.0), 0.0, False, True)])
    add('Double(le=5.0)', 'Double+le', [
        ('inf', Wv('INF', inf), inf, False, True),
        ('neg-inf', Wv('-INF', -inf), -inf, True, True),
        ('nan', Wv('NaN', nan), nan, False, True)])
    for texpr, tdesc, onb in (('Date(ge=datetime.date(2020, 1, 1), le=datetime.date(2020, 12, 31))', 'Date+ge+le', True),
                              ('Date(gt=datetime.date(2020, 1, 1), lt=datetime.date(2020, 12, 31))', 'Date+gt+lt', False)):
        add(texpr, tdesc, [
            ('in-range', Wv('2020-06-01', '2020-06-01'), _dt.date(2020, 6, 1), True, True),
            ('below', Wv('2019-12-31', '2019-12-31'), _dt.date(2019, 12, 31), False, True),
            ('above', Wv('2021-01-01', '2021-01-01'), _dt.date(2021, 1, 1), False, True),
            ('on-lower-bound', Wv('2020-01-01', '2020-01-01'), _dt.date(2020, 1, 1), onb, True),
            ('on-upper-bound', Wv('2020-12-31', '2020-12-31'), _dt.date(2020, 12, 31), onb, True),
            ('in-range-with-zone', Wv('2020-06-01Z', '2020-06-01Z'), _dt.date(2020, 6, 1), True, True),
            ('bin-in-range', Wv(None, b'2020-06-01'), _dt.date(2020, 6, 1), True, False),
            ('bin-below', Wv(None, b'2019-06-01'), _dt.date(2019, 6, 1), False, False),
            ('number-for-date', Wv(None, 20200601), NOCHECK, False, False),
            ('native-date-in-range', Wv(None, _dt.date(2020, 6, 1)), _dt.date(2020, 6, 1), True, False),
            ('native-date-below', Wv(None, _dt.date(2019, 6, 1)), _dt.date(2019, 6, 1), False, False)])
    for texpr, tdesc, onb in (('Time(ge=datetime.time(9), le=datetime.time(17))', 'Time+ge+le', True),
                              ('Time(gt=datetime.time(9), lt=datetime.time(17))', 'Time+gt+lt', False)):
        add(texpr, tdesc, [
            ('in-range', Wv('12:00:00', '12:00:00'), _dt.time(12), True, True),
            ('below', Wv('08:59:59.999999', '08:59:59.999999'), _dt.time(8, 59, 59, 999999), False, True),
            ('above', Wv('17:00:00.000001', '17:00:00.000001'), _dt.time(17, 0, 0, 1), False, True),
            ('on-lower-bound', Wv('09:00:00', '09:00:00'), _dt.time(9), onb, True),
            ('on-upper-bound', Wv('17:00:00', '17:00:00'), _dt.time(17), onb, True),
            ('bin-in-range', Wv(None, b'12:00:00'), _dt.time(12), True, False),
            ('bin-below', Wv(None, b'08:00:00'), _dt.time(8), False, False),
            ('number-for-time', Wv(None, 12), NOCHECK, False, False)])
    add('DateTime(ge=datetime.datetime(2020, 1, 1, tzinfo=utc))', 'DateTime+ge', [
        ('in-range', Wv('2021-01-01T00:00:00Z', '2021-01-01T00:00:00Z'), d_(2021, 1, 1), True, True),
        ('below', Wv('2019-12-31T23:59:59Z', '2019-12-31T23:59:59Z'), d_(2019, 12, 31, 23, 59, 59), False, True),
        ('below-by-offset', Wv('2020-01-01T01:00:00+02:00', '2020-01-01T01:00:00+02:00'), d_(2020, 1, 1, 1, off=120), False, True),
        ('in-range-by-offset', Wv('2019-12-31T23:00:00-02:00', '2019-12-31T23:00:00-02:00'), d_(2019, 12, 31, 23, off=-120), True, True),
        ('naive-in-range', Wv('2020-01-01T00:00:00', '2020-01-01T00:00:00'), d_(2020, 1, 1, off=None), True, True),
        ('naive-below', Wv('2019-12-31T23:59:59', '2019-12-31T23:59:59'), d_(2019, 12, 31, 23, 59, 59, off=None), False, True),
        ('bin-in-range', Wv(None, b'2021-01-01T00:00:00Z'), d_(2021, 1, 1), True, False),
        ('bin-below', Wv(None, b'2019-01-01T00:00:00Z'), d_(2019, 1, 1), False, False),
        ('number-for-datetime', Wv(None, 5), NOCHECK, False, False),
        ('native-timestamp-in-range', Wv(None, d_(2021, 1, 1)), d_(2021, 1, 1), True, False),
        ('native-timestamp-below', Wv(None, d_(2019, 1, 1)), d_(2019, 1, 1), False, False)])
    add('Decimal(values=[D("1.5"), D("2.5")])', 'Decimal+values', [
        ('listed', Wv('2.5', '2.5'), D('2.5'), True, True),
        ('listed-other-spelling', Wv('2.50', '2.50'), D('2.5'), True, True),
        ('not-listed', Wv('3', '3'), D(3), False, True)])
    add('Date(values=[datetime.date(2020, 1, 1)])', 'Date+values', [
        ('listed', Wv('2020-01-01', '2020-01-01'), _dt.date(2020, 1, 1), True, True),
        ('not-listed', Wv('2020-01-02', '2020-01-02'), _dt.date(2020, 1, 2), False, True)])
    add('Time(values=[datetime.time(12), datetime.time(13)])', 'Time+values', [
        ('listed', Wv('13:00:00', '13:00:00'), _dt.time(13), True, True),
        ('not-listed', Wv('12:00:01', '12:00:01'), _dt.time(12, 0, 1), False, True)])
    add('DateTime(values=[datetime.datetime(2020, 1, 1, tzinfo=utc)])', 'DateTime+values', [
        ('listed', Wv('2020-01-01T00:00:00Z', '2020-01-01T00:00:00Z'), d_(2020, 1, 1), True, True),
        ('listed-other-offset', Wv('2020-01-01T02:00:00+02:00', '2020-01-01T02:00:00+02:00'), d_(2020, 1, 1, 2, off=120), True, True),
        ('not-listed', Wv('2020-01-01T00:00:01Z', '2020-01-01T00:00:01Z'), d_(2020, 1, 1, 0, 0, 1), False, True)])
    add('Duration', 'Duration', [
        ('one-day', Wv('P1D', 'P1D'), _dt.timedelta(1), True, True),
        ('garbage', Wv('xyz', 'xyz'), NOCHECK, False, True),
        ('bin', Wv(None, b'P1D'), _dt.timedelta(1), True, False),
        ('bin-garbage', Wv(None, b'xyz'), NOCHECK, False, False),
        ('number-for-duration', Wv(None, 5), NOCHECK, False, False)])
    add('Uuid', 'Uuid', [
        ('canonical', Wv(U1, U1), uuid.UUID(U1), True, True),
        ('garbage', Wv('xyz', 'xyz'), NOCHECK, False, True),
        ('without-hyphens', Wv(U1.replace('-', ''), U1.replace('-', '')), NOCHECK, False, True),
        ('bin', Wv(None, U1.encode()), uuid.UUID(U1), True, False),
        ('bin-garbage', Wv(None, b'xyz'), NOCHECK, False, False),
        ('number-for-uuid', Wv(None, 5), NOCHECK, False, False)])
    add('Boolean', 'Boolean', [
        ('true', Wv('true', True), True, True, True),
        ('false', Wv('false', False), False, True, True),
        ('one', Wv('1', True), True, True, True),
        ('text-for-boolean', Wv(None, 'true'), True, True, False),
        ('number-for-boolean', Wv(None, 2), NOCHECK, False, False),
        ('bin-for-boolean', Wv(None, b'true'), True, True, False),
        ('list-for-boolean', Wv(None, [True]), NOCHECK, False, False)])
    add('Integer8(ge=0)', 'Integer8+ge', [
        ('text-for-integer', Wv(None, '5'), 5, True, False),
        ('text-out-of-range', Wv(None, '200'), 200, False, False),
        ('text-below-ge', Wv(None, '-1'), -1, False, False),
        ('bin-for-integer', Wv(None, b'5'), 5, True, False),
        ('bin-out-of-range', Wv(None, b'200'), 200, False, False),
        ('float-integral', Wv(None, 5.0), 5, True, False),
        ('float-fraction', Wv(None, 5.5), NOCHECK, False, False),
        ('float-out-of-range', Wv(None, 200.0), 200, False, False),
        ('float-nan', Wv(None, nan), NOCHECK, False, False),
        ('float-inf', Wv(None, inf), NOCHECK, False, False),
        ('float-neg-inf', Wv(None, -inf), NOCHECK, False, False),
        ('float-huge', Wv(None, 1e300), NOCHECK, False, False),
        ('list-for-integer', Wv(None, [5]), NOCHECK, False, False)])
    for texpr, tdesc in (('Integer', 'Integer'), ('UnsignedInteger16', 'UnsignedInteger16'), ('Integer64(le=10)', 'Integer64+le'),
                         ('UnsignedInteger', 'UnsignedInteger')):
        add(texpr, tdesc, [
            ('float-nan', Wv(None, nan), NOCHECK, False, False),
            ('float-inf', Wv(None, inf), NOCHECK, False, False),
            ('float-neg-inf', Wv(None, -inf), NOCHECK, False, False),
            ('float-huge', Wv(None, 1e300), int(1e300), texpr in ('Integer', 'UnsignedInteger'), False),
            ('float-neg-huge', Wv(None, -1e300), int(-1e300), texpr == 'Integer', False),
            ('float-integral', Wv(None, 7.0), 7, True, False),
            ('float-fraction', Wv(None, 7.5), NOCHECK, False, False),
            ('float-tiny-fraction', Wv(None, 5e-324), NOCHECK, False, False),
            ('float-neg-zero', Wv(None, -0.0), 0, True, False),
            ('text-nan', Wv('NaN', 'NaN'), NOCHECK, False, True),
            ('text-inf', Wv('INF', 'INF'), NOCHECK, False, True)])
    add('Enum("red", "green", type_name="Color")', 'Enum', [
        ('listed', Wv('red', 'red'), NOCHECK, True, True),
        ('not-listed', Wv('blue', 'blue'), NOCHECK, False, True),
        ('number-for-enum', Wv(None, 5), NOCHECK, False, False)])
    return T


def family_forms(check, tier):
    """every primitive kind with range / length / pattern / enumeration facets: canonical wire forms must be
    accepted iff the value conforms; alternative document forms (byte strings, numbers where Spyne writes
    text and the reverse, YAML native timestamps, lists) must never crash, never let a non-conforming value
    through and never arrive as another value.  All six protocols, four nesting positions."""
    for texpr, tdesc, cases in forms_table():
        h = Harness(mk_type(texpr))
        positions = ('top', 'nested', 'arr') if tdesc == 'Enum' else ('top', 'nested', 'arr', 'att')
        for shape, v, native, conforms, strict in cases:
            for proto in PROTOS:
                for pos in positions:
                    payload = ('items', [v]) if pos == 'arr' else ('val', v)
                    expect(check, h, 'forms', tdesc, texpr, shape, proto, pos, payload, conforms, native, strict)
    check.sample({'family': 'wire forms', 'types': [t[1] for t in forms_table()][:8],
                  'example': ['Unicode(min_len=2, max_len=3)', 'bin-too-short', "msgpack bin b'a'", 'reject']})


NULL_TYPES = ['Unicode', 'Integer', 'Integer8', 'Decimal', 'Double', 'Boolean', 'DateTime', 'Date', 'Time', 'Duration',
              'Uuid', 'Unicode(min_len=2)', 'Decimal(ge=0)', 'Date(ge=datetime.date(2020, 1, 1))']

def family_null(check, tier):
    """nullability at every position and in every protocol that can say null: an explicit null (JSON null,
    YAML ~, MessagePack nil, xsi:nil) is accepted iff the type is nillable and arrives as None; an absent
    member is accepted iff min_occurs is 0"""
    rng = check.rng
    types = NULL_TYPES if tier != 'quick' else NULL_TYPES[:11] + rng.sample(NULL_TYPES[11:], 1)
    for texpr in types:
        for nill in (True, False):
            for mino in (0, 1):
                if mino == 1 and nill and tier == 'quick' and rng.random() < .5:
                    continue
                full = texpr + ('(' if '(' not in texpr else '.customize(') + 'nillable=%s, min_occurs=%d)' % (nill, mino)
                h = Harness(mk_type(full))
                tdesc = texpr.split('(')[0] + ('+facets' if '(' in texpr else '')
                for proto in PROTOS:
                    for pos in ('top', 'nested', 'att'):
                        expect(check, h, 'null', tdesc, full, 'null|nillable=%s' % nill, proto, pos, ('null',), nill, None)
                        expect(check, h, 'null', tdesc, full, 'absent|min_occurs=%d' % mino, proto, pos, ('absent',), mino == 0, None)
                    if mino == 0:
                        expect(check, h, 'null', tdesc, full, 'null-item|nillable=%s' % nill, proto, 'arr', ('items', [NULL]), nill, None)
    check.sample({'family': 'null / absent', 'types': NULL_TYPES[:6], 'positions': ['top', 'nested', 'att', 'arr item']})


def family_array_occurs(check, tier):
    """Array(T, min_occurs=a) constrains the array element itself (0 or 1 occurrences), Array(T(min_occurs=m,
    max_occurs=n)) the items inside it: absent / null / 0..k items, as an argument and as a member of an
    object, over all six protocols"""
    specs = [('Array(Integer)', 0, 0, None), ('Array(Integer, min_occurs=1)', 1, 0, None),
             ('Array(Integer(min_occurs=1))', 0, 1, None), ('Array(Integer(min_occurs=2, max_occurs=3))', 0, 2, 3),
             ('Array(Integer(min_occurs=1, max_occurs=2), min_occurs=1)', 1, 1, 2),
             ('Array(Integer(max_occurs=2))', 0, 0, 2)]
    hi = 5 if tier == 'quick' else 8
    corr = {'xml_array': [], 'hier_array': [], 'flat_array': []}
    for aexpr, wmin, mmin, mmax in specs:
        h = Harness(mk_type('Integer'), array=mk_type(aexpr))
        gd = '{| ad_wmin := %s; ad_wmax := Fin 1; ad_mmin := %s; ad_mmax := %s |}' % (gz(wmin), gz(mmin), 'PosInf' if mmax is None else '(Fin %s)' % gz(mmax))
        def tie(proto, pos, n, got):
            # the Coq model of the three enforcement points against what the implementation just did
            if got is None or got.startswith('other'):
                return
            name = {'xml': 'xml_array', 'soap11': 'xml_array', 'json': 'hier_array', 'yaml': 'hier_array', 'msgpack': 'hier_array', 'http': 'flat_array'}[proto]
            req = gz(n or 0) if name == 'flat_array' else gopt(n, gz)
            corr[name].append(('(%s, %s, %s)' % (gd, req, gbool(got == 'accept')), '%s %s %s n=%r -> %s' % (aexpr, proto, pos, n, got)))
        for proto in PROTOS:
            for pos in ('arr', 'narr'):
                got = expect(check, h, 'array-occurs', aexpr, 'Integer', 'array-absent', proto, pos, ('absent',), wmin == 0, None,
                             extra={'array_expr': aexpr})
                tie(proto, pos, None, got)
                for n in range(0, hi):
                    want = mmin <= n and (mmax is None or n <= mmax)
                    shape = 'items-under-min' if n < mmin else 'items-over-max' if (mmax is not None and n > mmax) else 'items-conforming'
                    got = expect(check, h, 'array-occurs', aexpr, 'Integer', shape, proto, pos, ('items', list(range(n))), want,
                                 list(range(n)), extra={'array_expr': aexpr})
                    tie(proto, pos, n, got)
    imports = 'From SpyneV Require Import Base.Prelude Base.Ext C05.Valid C05.ArrayModel.'
    for name, rt in (('xml_array', 'option Z'), ('hier_array', 'option Z'), ('flat_array', 'Z')):
        lib.correspond(check, name, imports, 'arr_decl * %s * bool' % rt,
                       '(fun c => match c with (d, r, b) => Bool.eqb (%s d r) b end)' % name, corr[name])
    check.sample({'family': 'array vs item occurrence', 'arrays': [s[0] for s in specs], 'items': [0, hi - 1]})


def family_null_members(check, tier):
    """object-valued and array-valued members: null is accepted iff the member is nillable (and arrives as
    None), absent iff min_occurs is 0"""
    from spyne import Application, rpc, ServiceBase, ComplexModel, Array, Unicode, Integer
    from spyne.model.complex import ComplexModelMeta
    from spyne.protocol.xml import XmlDocument
    from spyne.protocol.soap import Soap11
    from spyne.protocol.json import JsonDocument
    from spyne.protocol.yaml import YamlDocument
    from spyne.protocol.msgpack import MessagePackDocument
    from lxml import etree
    calls = []
    Inner = ComplexModelMeta('Inner', (ComplexModel,), {'__namespace__': TNS, '_type_info': [('a', Integer)]})
    for kind, base in (('object', Inner), ('array', Array(Integer))):
        for nill in (True, False):
            for mino in (0, 1):
                MT = base.customize(nillable=nill, min_occurs=mino)
                Outer = ComplexModelMeta('Outer', (ComplexModel,), {'__namespace__': TNS, '_type_info': [('m', MT), ('z', Integer)]})

                class S(ServiceBase):
                    @rpc(Outer, _returns=Unicode)
                    def member(ctx, x):
                        calls.append(('member', None if x is None else x.m)); return 'ok'

                    @rpc(MT, _returns=Unicode)
                    def arg(ctx, x):
                        calls.append(('arg', x)); return 'ok'
                protos = {'xml': XmlDocument, 'soap11': Soap11, 'json': JsonDocument, 'yaml': YamlDocument, 'msgpack': MessagePackDocument}
                for proto, P in protos.items():
                    app = Application([S], TNS, in_protocol=P(validator='soft'), out_protocol=JsonDocument())
                    for pos in ('member', 'arg'):
                        for form, want in (('null', nill), ('absent', mino == 0)):
                            if proto in ('xml', 'soap11'):
                                nsq = '{%s}' % TNS
                                root = etree.Element(nsq + pos, nsmap={None: TNS, 'xsi': XSI})
                                parent = root
                                if pos == 'member':
                                    parent = etree.SubElement(root, nsq + 'x')
                                    etree.SubElement(parent, nsq + 'z').text = '1'
                                if form == 'null':
                                    etree.SubElement(parent, nsq + ('m' if pos == 'member' else 'x')).set('{%s}nil' % XSI, 'true')
                                if proto == 'soap11':
                                    env = etree.Element('{http://schemas.xmlsoap.org/soap/envelope/}Envelope')
                                    etree.SubElement(env, '{http://schemas.xmlsoap.org/soap/envelope/}Body').append(root)
                                    root = env
                                body = etree.tostring(root)
                            else:
                                if pos == 'member':
                                    d = {'member': {'x': dict({'z': 1}, **({'m': None} if form == 'null' else {}))}}
                                else:
                                    d = {'arg': ({'x': None} if form == 'null' else {})}
                                body = encode_doc(proto, d)
                            res = drive(app, calls, proto, body=body)
                            got = classify(res)
                            check.count(('null-member', kind, nill, mino, proto, pos, form))
                            ok = (got == 'accept') == want and not got.startswith('other')
                            if ok and got == 'accept':
                                ok = res[1] is None
                            if not ok:
                                check.fail('C05|null-member|%s|%s|%s|%s' % (kind, '%s|nillable=%s,min_occurs=%d' % (form, nill, mino), proto, pos),
                                           '%s-valued %s (nillable=%s, min_occurs=%d) sent as %s over %s: expected %s, got %r' % (
                                               kind, pos, nill, mino, form, proto, 'accept with None' if want else 'reject', res),
                                           {'family': 'null-member', 'kind': kind, 'nillable': nill, 'min_occurs': mino,
                                            'form': form, 'protocol': proto, 'position': pos})
    check.sample({'family': 'null / absent object and array members', 'protocols': ['xml', 'soap11', 'json', 'yaml', 'msgpack']})


# ------------------------------------------------------------------ correspondences of the step functions (Gen/C05Steps.v)
STEP_IMPORTS = ('From SpyneV Require Import Base.Prelude Base.Ext Wire.Decimal C05.Facets C05.StepTypes Gen.FacetTypes Gen.C05Steps C05.StepModel.\n'
                'Definition ozeqb (a b : option Z) := match a, b with Some x, Some y => Z.eqb x y | None, None => true | _, _ => false end.\n'
                'Definition choice_eqb (a b : xsi_choice) := match a, b with Declared, Declared | Named, Named => true | _, _ => false end.')

def g_dec(d):
    t = d.as_tuple()
    return '(mkdec %s %d %s)' % (gbool(bool(t.sign)), int(''.join(map(str, t.digits)) or '0'), gz(t.exponent))

def g_dx(d):
    if d.is_infinite():
        return 'DPosInf' if d > 0 else 'DNegInf'
    return '(DFin %s)' % g_dec(d)

def family_step_corr(check, tier):
    """the four generated decision procedures against the functions they were translated from"""
    import spyne.model.primitive as P
    from spyne import ComplexModel, Array
    from spyne.model.complex import ComplexModelMeta
    from spyne.protocol.xml import XmlDocument
    from spyne.protocol.json import JsonDocument
    from spyne.protocol.yaml import YamlDocument
    from spyne.protocol.msgpack import MessagePackDocument
    from lxml import etree
    D = _dec.Decimal
    rng = check.rng
    # ---- xml_nil
    nc = []
    for soft in (True, False):
        for repl in (True, False):
            xml = XmlDocument(validator='soft' if soft else None, replace_null_with_default=repl)
            for nill in (True, False):
                for default in (None, 5, 0, rng.randint(-100, 100)):
                    T = P.Integer.customize(nillable=nill, default=default)
                    for nilv in ('true', '1'):
                        el = etree.Element('x')
                        el.set('{%s}nil' % XSI, nilv)
                        if rng.random() < .3:
                            el.text = '7'
                        o = observe(xml.from_element, None, T, el)
                        nc.append(('(%s, %s, %s, %s, %s)' % (gbool(soft), gbool(nill), gbool(repl), gopt(default, gz), gout(o, lambda v: gopt(v, gz))),
                                   'nil soft=%s nillable=%s replace=%s default=%r -> %r' % (soft, nill, repl, default, o)))
                        check.count(('nilcorr', soft, repl, nill, default, nilv))
    lib.correspond(check, 'xml_nil', STEP_IMPORTS, 'bool * bool * bool * option Z * out (option Z)',
                   '(fun c => match c with (s, n, r, d, o) => out_eqb ozeqb (xml_nil s n r d) o end)', nc)
    # ---- xsi_target
    A = ComplexModelMeta('A', (ComplexModel,), {'__namespace__': TNS, '_type_info': [('a', P.Integer)]})
    B = ComplexModelMeta('B', (A,), {'__namespace__': TNS, '_type_info': [('b', P.Integer)]})
    C = ComplexModelMeta('C', (ComplexModel,), {'__namespace__': TNS, '_type_info': [('c', P.Integer)]})
    pool = [P.Unicode, P.Unicode(max_len=3), P.Unicode(pattern='[a-z]+', type_name='S1'), P.Integer, P.Integer(ge=0, le=9),
            P.Integer8, P.Integer8(le=5), P.Decimal, P.Decimal(ge=0), P.Double, P.Double(le=5.0), P.Boolean, P.DateTime, P.Date,
            P.DateTime(type_name='D1'), P.Uuid, P.AnyUri, A, B, C, A.customize(min_occurs=1), B.customize(nillable=False),
            Array(P.Integer), Array(P.Unicode), Array(A), Array(P.Integer(ge=0)), mk_type(ENUM_EXPR)]
    for t in pool:
        try:
            t.resolve_namespace(t, TNS)
        except Exception:
            pass
    xc = []
    pairs = [(a, b) for a in pool for b in pool]
    if tier == 'quick':
        pairs = rng.sample(pairs, 260)
    for cls, new in pairs:
        sup = getattr(cls, '__orig__', None) or cls
        sub = getattr(new, '__orig__', None) or new
        try:
            nd = (new.get_namespace(), new.get_type_name()) != (cls.get_namespace(), cls.get_type_name())
        except Exception:
            continue
        q = ('{| xq_same_orig := %s; xq_sup_is_array := %s; xq_names_differ := %s; xq_sup_is_complex := %s; xq_sub_extends_sup := %s |}'
             % (gbool(sub is sup), gbool(issubclass(sup, Array)), gbool(nd), gbool(issubclass(sup, ComplexModel)), gbool(issubclass(sub, sup))))
        o = observe(XmlDocument._get_xsi_target, cls, new, 'x:y')
        if o[0] == 'ok':
            o = ('ok', 'Declared' if o[1] is cls else 'Named' if o[1] is new else None)
            if o[1] is None:
                check.mismatch('xsi_target', '_get_xsi_target(%r, %r) returned a third class' % (cls, new))
                continue
        xc.append(('(%s, %s)' % (q, gout(o, lambda v: v)), '_get_xsi_target(%s, %s) -> %r' % (cls.__name__, new.__name__, o)))
        check.count(('xsicorr', repr(cls), repr(new)))
    lib.correspond(check, 'xsi_target', STEP_IMPORTS, 'xsi_query * out xsi_choice',
                   '(fun c => out_eqb choice_eqb (xsi_target (fst c)) (snd c))', xc)
    # ---- enum readers: the delivered object is named by the declared value it IS, anything else by a marker
    E = mk_type(ENUM_EXPR)
    names = {id(getattr(E, v)): v for v in E.__values__}
    lits = list(E.__values__) + ENUM_HOSTILE + rng.sample([n for n in dir(E)], 12)
    ec = {'enum_from_bytes': [], 'enum_from_element': []}
    for soft in (True,):                  # C05 is about validator='soft'
        js = JsonDocument(validator='soft' if soft else None)
        xml = XmlDocument(validator='soft' if soft else None)
        for nill in (True, False):
            T = E if nill else E.customize(nillable=False)
            for lit in lits + [None]:
                el = etree.Element('x')
                el.text = lit if lit else None
                src = {'enum_from_bytes': lit, 'enum_from_element': el.text}
                for fn, o in (('enum_from_bytes', observe(js.enum_base_from_bytes, T, lit) if lit is not None else None),
                              ('enum_from_element', observe(xml.enum_from_element, None, T, el))):
                    if o is None:
                        continue
                    if o[0] == 'ok':
                        o = ('ok', names.get(id(o[1]), '<not a member>'))
                    ec[fn].append(('(%s, %s, %s, %s)' % (gbool(soft), gbool(nill), gopt(src[fn], gtext), gout(o, gtext)),
                                   '%s soft=%s %r -> %r' % (fn, soft, src[fn], o)))
                    check.count(('enumcorr', fn, soft, nill, lit))
    gvals = glist([gtext(v) for v in E.__values__])
    for fn in ec:
        lib.correspond(check, fn, STEP_IMPORTS, 'bool * bool * option text * out text',
                       '(fun c => match c with (s, n, ov, o) => out_eqb text_eqb (%s (fun v : text => v) s n %s ov) o end)' % (fn, gvals), ec[fn])
    # ---- Decimal: text path and number path
    xml = XmlDocument(validator='soft')
    hiers = [JsonDocument(validator='soft'), YamlDocument(validator='soft'), MessagePackDocument(validator='soft')]
    tcs, ncs = [], []
    bounds = ['0.1', '0.3', '0.7', '19.99', '-0.1', '1.005', '100', '2.675', '0']
    for _ in range(4 if tier == 'quick' else 40):
        dg = rng.randint(1, 6)
        bounds.append(str(D(rng.randint(-10 ** (dg + 2), 10 ** (dg + 2))).scaleb(-dg)))
    for b in bounds:
        bd = D(b)
        kw = {}
        facet = rng.choice(['ge', 'gt', 'le', 'lt'])
        kw[facet] = bd
        if rng.random() < .3:
            kw[rng.choice(['le', 'lt']) if facet in ('ge', 'gt') else rng.choice(['ge', 'gt'])] = bd + rng.choice([1, -1, 0]) * D('0.5')
        if rng.random() < .15:
            kw['values'] = [bd, bd + 1]
        T = P.Decimal.customize(**kw)
        At = T.Attributes
        ga = ('{| r4_nillable := %s; r4_gt := %s; r4_ge := %s; r4_lt := %s; r4_le := %s; r4_values := %s |}' % (
            gbool(At.nillable), g_dx(At.gt), g_dx(At.ge), g_dx(At.lt), g_dx(At.le), glist([g_dx(v) for v in sorted(At.values)])))
        gm = '(Fin %s)' % gz(At.max_str_len)
        ulp = D(1).scaleb(min(bd.as_tuple().exponent, 0))
        for vd in (bd, bd - ulp, bd + ulp, bd + ulp / 1000, bd.normalize(), bd + 1):
            text = format(vd, 'f')
            texts = [text, '+' + text, ' ' + text, text + '0' if '.' in text else text + '.0', str(vd.normalize())]
            for t in texts + rng.sample(['NaN', 'abc', '', '1e3', '1.5.', '--1', 'Infinity', '.5', '5.'], 2):
                el = etree.Element('x')
                el.text = t if t else None
                outs = [('xml', observe(xml.from_element, None, T, el))] if t else []
                hp = rng.choice(hiers)
                outs.append(('doc', observe(hp._from_dict_value, None, 'k', T, t, hp.validator)))
                for where, o in outs:
                    if where == 'doc' and t == '':
                        continue        # empty_is_none is not part of this path's model
                    go = gout(o, g_dec) if not (o[0] == 'ok' and o[1] is None) else None
                    if go is None:
                        continue
                    tcs.append(('(%s, %s, %s, %s)' % (ga, gm, gtext(t), go), 'Decimal%r %s text %r -> %r' % (kw, where, t, o)))
                    check.count(('deccorr', 'text', str(kw), where, t))
            nums = [float(text)]
            if vd == vd.to_integral_value():
                nums.append(int(vd))
            for v in nums:
                hp = rng.choice(hiers)
                o = observe(hp._from_dict_value, None, 'k', T, v, hp.validator)
                exact = D(v)
                ncs.append(('(%s, %s, %s, %s, %s)' % (ga, gm, gtext(str(v)), g_dec(exact), gout(o, g_dec)),
                            'Decimal%r number %r -> %r' % (kw, v, o)))
                check.count(('deccorr', 'number', str(kw), repr(v)))
    lib.correspond(check, 'decimal_text_leaf', STEP_IMPORTS, 'rng4_attrs dx * ext * text * out dec',
                   '(fun c => match c with (a, m, s, o) => out_eqb dec_eqb (decimal_text_leaf a m s) o end)', tcs,
                   show='(fun c : rng4_attrs dx * ext * text * out dec => match c with (a, m, s, o) => decimal_text_leaf a m s end)')
    lib.correspond(check, 'decimal_number_leaf', STEP_IMPORTS, 'rng4_attrs dx * ext * text * dec * out dec',
                   '(fun c => match c with (a, m, s, e, o) => out_eqb dec_eqb (decimal_number_leaf (fun _ : unit => s) (fun _ : unit => e) a m tt) o end)', ncs,
                   show='(fun c : rng4_attrs dx * ext * text * dec * out dec => match c with (a, m, s, e, o) => decimal_number_leaf (fun _ : unit => s) (fun _ : unit => e) a m tt end)')
    check.sample({'family': 'step function correspondence', 'xml_nil': len(nc), 'xsi_target': len(xc),
                  'enum': sum(len(v) for v in ec.values()), 'decimal_text': len(tcs), 'decimal_number': len(ncs)})


# ------------------------------------------------------------------ round 2: decimal bounds, enum, xsi:type, nil x default
def family_decimal_bounds(check, tier):
    """Decimal range facets whose bounds are not binary fractions (0.1, 0.3, 19.99 ...): the value exactly ON the
    bound and one unit in the last place beside it, sent as text (every protocol) and as a JSON / YAML / MessagePack
    NUMBER.  Spyne reads such a number through its shortest text, so the number 0.3 is the decimal 0.3 and gets the
    verdict the text '0.3' gets over XML - not the verdict of its binary expansion 0.29999999999999998889..."""
    D = _dec.Decimal
    rng = check.rng
    bounds = ['0.1', '0.3', '0.7', '19.99', '-0.1', '1.005', '100', '0.000001', '2.675']
    for _ in range(3 if tier == 'quick' else 25):
        digits = rng.randint(1, 6)
        bounds.append(str(D(rng.randint(-10 ** (digits + 2), 10 ** (digits + 2))).scaleb(-digits)))
    if tier == 'quick':
        bounds = bounds[:5] + rng.sample(bounds[5:], 3)
    for b in bounds:
        bd = D(b)
        ulp = D(1).scaleb(min(bd.as_tuple().exponent, 0))
        for facet in ('ge', 'gt', 'le', 'lt'):
            texpr = 'Decimal(%s=D(%r))' % (facet, b)
            h = Harness(mk_type(texpr))
            for name, vd in (('on-bound', bd), ('just-below', bd - ulp), ('just-above', bd + ulp), ('just-above-finer', bd + ulp / 1000)):
                conforms = {'ge': vd >= bd, 'gt': vd > bd, 'le': vd <= bd, 'lt': vd < bd}[facet]
                text = format(vd, 'f')
                forms = [('text', Wv(text, text))]
                f = float(text)
                if D(repr(f)) == vd:            # the float the sender's library writes for this decimal reads back as it
                    forms.append(('number', Wv(None, f)))
                if vd == vd.to_integral_value():
                    forms.append(('integer-number', Wv(None, int(vd))))
                for fname, v in forms:
                    for proto in PROTOS:
                        for pos in ('top', 'nested', 'arr', 'att'):
                            payload = ('items', [v]) if pos == 'arr' else ('val', v)
                            expect(check, h, 'decimal-bound', 'Decimal+' + facet, texpr, '%s|as-%s' % (name, fname), proto, pos,
                                   payload, conforms, vd, True)
    check.sample({'family': 'decimal bounds as numbers', 'bounds': bounds[:6], 'forms': ['text', 'number']})


ENUM_EXPR = 'Enum("red", "green", "Blue", type_name="Color")'
ENUM_HOSTILE = ['Value', 'Attributes', 'Annotations', 'customize', 'validate_string', 'validate_native', '__doc__', '__class__',
                'mro', '__values__', '__type_name__', '__namespace__', '__init__', '__dict__', '__module__', 'Empty',
                'get_type_name', 'is_default', '__orig__', '__extends__', 'Red', 'RED', 'red ', ' red', 'blue', '0', 'red\n',
                'redgreen', '']

def family_enum(check, tier):
    """enumerated types: exactly the declared values are accepted, and what the user function receives IS one of
    the declared members; literals that are Python attribute names of the enum class (Value, Attributes, customize,
    dunder names ...), case variants and padded values are refused - at every position and in every protocol"""
    rng = check.rng
    T = mk_type(ENUM_EXPR)
    members = [getattr(T, v) for v in T.__values__]
    hostile = list(ENUM_HOSTILE)
    names = [n for n in dir(T) if n not in T.__values__ and n not in hostile]
    hostile += rng.sample(names, min(len(names), 6 if tier == 'quick' else 40))
    h = Harness(T)
    for lit in list(T.__values__) + hostile:
        want = lit in T.__values__
        v = Wv(lit, lit)
        shape = 'declared' if want else ('python-attribute-name' if hasattr(T, lit) and lit else 'undeclared')
        for proto in PROTOS:
            for pos in ('top', 'nested', 'arr', 'att'):
                if lit.strip() != lit and proto in ('xml', 'soap11') and pos == 'att':
                    continue          # attribute value normalisation by the XML parser changes the literal
                payload = ('items', [v]) if pos == 'arr' else ('val', v)
                expect(check, h, 'enum', 'Enum', ENUM_EXPR, '%s|%s' % (shape, lit if not want else 'value'), proto, pos, payload,
                       want, NOCHECK, True, allowed=[getattr(T, lit)] if want else members)
    check.sample({'family': 'enum', 'declared': list(T.__values__), 'hostile': hostile[:10]})


XSI_TYPES = [
    # (declared type, sibling customisation registered in the interface, unrelated registered types, out-of-facet, conforming)
    ('Unicode(max_len=3, pattern="[a-z]+")', 'Unicode(max_len=100, type_name="LooseStr")', ['boolean', 'integer'],
     [('abcdef', 'abcdef'), ('ABC', 'ABC')], [('abc', 'abc')]),
    ('Integer(ge=0, le=9)', 'Integer(ge=-1000, le=1000, type_name="LooseInt")', ['string', 'boolean', 'decimal'],
     [('500', 500), ('-1', -1)], [('5', 5)]),
    ('Integer8', 'Integer8(type_name="OtherByte")', ['integer', 'string'], [('300', 300), ('-129', -129)], [('5', 5)]),
    ('Decimal(ge=0, le=10)', 'Decimal(ge=-100, le=100, type_name="LooseDec")', ['double', 'string'],
     [('10.5', _dec.Decimal('10.5'))], [('1.5', _dec.Decimal('1.5'))]),
    ('Double(le=5.0)', 'Double(type_name="LooseDbl")', ['decimal', 'string'], [('5.5', 5.5)], [('1.5', 1.5)]),
    ('Unicode(values=["red", "green"])', 'Unicode(type_name="AnyStr2")', ['boolean'], [('blue', 'blue')], [('red', 'red')]),
    ('Unicode(min_len=4)', 'Unicode(min_len=1, type_name="ShortStr")', ['integer'], [('abc', 'abc')], [('abcd', 'abcd')]),
    ('DateTime(ge=datetime.datetime(2020, 1, 1, tzinfo=utc))', 'DateTime(type_name="AnyDt")', ['date', 'string'],
     [('2019-06-01T00:00:00Z', None)], [('2021-06-01T00:00:00Z', None)]),
    ('Date(ge=datetime.date(2020, 1, 1))', 'Date(type_name="AnyDate")', ['dateTime', 'string'],
     [('2019-06-01', _dt.date(2019, 6, 1))], [('2020-06-01', _dt.date(2020, 6, 1))]),
    ('Time(le=datetime.time(17))', 'Time(type_name="AnyTime")', ['string'], [('18:00:00', _dt.time(18))], [('12:00:00', _dt.time(12))]),
    (ENUM_EXPR, 'Unicode(type_name="AnyStr3")', ['string'], [('Value', None), ('blue', None)], [('red', None)]),
]

def family_xsi_type(check, tier):
    """XML / SOAP: an xsi:type attribute on an element of a customised primitive - naming the schema type it is
    built on, another customisation of the same primitive, or an unrelated registered type - never changes which
    facets apply: an out-of-facet value is refused exactly as without the attribute (and as over JSON); a conforming
    value is either refused (the tag is not acceptable) or read as the DECLARED type"""
    rng = check.rng
    for texpr, sibexpr, unrelated, bad, good in XSI_TYPES:
        T = mk_type(texpr)
        sib = mk_type(sibexpr)
        h = Harness(T, extra_types=[sib])
        base = getattr(T, '__orig__', None) or T
        kinds = [('base', (base.get_namespace() if base.get_namespace() != 'tns' else TNS, base.get_type_name())),
                 ('sibling', (TNS, sib.get_type_name()))] + [('unrelated-' + u, (XSD, u)) for u in unrelated]
        if texpr == ENUM_EXPR:
            kinds = kinds[1:]                 # the enum's own name is its only schema type
        tdesc = texpr.split('(')[0] + '+facets'
        for kind, qn in kinds:
            if qn[0] not in (XSD, TNS):
                continue
            for vals, conforming in ((bad, False), (good, True)):
                for text, native in vals:
                    v = Wv(text, NO, xsi=qn)
                    for proto in ('xml', 'soap11'):
                        for pos in ('top', 'nested', 'arr', 'narr', 'multi', 'nmulti'):
                            payload = ('items', [v]) if pos in ('arr', 'narr', 'multi', 'nmulti') else ('val', v)
                            expect(check, h, 'xsi-type', tdesc, texpr, 'xsi-%s|%s' % (kind, 'conforming' if conforming else 'out-of-facet'),
                                   proto, pos, payload, conforming, NOCHECK if native is None else native, not conforming,
                                   extra={'extra_types': [sibexpr]})
            # the reference: the same out-of-facet values without the attribute, over XML and JSON
            for text, native in bad:
                for proto in ('xml', 'json'):
                    expect(check, h, 'xsi-type', tdesc, texpr, 'no-xsi-type|out-of-facet', proto, 'top',
                           ('val', Wv(text, native if isinstance(native, (int, float, str)) else text)), False, NOCHECK, True)
    check.sample({'family': 'xsi:type on customised primitives', 'types': [x[0] for x in XSI_TYPES][:5],
                  'kinds': ['base schema type', 'sibling customisation', 'unrelated type']})


DEFAULT_TYPES = [('Integer', '5', 5), ('Unicode', '"dflt"', 'dflt'), ('Decimal', 'D("1.5")', _dec.Decimal('1.5')), ('Boolean', 'True', True),
                 ('Double', '2.5', 2.5), ('Integer8', '7', 7), ('Date', 'datetime.date(2020, 1, 1)', _dt.date(2020, 1, 1)),
                 ('DateTime', 'datetime.datetime(2020, 1, 1, tzinfo=utc)', d_(2020, 1, 1)), ('Unicode(min_len=2)', '"dflt"', 'dflt')]

def family_null_default(check, tier):
    """nullability does not depend on a declared default: an explicit null (xsi:nil, JSON null, YAML ~, MessagePack nil)
    is accepted iff the type is nillable - with or without default=..., with XmlDocument(replace_null_with_default=)
    True or False - and what arrives is None or the default, never something else; an absent member is accepted iff
    min_occurs is 0.  Every protocol, top-level / nested / attribute / array item"""
    rng = check.rng
    types = DEFAULT_TYPES if tier != 'quick' else DEFAULT_TYPES[:4] + rng.sample(DEFAULT_TYPES[4:], 2)
    for tbase, dexpr, dval in types:
        for has_default in (True, False):
            for nill in (True, False):
                for mino in (0, 1):
                    kw = 'nillable=%s, min_occurs=%d%s' % (nill, mino, ', default=%s' % dexpr if has_default else '')
                    full = tbase + ('(' if '(' not in tbase else '.customize(') + kw + ')'
                    allowed = [None, dval] if has_default else [None]
                    tdesc = tbase.split('(')[0] + ('+default' if has_default else '')
                    for repl in (True, False):
                        h = Harness(mk_type(full), xml_kwargs={'replace_null_with_default': repl})
                        protos = ('xml', 'soap11') if not repl else PROTOS
                        ex = {'xml_kwargs': {'replace_null_with_default': repl}}
                        for proto in protos:
                            al = [None] if (proto in ('xml', 'soap11') and not repl) else allowed
                            for pos in ('top', 'nested', 'att'):
                                expect(check, h, 'null-default', tdesc, full, 'null|nillable=%s|replace=%s' % (nill, repl), proto, pos,
                                       ('null',), nill, NOCHECK, True, extra=ex, allowed=al)
                                expect(check, h, 'null-default', tdesc, full, 'absent|min_occurs=%d|replace=%s' % (mino, repl), proto, pos,
                                       ('absent',), mino == 0, NOCHECK, True, extra=ex, allowed=allowed)
                            if mino == 0:
                                expect(check, h, 'null-default', tdesc, full, 'null-item|nillable=%s|replace=%s' % (nill, repl), proto, 'arr',
                                       ('items', [NULL]), nill, NOCHECK, True, extra=ex, allowed=al)
    check.sample({'family': 'null x default x replace_null_with_default', 'types': [t[0] for t in DEFAULT_TYPES[:5]]})


def family_member_freq_corr(check, tier):
    """xml_member_freq (coq/C05/ArrayModel.v) against XmlDocument.from_element on generated classes: random element
    and attribute members with random bounds, random multisets of child elements and attributes over the same names"""
    from spyne import ComplexModel, Unicode, XmlAttribute
    from spyne.model.complex import ComplexModelMeta
    from spyne.protocol.xml import XmlDocument
    from lxml import etree
    rng = check.rng
    xml = XmlDocument(validator='soft')
    names = ['a', 'b', 'c', 'd']
    cases = []
    for _ in range(40 if tier == 'quick' else 400):
        members = rng.sample(names, rng.randint(1, 3))
        decls, ti = [], []
        for m in members:
            is_attr = rng.random() < .4
            mn = rng.choice([0, 0, 1])
            mx = 1 if is_attr else rng.choice([1, 1, 2, 'unbounded'])
            T = Unicode(min_occurs=mn, max_occurs=mx)
            ti.append((m, XmlAttribute(T) if is_attr else T))
            decls.append('(%s, %s, %s, %s)' % (gtext(m), gbool(is_attr), gz(mn), 'PosInf' if mx == 'unbounded' else '(Fin %s)' % gz(mx)))
        C = ComplexModelMeta('C', (ComplexModel,), {'__namespace__': TNS, '_type_info': ti})
        for _ in range(6):
            children = [rng.choice(names) for _ in range(rng.randint(0, 4))]
            attrs = rng.sample(names, rng.randint(0, 3))
            el = etree.Element('{%s}C' % TNS)
            for c in children:
                etree.SubElement(el, '{%s}%s' % (TNS, c)).text = 'v'
            for a in attrs:
                el.set(a, 'w')
            from spyne.model.fault import Fault
            try:
                xml.from_element(None, C, el)
                o = ('ok',)
            except Fault as e:       # the frequency check raises a plain Fault with the ValidationError code
                o = ('vfault',) if str(e.faultcode).startswith('Client.ValidationError') else ('crash', e.faultcode)
            except Exception as e:
                o = ('crash', type(e).__name__)
            if o[0] == 'crash':
                check.mismatch('xml_member_freq', 'from_element raised %r for %s' % (o, etree.tostring(el)))
                continue
            cases.append(('(%s, %s, %s, %s)' % (glist(decls), glist([gtext(c) for c in children]), glist([gtext(a) for a in attrs]),
                                               gbool(o[0] == 'ok')), '%r children=%r attrs=%r -> %s' % (ti, children, attrs, o[0])))
            check.count(('mfreq', repr(decls), tuple(children), tuple(attrs)))
    lib.correspond(check, 'xml_member_freq', 'From SpyneV Require Import Base.Prelude Base.Ext C05.Valid C05.ArrayModel.',
                   'list mdecl * list text * list text * bool',
                   '(fun c => match c with (d, ch, at_, b) => Bool.eqb (xml_member_freq d ch at_) b end)', cases)


def family_xml_name_clash(check, tier):
    """XML / SOAP: an attribute of the parent element that merely shares its NAME with an element member is not an
    occurrence of that member, and a child element named like an XmlAttribute member is not that attribute: the
    min / max occurrence verdict of each member looks only at the nodes of its own kind"""
    from spyne import Application, rpc, ServiceBase, ComplexModel, Unicode, Integer, XmlAttribute
    from spyne.model.complex import ComplexModelMeta
    from spyne.protocol.xml import XmlDocument
    from spyne.protocol.soap import Soap11
    from spyne.protocol.json import JsonDocument
    from lxml import etree
    rng = check.rng
    calls = []
    names = ['code', 'kind', 'id', 'v', 'name', 'type', 'value', 'Attributes']
    for emin in (0, 1):
        for amin in (0, 1):
            en, an = rng.sample(names, 2)
            Item = ComplexModelMeta('Item', (ComplexModel,), {'__namespace__': TNS, '_type_info': [
                (en, Unicode(min_occurs=emin)), ('qty', Integer), (an, XmlAttribute(Unicode(min_occurs=amin)))]})

            class S(ServiceBase):
                @rpc(Item, _returns=Unicode)
                def nested(ctx, x):
                    calls.append(('nested', None if x is None else (getattr(x, en), getattr(x, an)))); return 'ok'

                @rpc(Unicode(min_occurs=emin), Integer, _returns=Unicode, _in_variable_names={'a': en})
                def top(ctx, a, qty):
                    calls.append(('top', (a, None))); return 'ok'
            ev, av = rng.choice(['A1', 'zz', 'x y']), rng.choice(['k', 'K9'])
            # (shape, element children of that name, attribute of the element's name?, attribute an?, child named an?, want, delivered)
            reqs = [('element-absent|stray-attribute', 0, True, True, False, emin == 0, (None, av)),
                    ('element-once|stray-attribute', 1, True, True, False, True, (ev, av)),
                    ('element-once|no-stray', 1, False, True, False, True, (ev, av)),
                    ('element-absent|no-stray', 0, False, True, False, emin == 0, (None, av)),
                    ('attribute-absent|stray-child', 1, False, False, True, amin == 0, (ev, None)),
                    ('attribute-present|stray-child', 1, False, True, True, True, (ev, av)),
                    ('attribute-absent|no-stray', 1, False, False, False, amin == 0, (ev, None))]
            for proto, P in (('xml', XmlDocument), ('soap11', Soap11)):
                app = Application([S], TNS, in_protocol=P(validator='soft'), out_protocol=JsonDocument())
                for pos in ('nested', 'top'):
                    for shape, n_el, stray_attr, has_attr, stray_child, want, deliv in reqs:
                        if pos == 'top' and (not has_attr or stray_child):
                            continue           # the argument list has no attribute members
                        nsq = '{%s}' % TNS
                        root = etree.Element(nsq + pos, nsmap={None: TNS})
                        parent = etree.SubElement(root, nsq + 'x') if pos == 'nested' else root
                        etree.SubElement(parent, nsq + 'qty').text = '2'
                        for _ in range(n_el):
                            etree.SubElement(parent, nsq + en).text = ev
                        if stray_attr:
                            parent.set(en, 'stray')
                        if pos == 'nested' and has_attr:
                            parent.set(an, av)
                        if stray_child:
                            etree.SubElement(parent, nsq + an).text = 'stray'
                        doc = root
                        if proto == 'soap11':
                            doc = etree.Element('{http://schemas.xmlsoap.org/soap/envelope/}Envelope')
                            etree.SubElement(doc, '{http://schemas.xmlsoap.org/soap/envelope/}Body').append(root)
                        body = etree.tostring(doc)
                        res = drive(app, calls, proto, body=body)
                        got = classify(res)
                        check.count(('name-clash', emin, amin, en, an, proto, pos, shape))
                        ok = (got == 'accept') == want and not got.startswith('other')
                        if ok and got == 'accept':
                            ok = res[1] == (deliv if pos == 'nested' else (deliv[0], None))
                        if not ok:
                            check.fail('C05|xml-name-clash|%s|min_occurs=%d,%d|%s|%s' % (shape, emin, amin, proto, pos),
                                       'element member %r (min_occurs=%d), attribute member %r (min_occurs=%d), request %s over %s at %s: '
                                       'expected %s, got %r' % (en, emin, an, amin, body.decode(), proto, pos,
                                                               'accept with %r' % ((deliv if pos == 'nested' else (deliv[0], None)),) if want else 'reject', res),
                                       {'family': 'xml-name-clash', 'body': body.decode(), 'protocol': proto, 'element': en, 'attribute': an,
                                        'element_min_occurs': emin, 'attribute_min_occurs': amin})
    check.sample({'family': 'element / attribute name clash', 'names': names[:4], 'protocols': ['xml', 'soap11']})


def run(check):
    check.rule = ('generated one-argument services around each type under test (every fixed-width integer class, '
                  'arbitrary-size integers, Unicode, Decimal, Double, Boolean, DateTime, Date, Time, Duration, Uuid, Enum with '
                  'customised range / length / pattern / enumeration / nillable / occurrence facets), values on/inside/outside '
                  'every boundary in their canonical wire form and in the alternative document forms (byte strings, numbers '
                  'for text-encoded types and the reverse, native YAML timestamps, lists), null and absent, at top-level / '
                  'nested field / array member / XML attribute / array-valued and object-valued member, through XmlDocument, '
                  'Soap11, JsonDocument, YamlDocument, MessagePackDocument (ServerBase) and HttpRpc (WSGI GET); a case is '
                  'distinct by (family, type, facets, value or shape, protocol, position)')
    check.trusted = list(lib.COMMON_TRUSTED) + [
        'translator harness/translate/numtypes.py (validate_native / validate_string of the number models -> Gen/NumTypes.v)',
        'translator harness/translate/facettypes.py (validate_string / validate_native of ModelBase, SimpleModel, Unicode, '
        'DateTime, Time and re_match_with_span -> Gen/FacetTypes.v; the statement shapes it pins: the naive-value rule of '
        'DateTime.validate_native and the fullmatch branch of re_match_with_span)',
        'translator harness/translate/c05steps.py (statement-by-statement: the xsi:nil block of XmlDocument.from_element, '
        '_get_xsi_target, EnumBase.validate_string, enum_base_from_bytes, enum_from_element; and what Decimal() is applied to in '
        'decimal_from_unicode when the document carries a number -> Gen/C05Steps.v)',
        'the Decimal() / str(Decimal) model of coq/Wire/Decimal.v with its round-trip lemma (C02) as the reader of the Decimal paths',
        'the Python reference predicates ref_conforms_* and the expectation tables of harness/c05.py (the specification as '
        'used by the direct oracle); lxml XMLSchema as the judge of lexical validity',
        'the date/time readers and printers of coq/C08/DtModel.v (tied and proved by C08) as the from_unicode of the date/time paths',
    ]
    check.assumptions = [
        'the regular expression engine is the oracle fullm of the Unicode theorems (re.Pattern.fullmatch); its answers travel '
        'in the correspondence cases',
        'Unicode attributes encoding / format / cast / empty_is_none are at their defaults in the modelled paths (the '
        'translator checks the class defaults)',
        'range bounds of DateTime are timezone-aware as the documentation demands (a naive bound raises TypeError in Python); '
        'UTC offsets are whole minutes; spyne.LOCAL_TZ has a fixed offset (read by the translator)',
        'C05_decimal_number_is_text assumes CPython\'s shortest repr: str() of the float a sender writes for a decimal of at most '
        '15 significant digits denotes that decimal (the oracle only sends numbers for which D(repr(float(text))) == D(text)); '
        'Decimal literals with underscores, NaN and Infinity are outside the Decimal() model (they are refused by the code and '
        'exercised by the oracle)',
        'xsi_target is proved over an abstract description of the class pair (same original class, complex / array, subclass, '
        'names); the correspondence computes that description from real classes',
        'Double ranges, Boolean, Duration, Uuid and the alternative document forms are decided by the '
        'direct oracle only; Decimal total_digits / fraction_digits are not part of the property text and are not checked',
        'HttpRpc is driven through WSGI GET query strings only (werkzeug is absent: no form bodies)']
    check.regen(['numtypes', 'facettypes', 'c05steps'])
    check.check_sources()
    check.prove('Props.C05', THEOREMS)
    family_leaf_corr(check, check.tier)
    family_text_corr(check, check.tier)
    family_range_corr(check, check.tier)
    family_step_corr(check, check.tier)
    family_int_e2e(check, check.tier)
    family_text_e2e(check, check.tier)
    family_occurs(check, check.tier)
    family_occurs_single(check, check.tier)
    family_datetime_range(check, check.tier)
    family_lexical(check, check.tier)
    family_forms(check, check.tier)
    family_null(check, check.tier)
    family_array_occurs(check, check.tier)
    family_null_members(check, check.tier)
    family_decimal_bounds(check, check.tier)
    family_enum(check, check.tier)
    family_xsi_type(check, check.tier)
    family_null_default(check, check.tier)
    family_xml_name_clash(check, check.tier)
    family_member_freq_corr(check, check.tier)
    lib.flush_correspondences(check)
    return check.finish()


def replay(check, path):
    r = json.load(open(path))
    print(json.dumps(r, indent=1))
    rp = r.get('replay', {})
    if 'type_expr' in rp and 'payload' in rp:
        # families forms / null / array-occurs: the type, the array and the request are expressions over ns()
        T = mk_type(rp['type_expr'])
        h = Harness(T, array=mk_type(rp['array_expr']) if rp.get('array_expr') else None,
                    extra_types=[mk_type(e) for e in rp.get('extra_types', [])], xml_kwargs=rp.get('xml_kwargs'))
        payload = eval(rp['payload'], dict(ns()))
        print('now:', h.run(rp['protocol'], rp['position'], payload))
    elif 'protocol' in rp and 'class' in rp:
        import spyne.model.primitive.number as P
        T = getattr(P, rp['class'])
        if rp.get('attrs'):
            T = T.customize(**rp['attrs'])
        h = Harness(T)
        if rp.get('form') in ('null', 'absent'):
            payload = (rp['form'],)
        else:
            payload = ('items', [rp['value']]) if rp['position'] == 'arr' else ('val', rp['value'])
        print('now:', h.run(rp['protocol'], rp['position'], payload))
    elif 'attrs' in rp and 'value' in rp and 'protocol' in rp:
        from spyne.model.primitive import Unicode
        h = Harness(Unicode.customize(**rp['attrs']))
        payload = ('items', [rp['value']]) if rp['position'] == 'arr' else ('val', rp['value'])
        print('now:', h.run(rp['protocol'], rp['position'], payload))
    elif 'literal' in rp and ('type' in rp or 'facet' in rp):
        import spyne.model.primitive as P
        if 'facet' in rp:
            import datetime as dtm
            T = P.DateTime.customize(**{rp['facet']: dtm.datetime(2020, 1, 1, tzinfo=dtm.timezone.utc)})
        else:
            T = getattr(P, rp['type'])
        h = Harness(T)
        for proto in ([rp['protocol']] if 'protocol' in rp else rp.get('protocols', ['xml'])):
            print('now (%s):' % proto, h.run(proto, rp.get('position', 'top'), ('val', rp['literal'])))
    elif rp.get('family') == 'xml-name-clash':
        class Rec(object):
            tier = check.tier
            rng = check.rng
            def count(self, *a, **k): pass
            def sample(self, *a, **k): pass
            def fail(self, key, what, replay):
                if key == r.get('key'):
                    print('now:', what)
        family_xml_name_clash(Rec(), check.tier)
    elif rp.get('family') == 'null-member' or 'min_occurs' in rp:
        # these families build their own services: run the family again and show what it reports for this key
        class Rec(object):
            tier = check.tier
            rng = check.rng
            def count(self, *a, **k): pass
            def sample(self, *a, **k): pass
            def fail(self, key, what, replay):
                if key == r.get('key'):
                    print('now:', what)
        rec = Rec()
        if rp.get('family') == 'null-member':
            family_null_members(rec, check.tier)
        elif 'times' in rp:
            family_occurs_single(rec, check.tier)
        else:
            family_occurs(rec, check.tier)
            lib._QUEUE[:] = []
    return 0
