"""C05 — soft validation enforces exactly the declared constraints, identically in every protocol."""
import os, sys, json, re, decimal
from io import BytesIO
from urllib.parse import quote
import lib
from lib import gz, gtext, glist, gbool, gopt
from c08 import observe, gout

THEOREMS = ['C05_bounded_native_is_spec', 'C05_integer_native_is_spec', 'C05_unsigned_native_is_spec',
            'C05_none_native_is_spec', 'C05_text_leaf_spec', 'C05_leaf_verdicts_agree', 'C05_text_leaf_total',
            'C05_freq_verdicts_agree', 'C05_dict_freq_spec']

INT_CLASSES = {'Integer8': (True, 8), 'Integer16': (True, 16), 'Integer32': (True, 32), 'Integer64': (True, 64),
               'UnsignedInteger8': (False, 8), 'UnsignedInteger16': (False, 16), 'UnsignedInteger32': (False, 32),
               'UnsignedInteger64': (False, 64), 'Integer': None, 'UnsignedInteger': (False, None)}
TNS = 'tns'
XSI = 'http://www.w3.org/2001/XMLSchema-instance'
PROTOS = ('xml', 'soap11', 'json', 'yaml', 'msgpack', 'http')


def hw_bounds(cn):
    b = INT_CLASSES[cn]
    if b is None:
        return None, None
    signed, bits = b
    if bits is None:
        return 0, None
    return (-(2 ** (bits - 1)), 2 ** (bits - 1) - 1) if signed else (0, 2 ** bits - 1)


def ref_conforms_int(cn, kw, z):
    """the specification, written independently of the Coq text"""
    lo, hi = hw_bounds(cn)
    if lo is not None and z < lo:
        return False
    if hi is not None and z > hi:
        return False
    if 'ge' in kw and not z >= kw['ge']:
        return False
    if 'gt' in kw and not z > kw['gt']:
        return False
    if 'le' in kw and not z <= kw['le']:
        return False
    if 'lt' in kw and not z < kw['lt']:
        return False
    if kw.get('values') and z not in kw['values']:
        return False
    return True


def ref_conforms_text(kw, s):
    if len(s) < kw.get('min_len', 0):
        return False
    if 'max_len' in kw and len(s) > kw['max_len']:
        return False
    if 'pattern' in kw and re.fullmatch(kw['pattern'], s) is None:
        return False
    if kw.get('values') and s not in kw['values']:
        return False
    return True


def g_ext(v):
    if v is None:
        raise ValueError
    if v == decimal.Decimal('inf') or v == float('inf'):
        return 'PosInf'
    if v == decimal.Decimal('-inf') or v == float('-inf'):
        return 'NegInf'
    return '(Fin %s)' % gz(int(v))


def g_num_attrs(T):
    A = T.Attributes
    return ('{| na_nillable := %s; na_gt := %s; na_ge := %s; na_lt := %s; na_le := %s; na_values := %s; '
            'na_max_str_len := %s; na_min_bound := %s; na_max_bound := %s |}' % (
                gbool(A.nillable), g_ext(A.gt), g_ext(A.ge), g_ext(A.lt), g_ext(A.le),
                glist([gz(v) for v in sorted(A.values)]), g_ext(A.max_str_len),
                gopt(A.min_bound, gz), gopt(A.max_bound, gz)))


def g_int_type(cn):
    return ('(mk_int_type attrs_%s validate_native_%s validate_native_none_%s validate_string_%s validate_string_none_%s)'
            % ((cn,) * 5))


# ------------------------------------------------------------------ end-to-end driver
class Harness(object):
    """one generated service around the type under test, at every nesting position"""

    def __init__(self, T, multi=None):
        from spyne import Application, rpc, ServiceBase, ComplexModel, Array, Unicode, XmlAttribute
        from spyne.model.complex import ComplexModelMeta
        self.T = T
        self.calls = calls = []
        W = ComplexModelMeta('W', (ComplexModel,), {'__namespace__': TNS, '_type_info': [('v', T)]})
        WA = ComplexModelMeta('WA', (ComplexModel,), {'__namespace__': TNS, '_type_info': [('v', XmlAttribute(T))]})
        M = T.customize(min_occurs=multi[0], max_occurs=multi[1]) if multi else T.customize(max_occurs=3)
        WM = ComplexModelMeta('WM', (ComplexModel,), {'__namespace__': TNS, '_type_info': [('v', M)]})

        class S(ServiceBase):
            @rpc(T, _returns=Unicode)
            def top(ctx, x):
                calls.append(('top', x)); return 'ok'

            @rpc(W, _returns=Unicode)
            def nested(ctx, x):
                calls.append(('nested', None if x is None else x.v)); return 'ok'

            @rpc(Array(T), _returns=Unicode)
            def arr(ctx, x):
                calls.append(('arr', None if x is None else list(x))); return 'ok'

            @rpc(WA, _returns=Unicode)
            def att(ctx, x):
                calls.append(('att', None if x is None else x.v)); return 'ok'

            @rpc(M, _returns=Unicode)
            def multi(ctx, x):
                calls.append(('multi', None if x is None else list(x))); return 'ok'

            @rpc(WM, _returns=Unicode)
            def nmulti(ctx, x):
                calls.append(('nmulti', None if x is None or x.v is None else list(x.v))); return 'ok'
        self.S = S
        self.apps = {}
        self.member_tag = Array(T)._type_info.keys().__iter__().__next__() if False else None

    def app(self, proto):
        from spyne import Application
        from spyne.protocol.xml import XmlDocument
        from spyne.protocol.soap import Soap11
        from spyne.protocol.json import JsonDocument
        from spyne.protocol.yaml import YamlDocument
        from spyne.protocol.msgpack import MessagePackDocument
        from spyne.protocol.http import HttpRpc
        if proto not in self.apps:
            inp = {'xml': XmlDocument, 'soap11': Soap11, 'json': JsonDocument, 'yaml': YamlDocument,
                   'msgpack': MessagePackDocument, 'http': HttpRpc}[proto](validator='soft')
            self.apps[proto] = Application([self.S], TNS, in_protocol=inp, out_protocol=JsonDocument())
        return self.apps[proto]

    # ---- wire forms.  A logical request is (method, payload) with payload:
    #   top/nested/att: ('val', text_or_number) | ('null',) | ('absent',)
    #   arr/multi/nmulti: ('items', [text_or_number,...])
    def xml_body(self, meth, payload, soap):
        from lxml import etree
        ns = '{%s}' % TNS
        root = etree.Element(ns + meth, nsmap={None: TNS, 'xsi': XSI})

        def leaf(parent, tag, p):
            if p[0] == 'absent':
                return
            e = etree.SubElement(parent, ns + tag)
            if p[0] == 'null':
                e.set('{%s}nil' % XSI, 'true')
            else:
                e.text = wire_text(p[1])
        if meth == 'top':
            leaf(root, 'x', payload)
        elif meth == 'nested':
            x = etree.SubElement(root, ns + 'x')
            leaf(x, 'v', payload)
        elif meth == 'att':
            x = etree.SubElement(root, ns + 'x')
            if payload[0] == 'val':
                x.set('v', wire_text(payload[1]))
        elif meth == 'arr':
            x = etree.SubElement(root, ns + 'x')
            tag = self.T.get_type_name()
            for it in payload[1]:
                etree.SubElement(x, ns + tag).text = wire_text(it)
        elif meth == 'multi':
            for it in payload[1]:
                etree.SubElement(root, ns + 'x').text = wire_text(it)
        elif meth == 'nmulti':
            x = etree.SubElement(root, ns + 'x')
            for it in payload[1]:
                etree.SubElement(x, ns + 'v').text = wire_text(it)
        if soap:
            env = etree.Element('{http://schemas.xmlsoap.org/soap/envelope/}Envelope')
            body = etree.SubElement(env, '{http://schemas.xmlsoap.org/soap/envelope/}Body')
            body.append(root)
            root = env
        return etree.tostring(root)

    def doc_body(self, meth, payload):
        def leaf(p):
            return None if p[0] == 'null' else p[1]
        if meth == 'top':
            inner = {} if payload[0] == 'absent' else {'x': leaf(payload)}
        elif meth == 'nested':
            inner = {'x': ({} if payload[0] == 'absent' else {'v': leaf(payload)})}
        elif meth in ('arr', 'multi'):
            inner = {'x': list(payload[1])}
        elif meth == 'nmulti':
            inner = {'x': {'v': list(payload[1])}}
        else:
            return None
        return {meth: inner}

    def http_qs(self, meth, payload):
        if meth == 'top':
            return '' if payload[0] == 'absent' else ('x=' + quote(wire_text(payload[1])) if payload[0] == 'val' else None)
        if meth == 'nested':
            return '' if payload[0] == 'absent' else ('x.v=' + quote(wire_text(payload[1])) if payload[0] == 'val' else None)
        if meth in ('arr', 'multi'):
            return '&'.join('x=' + quote(wire_text(i)) for i in payload[1])
        if meth == 'nmulti':
            return '&'.join('x.v=' + quote(wire_text(i)) for i in payload[1])
        return None

    def run(self, proto, meth, payload):
        """-> ('called', value) | ('fault', code) | ('crash', exc type) | None when the position has no wire form"""
        from spyne.server import ServerBase
        from spyne.server.wsgi import WsgiApplication
        from spyne.context import MethodContext
        del self.calls[:]
        try:
            if proto == 'http':
                qs = self.http_qs(meth, payload)
                if qs is None:
                    return None
                w = WsgiApplication(self.app(proto))
                st = []
                env = {'REQUEST_METHOD': 'GET', 'PATH_INFO': '/' + meth, 'QUERY_STRING': qs, 'SERVER_NAME': 'x',
                       'SERVER_PORT': '80', 'wsgi.url_scheme': 'http', 'wsgi.input': BytesIO(b''), 'SCRIPT_NAME': ''}
                out = b''.join(w(env, lambda s, h, e=None: st.append(s)))
                if self.calls:
                    return ('called', self.calls[0][1])
                try:
                    return ('fault', json.loads(out.decode('utf8')).get('faultcode'))
                except Exception:
                    return ('fault', 'status ' + st[0] if st else '?')
            if proto in ('xml', 'soap11'):
                body = self.xml_body(meth, payload, proto == 'soap11')
            else:
                d = self.doc_body(meth, payload)
                if d is None:
                    return None
                if proto == 'json':
                    body = json.dumps(d).encode()
                elif proto == 'yaml':
                    import yaml
                    body = yaml.safe_dump(d).encode()
                else:
                    import msgpack
                    (k, v), = d.items()
                    # documented convention: integers msgpack cannot carry (outside -2^63 .. 2^64-1) travel as text
                    body = msgpack.packb({k.encode(): mp_big(v)})
            srv = ServerBase(self.app(proto))
            ctx = MethodContext(srv, MethodContext.SERVER)
            ctx.in_string = [body]
            ctx, = srv.generate_contexts(ctx)
            if ctx.in_error:
                return ('fault', ctx.in_error.faultcode)
            srv.get_in_object(ctx)
            if ctx.in_error:
                return ('fault', ctx.in_error.faultcode)
            srv.get_out_object(ctx)
            if ctx.out_error:
                return ('fault', ctx.out_error.faultcode)
            if self.calls:
                return ('called', self.calls[0][1])
            return ('fault', 'not called')
        except Exception as e:
            return ('crash', type(e).__name__)


def mp_big(v):
    if isinstance(v, dict):
        return {k: mp_big(x) for k, x in v.items()}
    if isinstance(v, list):
        return [mp_big(x) for x in v]
    if isinstance(v, int) and not isinstance(v, bool) and not (-2 ** 63 <= v < 2 ** 64):
        return str(v)
    return v


def wire_text(v):
    if isinstance(v, bool):
        return 'true' if v else 'false'
    return str(v)


def int_type_cases(check, tier):
    """(class name, kwargs)"""
    rng = check.rng
    cases = [(cn, {}) for cn in INT_CLASSES]
    cases += [('Integer8', {'ge': -5, 'le': 5}), ('Integer8', {'gt': -5, 'lt': 5}), ('Integer', {'ge': 0, 'lt': 100}),
              ('Integer32', {'values': [1, 5, 7]}), ('UnsignedInteger16', {'le': 1000}), ('Integer', {'gt': 10 ** 20}),
              ('Integer16', {'ge': 10, 'gt': 12, 'le': 20, 'lt': 19}), ('Integer64', {'le': -1}),
              ('Integer8', {'nillable': False}), ('Integer', {'nillable': False, 'min_occurs': 1}),
              ('Integer32', {'min_occurs': 1})]
    n = 4 if tier == 'quick' else 40
    for _ in range(n):
        cn = rng.choice(list(INT_CLASSES))
        lo, hi = hw_bounds(cn)
        lo = -10 ** 6 if lo is None else lo
        hi = 10 ** 6 if hi is None else hi
        kw = {}
        a, b = sorted([rng.randint(lo, hi), rng.randint(lo, hi)])
        if rng.random() < .5:
            kw[rng.choice(['ge', 'gt'])] = a
        if rng.random() < .5:
            kw[rng.choice(['le', 'lt'])] = b
        if rng.random() < .2:
            kw['values'] = sorted(set(rng.randint(lo, hi) for _ in range(3)))
        if rng.random() < .3:
            kw['nillable'] = False
        if rng.random() < .3:
            kw['min_occurs'] = 1
        cases.append((cn, kw))
    return cases


def int_probe_values(cn, kw, rng, n_rand=4):
    lo, hi = hw_bounds(cn)
    vals = set([0, 1, -1])
    for b in (lo, hi, kw.get('ge'), kw.get('gt'), kw.get('le'), kw.get('lt')):
        if b is not None:
            vals.update([b - 1, b, b + 1])
    for v in kw.get('values', []):
        vals.update([v - 1, v, v + 1])
    for _ in range(n_rand):
        vals.add(rng.randint(-2 ** 70, 2 ** 70) if lo is None and hi is None else rng.randint((lo or 0) - 3, (hi or 2 ** 70) + 3))
    return sorted(vals)


def classify(res):
    if res is None:
        return None
    if res[0] == 'called':
        return 'accept'
    if res[0] == 'fault' and isinstance(res[1], str) and res[1].startswith('Client.ValidationError'):
        return 'reject'
    return 'other:%s' % (res[1],)


def family_int_e2e(check, tier):
    import spyne.model.primitive.number as P
    rng = check.rng
    positions = ('top', 'nested', 'arr', 'att')
    for cn, kw in int_type_cases(check, tier):
        T = getattr(P, cn)
        if kw:
            T = T.customize(**kw)
        h = Harness(T)
        nill = kw.get('nillable', True)
        mino = kw.get('min_occurs', 0)
        vals = int_probe_values(cn, kw, rng, 3 if tier == 'quick' else 12)
        if tier == 'thorough' and not kw:
            # exhaustive sweeps that validate the model: every value around the 8-bit types, a
            # dense sweep around the 16-bit ones (the theorem covers all widths)
            if cn in ('Integer8', 'UnsignedInteger8'):
                vals = sorted(set(vals) | set(range(-300, 301)))
            elif cn in ('Integer16', 'UnsignedInteger16'):
                vals = sorted(set(vals) | set(range(-33100, -32400)) | set(range(32400, 33100)) | set(range(65200, 65800)))
        if len(vals) > 14 and tier == 'quick':
            vals = sorted(set(vals[:5] + vals[-5:] + rng.sample(vals, 4)))
        for z in vals:
            want = ref_conforms_int(cn, kw, z)
            if len(str(z)) > 1000:
                continue
            for proto in PROTOS:
                for pos in positions:
                    if pos == 'att' and proto not in ('xml', 'soap11'):
                        continue
                    payload = ('items', [z]) if pos == 'arr' else ('val', z)
                    res = h.run(proto, pos, payload)
                    got = classify(res)
                    if got is None:
                        continue
                    check.count(('int', cn, tuple(sorted((k, str(v)) for k, v in kw.items())), z, proto, pos))
                    ok = (got == 'accept') == want and not got.startswith('other')
                    if ok and got == 'accept':
                        delivered = res[1][0] if pos == 'arr' else res[1]
                        ok = delivered == z
                    if not ok:
                        facet = violated_facet(cn, kw, z)
                        check.fail('C05|int|%s|%s|%s|%s' % (cn if not kw else cn + '+' + '+'.join(sorted(kw)), facet, proto, pos),
                                   '%s%r value %d over %s at %s: expected %s, got %r' % (cn, kw, z, proto, pos,
                                                                                      'accept' if want else 'reject', res),
                                   {'class': cn, 'attrs': kw, 'value': z, 'protocol': proto, 'position': pos})
        # None: explicit null is accepted iff nillable; absent iff min_occurs == 0
        for proto in PROTOS:
            for pos in ('top', 'nested'):
                for form, want in ((('null',), nill), (('absent',), mino == 0)):
                    if proto == 'http' and pos == 'nested':
                        continue   # the flat form cannot say "x present, x.v absent": x itself would be absent
                    res = h.run(proto, pos, form)
                    got = classify(res)
                    if got is None:
                        continue
                    check.count(('none', cn, str(kw), proto, pos, form))
                    if (got == 'accept') != want or got.startswith('other') or (got == 'accept' and res[1] is not None):
                        check.fail('C05|none|%s|%s|%s|nillable=%s,min_occurs=%s' % (form[0], proto, pos, nill, mino),
                                   '%s%r %s over %s at %s: expected %s, got %r' % (cn, kw, form[0], proto, pos,
                                                                                'accept' if want else 'reject', res),
                                   {'class': cn, 'attrs': kw, 'form': form[0], 'protocol': proto, 'position': pos})
    check.sample({'family': 'int-e2e', 'protocols': PROTOS, 'positions': positions,
                  'example': ['Integer8', {'ge': -5, 'le': 5}, [-129, -128, -6, -5, 5, 6, 127, 128]]})


def violated_facet(cn, kw, z):
    lo, hi = hw_bounds(cn)
    if (lo is not None and z < lo) or (hi is not None and z > hi):
        return 'hw-bound'
    for f in ('ge', 'gt', 'le', 'lt'):
        if f in kw and not ref_conforms_int(cn, {f: kw[f]}, z):
            return f
    if kw.get('values') and z not in kw['values']:
        return 'values'
    return 'conforming'


def family_text_e2e(check, tier):
    from spyne.model.primitive import Unicode
    rng = check.rng
    tcases = [{'min_len': 2}, {'max_len': 3}, {'min_len': 1, 'max_len': 4}, {'pattern': '[a-z]+'}, {'pattern': 'a|ab'},
              {'pattern': '\\d{3}'}, {'values': ['red', 'green']}, {'min_len': 2, 'pattern': '[ab]*'}]
    probes = ['', 'a', 'ab', 'abc', 'abcd', 'abcde', 'red', 'Red', 'green', 'abc1', '123', '1234', '12', 'ab\n', 'aab', 'b', 'ünï']
    for kw in tcases:
        T = Unicode.customize(**kw)
        h = Harness(T)
        for s in probes:
            want = ref_conforms_text(kw, s)
            for proto in PROTOS:
                for pos in ('top', 'nested', 'arr', 'att'):
                    if pos == 'att' and proto not in ('xml', 'soap11'):
                        continue
                    if s == '' and proto in ('xml', 'soap11', 'http'):
                        continue     # an empty element / empty query value is not distinguishable from absent text
                    payload = ('items', [s]) if pos == 'arr' else ('val', s)
                    res = h.run(proto, pos, payload)
                    got = classify(res)
                    if got is None:
                        continue
                    check.count(('text', str(kw), s, proto, pos))
                    ok = (got == 'accept') == want and not got.startswith('other')
                    if ok and got == 'accept':
                        delivered = res[1][0] if pos == 'arr' else res[1]
                        ok = delivered == s
                    if not ok:
                        check.fail('C05|text|%s|%s|%s' % ('+'.join(sorted(kw)), proto, pos),
                                   'Unicode%r value %r over %s at %s: expected %s, got %r' % (
                                       kw, s, proto, pos, 'accept' if want else 'reject', res),
                                   {'attrs': kw, 'value': s, 'protocol': proto, 'position': pos})
    check.sample({'family': 'text-e2e', 'types': tcases[:3], 'probes': probes[:6]})


def family_occurs(check, tier):
    """occurrence counts 0..bound against (min_occurs, max_occurs), all protocols, top-level and nested;
    also the correspondence of xml_freq / dict_freq with the implementation"""
    from spyne.model.primitive import Integer
    bounds = [(0, 1), (0, 2), (1, 2), (2, 3), (0, 'unbounded'), (1, 'unbounded'), (2, 2)]
    hi = 5 if check.tier == 'quick' else 9
    imports = 'From SpyneV Require Import Base.Prelude Base.Ext C05.Valid.'
    xc, dc = [], []
    for mn, mx in bounds:
        h = Harness(Integer, multi=(mn, mx))
        for n in range(0, hi):
            want = n >= mn and (mx == 'unbounded' or n <= mx)
            for proto in PROTOS:
                for pos in ('multi', 'nmulti'):
                    if mx == 1:
                        continue
                    if proto == 'http' and pos == 'nmulti' and n == 0:
                        continue   # no pairs at all: the enclosing object itself is absent in the flat form
                    res = h.run(proto, pos, ('items', list(range(n))))
                    got = classify(res)
                    if got is None:
                        continue
                    check.count(('occ', mn, mx, n, proto, pos))
                    ok = (got == 'accept') == want and not got.startswith('other')
                    if ok and got == 'accept':
                        ok = (res[1] or []) == list(range(n))
                    if not ok:
                        check.fail('C05|occurs|%s|%s|%s' % (proto, pos, 'over-max' if (mx != 'unbounded' and n > mx) else
                                                            'under-min' if n < mn else 'conforming'),
                                   'min_occurs=%s max_occurs=%s with %d items over %s at %s: expected %s, got %r' % (
                                       mn, mx, n, proto, pos, 'accept' if want else 'reject', res),
                                   {'min_occurs': mn, 'max_occurs': mx, 'items': n, 'protocol': proto, 'position': pos})
                    if pos == 'multi' and proto in ('xml', 'json') and not got.startswith('other'):
                        decl = '[([120], %s, %s)]' % (gz(mn), 'PosInf' if mx == 'unbounded' else '(Fin %s)' % gz(mx))
                        if proto == 'xml':
                            xc.append(('(%s, %s, %s)' % (decl, glist(['[120]'] * n), gbool(got == 'accept')),
                                       'xml %s..%s n=%d -> %s' % (mn, mx, n, got)))
                        else:
                            dc.append(('(%s, [([120], %s)], %s)' % (decl, gz(n), gbool(got == 'accept')),
                                       'json %s..%s n=%d -> %s' % (mn, mx, n, got)))
    lib.correspond(check, 'xml_freq', imports, 'list occ_decl * list text * bool',
                   "(fun c => match c with (d, ch, r) => Bool.eqb (xml_freq d ch) r end)", xc)
    lib.correspond(check, 'dict_freq', imports, 'list occ_decl * list (text * Z) * bool',
                   "(fun c => match c with (d, it, r) => Bool.eqb (dict_freq d it) r end)", dc)
    check.sample({'family': 'occurrence', 'bounds': bounds, 'counts': [0, hi - 1]})


def family_leaf_corr(check, tier):
    """text_leaf / num_leaf (Coq, over the generated validation functions) against the real
    XmlDocument.from_element and JsonDocument._from_dict_value for customised types"""
    import spyne.model.primitive.number as P
    from spyne.protocol.xml import XmlDocument
    from spyne.protocol.json import JsonDocument
    from lxml import etree
    rng = check.rng
    xml = XmlDocument(validator='soft')
    js = JsonDocument(validator='soft')
    imports = ('From SpyneV Require Import Base.Prelude Base.Digits Base.Ext C08.IntModel C05.Valid Gen.NumTypes.\n'
               'Definition ozeqb (a b : option Z) := match a, b with Some x, Some y => Z.eqb x y | None, None => true | _, _ => false end.\n'
               'Definition oout_eqb := out_eqb ozeqb.')
    tc, nc = [], []
    for cn, kw in int_type_cases(check, tier):
        if cn not in INT_CLASSES or INT_CLASSES[cn] is None and cn != 'Integer':
            continue
        if cn in ('Integer', 'UnsignedInteger'):
            gT = 'class_%s' % cn
        else:
            gT = g_int_type(cn)
        T = getattr(P, cn)
        if kw:
            T = T.customize(**{k: v for k, v in kw.items()})
        ga = g_num_attrs(T)
        texts = [str(v) for v in int_probe_values(cn, kw, rng, 3)] + ['', 'abc', '+5', ' 5', '007', '1_0', '5.0', '٣']
        texts = [t for t in texts if all(ord(c) < 128 for c in t)]
        for s in texts + [None]:
            el = etree.Element('x')
            el.text = s if s != '' else None
            src = None if (s is None or s == '') else s
            o = observe(xml.from_element, None, T, el)
            g = gout(o, lambda v: gopt(v, gz))
            tc.append(('(%s, %s, %s, %s)' % (gT, ga, gopt(src, gtext), g), 'xml %s%r text=%r -> %r' % (cn, kw, s, o)))
            check.count(('tleaf', cn, str(kw), s))
        for z in int_probe_values(cn, kw, rng, 3) + [None]:
            o = observe(js._from_dict_value, None, 'k', T, z, js.validator)
            if o[0] == 'ok' and o[1] is not None and not isinstance(o[1], int):
                continue
            g = gout(o, lambda v: gopt(v, gz))
            nc.append(('(%s, %s, %s, %s)' % (gT, ga, gopt(z, gz), g), 'json %s%r value=%r -> %r' % (cn, kw, z, o)))
            check.count(('nleaf', cn, str(kw), z))
    lib.correspond(check, 'text_leaf', imports, 'int_type * num_attrs * option text * out (option Z)',
                   '(fun c => match c with (T, a, s, r) => oout_eqb (text_leaf T a s) r end)', tc,
                   show='(fun c : int_type * num_attrs * option text * out (option Z) => match c with (T, a, s, r) => text_leaf T a s end)')
    lib.correspond(check, 'num_leaf', imports, 'int_type * num_attrs * option Z * out (option Z)',
                   '(fun c => match c with (T, a, s, r) => oout_eqb (num_leaf T a s) r end)', nc,
                   show='(fun c : int_type * num_attrs * option Z * out (option Z) => match c with (T, a, s, r) => num_leaf T a s end)')


LEX = {
    'DateTime': ('dateTime', ['2020-01-01T00:00:00', '2020-01-01T00:00:00Z', '2020-01-01T00:00:00+02:00', '2020-01-01T00:00:00.5Z',
                              '2020-01-01T00:00:00-04:49', '2020-01-01T00:00:00Zjunk', '2020-01-01T00:00:00+02:00x',
                              '2020-01-01T00:00:00 ', '2020-01-01T00:00:00+0200', '2020-01-01', 'abc', '2020-01-01T00:00',
                              '2020-1-01T00:00:00', '20-01-01T00:00:00Z']),
    'Date': ('date', ['2020-01-05', '2020-01-05Z', '2020-01-05+02:00', '2020-01-05junk', '2020-01-05Zjunk', '2020-1-5',
                      '2020-01-5', 'abc', '2020-01', '05-01-2020']),
    'Time': ('time', ['12:00:00', '12:00:00.5', '23:59:59.999999', '12:00:00junk', '12:00', 'abc', '1:00:00', '12:00:00.']),
    'Duration': ('duration', ['P1D', 'PT1S', 'PT0.5S', '-P1DT2H', 'P1Djunk', 'PT1x5S', 'PT', 'P', 'xyz', 'P1S', 'PT1D', '1D', 'P1DT']),
    'Boolean': ('boolean', ['true', 'false', '1', '0', 'maybe', 'yes', '2', 'TRUE', 'tru', 'truex']),
    'Integer': ('integer', ['5', '-5', '+5', '007', '5x', '5.0', '1e3', '0x10', 'abc', '1_0', '--5']),
}

def lex_shape(tn, lit):
    """what kind of ill-formedness: used in finding keys"""
    import re as _re
    if tn == 'Boolean':
        return 'unknown-literal-read-as-false' if lit.lower() not in ('true', '1') else 'case-insensitive-true'
    pre = {'DateTime': r'\d{4}-\d{2}-\d{2}[T ]\d{2}:\d{2}:\d{2}(\.\d+)?(Z|[+-]\d{2}:\d{2})?',
           'Date': r'\d{4}-\d{2}-\d{2}(Z|[+-]\d{2}:\d{2})?', 'Time': r'\d{2}:\d{2}:\d{2}(\.\d+)?',
           'Duration': r'-?P(\d+Y)?(\d+M)?(\d+D)?(T(\d+H)?(\d+M)?(\d+(\.\d+)?S)?)?'}.get(tn)
    if pre:
        m = _re.match(pre, lit)
        if m and m.end() < len(lit) and m.end() > 0:
            return 'trailing-junk-after-valid-prefix'
        if tn == 'Date' and _re.fullmatch(r'\d{4}-\d{1,2}-\d{1,2}', lit):
            return 'one-digit-month-or-day'
        if tn == 'Duration' and m and m.end() == len(lit):
            return 'degenerate-duration-without-components'
    if tn == 'Integer' and _re.fullmatch(r'[+-]?\d+(_\d+)+', lit):
        return 'underscore-digit-separator'
    return 'literal:' + lit

def family_lexical(check, tier):
    """lexical well-formedness: a literal is accepted iff it is in the XSD lexical space of the type
    (lxml's XMLSchema is the independent judge), over the text protocols"""
    import spyne.model.primitive as P
    from c08 import xsd_ok
    for tn, (xs, lits) in LEX.items():
        T = getattr(P, tn)
        h = Harness(T)
        for lit in lits:
            want = xsd_ok(xs, lit)
            for proto in ('xml', 'soap11', 'http'):
                for pos in ('top', 'nested'):
                    res = h.run(proto, pos, ('val', lit))
                    got = classify(res)
                    if got is None:
                        continue
                    check.count(('lex', tn, lit, proto, pos))
                    if got.startswith('other') or (got == 'accept') != want:
                        check.fail('C05|lexical|%s|%s' % (tn, lex_shape(tn, lit)),
                                   '%s literal %r (%s per XSD) over %s at %s: got %r' % (
                                       tn, lit, 'valid' if want else 'invalid', proto, pos, res),
                                   {'type': tn, 'literal': lit, 'protocol': proto, 'position': pos})
    # xsi:nil="false"/"0" does not null an element
    import spyne.model.primitive.number as N
    h = Harness(N.Integer)
    from lxml import etree
    for nilv in ('false', '0'):
        for pos in ('top', 'nested'):
            body = h.xml_body(pos, ('val', 5), False)
            root = etree.fromstring(body)
            leafs = [e for e in root.iter() if e.text == '5']
            leafs[0].set('{%s}nil' % XSI, nilv)
            from spyne.server import ServerBase
            from spyne.context import MethodContext
            del h.calls[:]
            srv = ServerBase(h.app('xml'))
            ctx = MethodContext(srv, MethodContext.SERVER)
            ctx.in_string = [etree.tostring(root)]
            ctx, = srv.generate_contexts(ctx)
            srv.get_in_object(ctx)
            if not ctx.in_error:
                srv.get_out_object(ctx)
            check.count(('nilfalse', nilv, pos))
            if not h.calls or h.calls[0][1] != 5:
                check.fail('C05|xsi-nil-false|xml|%s' % pos, 'element with xsi:nil=%r and content 5 delivered as %r' % (
                    nilv, h.calls[0][1] if h.calls else ctx.in_error), {'nil': nilv, 'position': pos})
    check.sample({'family': 'lexical', 'DateTime': LEX['DateTime'][1][4:8]})


def run(check):
    check.rule = ('generated one-argument services around each type under test (every fixed-width integer class, '
                  'arbitrary-size integers, customised range/enumeration/nillable facets, Unicode length/pattern/values, '
                  'occurrence bounds), values on/inside/outside every boundary, at top-level / nested field / array member / '
                  'XML attribute, through XmlDocument, Soap11, JsonDocument, YamlDocument, MessagePackDocument (ServerBase) and '
                  'HttpRpc (WSGI GET); a case is distinct by (type, facets, value, protocol, position)')
    check.trusted = list(lib.COMMON_TRUSTED) + [
        'translator harness/translate/numtypes.py (validate_native / validate_string of the number models -> Gen/NumTypes.v)',
        'the Python reference predicate ref_conforms_* in harness/c05.py (the specification as used by the direct oracle)',
    ]
    check.assumptions = ['date/time range facets and Decimal digit facets are exercised by the oracle only where listed; '
                         'the theorems cover the integer family, None handling and occurrence counting',
                         'patterns are compared against Python re.fullmatch (Spyne uses match + span == whole string)']
    check.regen(['numtypes'])
    check.check_sources()
    check.prove('Props.C05', THEOREMS)
    family_leaf_corr(check, check.tier)
    family_int_e2e(check, check.tier)
    family_text_e2e(check, check.tier)
    family_occurs(check, check.tier)
    family_lexical(check, check.tier)
    lib.flush_correspondences(check)
    return check.finish()


def replay(check, path):
    r = json.load(open(path))
    print(json.dumps(r, indent=1))
    rp = r.get('replay', {})
    if 'protocol' in rp and 'class' in rp:
        import spyne.model.primitive.number as P
        T = getattr(P, rp['class'])
        if rp.get('attrs'):
            T = T.customize(**rp['attrs'])
        h = Harness(T)
        payload = ('items', [rp['value']]) if rp['position'] == 'arr' else ('val', rp['value'])
        print('now:', h.run(rp['protocol'], rp['position'], payload))
    return 0
