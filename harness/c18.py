"""C18 — calling a method through NullServer behaves like calling it over the wire.

Generated services (type universe + method declarations over every body style) are built as real
Spyne services and driven three ways: through NullServer, through the ServerBase pipeline behind
XmlDocument / Soap11 / JsonDocument with requests written and replies decoded by this harness (a
foreign client), and through the Coq model (C18/Model.v) by vm_compute.  See run() for the parts.
"""
import os, sys, json, re, copy, traceback
from lxml import etree
import lib
from lib import gz, gtext, glist, gbool, gopt
import universe as UV

TNS = 'urn:t'
NS = '{%s}' % TNS
XSI = 'http://www.w3.org/2001/XMLSchema-instance'
SOAPENV = 'http://schemas.xmlsoap.org/soap/envelope/'
PROTOS = ('xml', 'soap', 'json')
G_PROTO = {'xml': 'PXml', 'soap': 'PSoap', 'json': 'PHier'}
EVENT_NAMES = ('method_call', 'method_return_object', 'method_exception_object', 'method_context_closed',
               'method_return_document', 'method_return_string', 'method_exception_document',
               'method_exception_string')
G_EVENT = {'method_call': 'MethodCall', 'method_return_object': 'MethodReturnObject',
           'method_exception_object': 'MethodExceptionObject', 'method_context_closed': 'MethodContextClosed',
           'method_return_document': 'MethodReturnDocument', 'method_return_string': 'MethodReturnString',
           'method_exception_document': 'MethodExceptionDocument', 'method_exception_string': 'MethodExceptionString'}
APP_EVENTS = ('method_call', 'method_return_object', 'method_exception_object')
G_EXN = {'IndexError': 'IndexError', 'TypeError': 'TypeError', 'ValueError': 'ValueError',
         'AttributeError': 'AttributeError', 'KeyError': 'KeyError', 'AssertionError': 'AssertionError'}
STYLE_NAMES = {'BODY_STYLE_WRAPPED': 'BWrapped', 'BODY_STYLE_EMPTY': 'BEmpty', 'BODY_STYLE_BARE': 'BBare',
               'BODY_STYLE_OUT_BARE': 'BOutBare', 'BODY_STYLE_EMPTY_OUT_BARE': 'BEmptyOutBare'}
G_DSTYLE = {'wrapped': 'DWrapped', 'bare': 'DBare', 'out_bare': 'DOutBare'}

THEOREMS = ['C18_decorate_shapes', 'C18_null_eq_wire_partial', 'C18_null_eq_wire_soap',
            'C18_null_eq_wire_xml_when_first', 'C18_hier_bare_request_refuted', 'C18_null_eq_wire_hier_when_sub_name', 'C18_kw_eq_pos', 'C18_ignored',
            'C18_ostr_is_the_wire_response', 'C18_unknown_method', 'C18_null_too_many_args',
            'C18_own_type_info_refuted', 'C18_ignored_empty_tuple_refuted']

IMPORTS = 'From SpyneV Require Import C18.Spec.'

SAFE_TEXT = ['a', 'hello', 'x y', ' lead', 'trail ', '<&>"\'', 'ünï', '中文', '0', 'true', 'None', 'a\nb',
             '\U0001f600', 'null', '[]', '{}']
SAFE_INT = [0, 1, -1, 7, 255, -128, 2 ** 31, -2 ** 31, 2 ** 63 - 1, -2 ** 63, 2 ** 64, 10 ** 30, -10 ** 30]
FAULTS = [('Fault', 'Client.Custom', 'boom'), ('Fault', 'Server.Oops', 'x y'),
          ('InvalidCredentialsError', 'Client.InvalidCredentialsError', 'nope'), ('Fault', 'Client', 'plain client')]


# ------------------------------------------------------------------ generated values
def gen_leaf(rng, p):
    if p == 'int':
        return ('int', rng.choice(SAFE_INT + [rng.randint(-10 ** 6, 10 ** 6)] * 4))
    if p == 'bool':
        return ('bool', rng.random() < 0.5)
    return ('text', rng.choice(SAFE_TEXT + [''.join(rng.choice('abc XYZ09') for _ in range(rng.randint(1, 8))).strip() or 'q'] * 4))


def gen_val(rng, desc, ty, depth=2, none_p=0.15):
    """a value of declared type ty that every wire form carries unchanged: no empty text, no object
    whose fields are all None (sequences may contain None items)"""
    if rng.random() < none_p:
        return ('none',)
    if ty[0] == 'prim':
        return gen_leaf(rng, ty[1])
    if ty[0] == 'arr':
        n = rng.randint(0, 4) if depth > 0 else 0
        # a sequence may have holes: None items travel as xsi:nil elements / JSON nulls and must
        # arrive at their position (every third sequence or so has some)
        hole_p = 0.35 if rng.random() < 0.35 else 0.0
        return ('list', [('none',) if rng.random() < hole_p else gen_val(rng, desc, ty[1], depth - 1, 0.0)
                         for _ in range(n)])
    cid = ty[1]
    fs = UV.flat_fields(desc, cid)
    vals = [gen_val(rng, desc, f['ty'], depth - 1, 0.25 if depth > 0 else 0.6) for f in fs]
    if all(v == ('none',) for v in vals):
        # keep one primitive field set when there is one
        for i, f in enumerate(fs):
            if f['ty'][0] == 'prim':
                vals[i] = gen_leaf(rng, f['ty'][1])
                break
        else:
            for i, f in enumerate(fs):
                if f['ty'][0] == 'arr':
                    vals[i] = ('list', [])
                    break
            else:
                return ('none',)
    return ('obj', cid, vals)


# ------------------------------------------------------------------ generated services
def gen_ty(rng, desc, prim_p=0.5):
    n = len(desc['classes'])
    r = rng.random()
    if r < prim_p:
        return ('prim', rng.choice(UV.PRIMS))
    if r < prim_p + 0.3:
        return ('ref', rng.randrange(n))
    inner = ('prim', rng.choice(UV.PRIMS)) if rng.random() < 0.6 else ('ref', rng.randrange(n))
    return ('arr', inner)


def gen_decl(rng, desc, name, style=None):
    style = style or rng.choice(['wrapped'] * 5 + ['bare'] * 4 + ['out_bare'] * 3)
    n = len(desc['classes'])
    if style == 'wrapped':
        params = [('p%d' % i, gen_ty(rng, desc)) for i in range(rng.choice([0, 1, 1, 2, 2, 3, 4]))]
        r = rng.random()
        if r < 0.2:
            returns = None
        elif r < 0.6:
            returns = gen_ty(rng, desc)
        else:
            returns = [gen_ty(rng, desc) for _ in range(rng.choice([2, 2, 3]))]
    elif style == 'bare':
        r = rng.random()
        if r < 0.15:
            params = []
        elif r < 0.8:
            params = [('k', ('ref', rng.randrange(n)))]
        elif r < 0.9:
            params = [('k', ('prim', rng.choice(UV.PRIMS)))]
        else:
            params = [('k', ('arr', ('prim', rng.choice(UV.PRIMS))))]
        returns = None if rng.random() < 0.25 else (params[0][1] if params and rng.random() < 0.5 else gen_ty(rng, desc))
    else:
        params = [('p%d' % i, gen_ty(rng, desc)) for i in range(rng.choice([0, 1, 1, 2, 3]))]
        returns = None if rng.random() < 0.25 else gen_ty(rng, desc)
    no_ctx = rng.random() < 0.5
    hdr = []
    if rng.random() < 0.25:
        no_ctx = False
        hdr = [rng.randrange(n) for _ in range(rng.choice([1, 1, 2]))]
        if len(set(hdr)) != len(hdr):
            hdr = hdr[:1]
    return {'name': name, 'style': style, 'params': params, 'returns': returns, 'no_ctx': no_ctx, 'hdr': hdr}


def ty_name(desc, ty):
    if ty[0] == 'prim':
        return {'int': 'integer', 'text': 'string', 'bool': 'boolean'}[ty[1]]
    if ty[0] == 'ref':
        return desc['classes'][ty[1]]['name']
    return ty_name(desc, ty[1]) + 'Array'


def ty_is_complex(ty):
    return ty[0] != 'prim'


class Svc(object):
    """one generated service, built as real Spyne classes, with its applications and servers"""

    def __init__(self, idx, desc, decls):
        from spyne import Application, rpc, Service
        from spyne.server.null import NullServer
        from spyne.server import ServerBase
        from spyne.protocol.xml import XmlDocument
        from spyne.protocol.soap import Soap11
        from spyne.protocol.json import JsonDocument
        self.idx, self.desc, self.decls = idx, desc, decls
        self.by_name = dict((d['name'], d) for d in decls)
        self.classes = UV.build_spyne(desc)
        self.log = []
        self.plan = ('ret', ('none',))
        attrs = {}
        for dc in decls:
            attrs[dc['name']] = self._method(dc)
        self.S = type(Service)('Svc%d' % idx, (Service,), attrs)
        self.apps = {'null': Application([self.S], TNS)}
        prot = {'xml': XmlDocument, 'soap': Soap11, 'json': JsonDocument}
        for p in PROTOS:
            self.apps[p] = Application([self.S], TNS, in_protocol=prot[p](), out_protocol=prot[p]())
        for a in self.apps.values():
            for n in EVENT_NAMES:
                a.event_manager.add_listener(n, (lambda n: lambda ctx: self.log.append(('ev', n)))(n))
        self.null = NullServer(self.apps['null'])
        self.ostr = dict((p, NullServer(self.apps[p], ostr=True)) for p in PROTOS)
        self.srv = dict((p, ServerBase(self.apps[p])) for p in PROTOS)

    def ty_cls(self, ty):
        from spyne.model.primitive import Integer, Unicode, Boolean
        from spyne.model.complex import Array
        if ty[0] == 'prim':
            return {'int': Integer, 'text': Unicode, 'bool': Boolean}[ty[1]]
        if ty[0] == 'ref':
            return self.classes[ty[1]]
        return Array(self.ty_cls(ty[1]))

    def rpc_args(self, dc):
        params = [self.ty_cls(t) for _, t in dc['params']]
        kp = {'_args': [n for n, _ in dc['params']], '_body_style': dc['style'], '_no_ctx': dc['no_ctx']}
        if dc['returns'] is not None:
            kp['_returns'] = [self.ty_cls(t) for t in dc['returns']] if isinstance(dc['returns'], list) \
                else self.ty_cls(dc['returns'])
        if dc['hdr']:
            kp['_in_header'] = tuple(self.classes[c] for c in dc['hdr'])
        return params, kp

    def _method(self, dc):
        from spyne import rpc
        svc = self

        def fn(*a):
            ctx, args = (None, a) if dc['no_ctx'] else (a[0], a[1:])
            svc.log.append(('user', dc['name'], svc.hdr_obs(ctx), [svc.py_of(x) for x in args]))
            return svc.run_plan()
        fn.__name__ = dc['name']
        params, kp = self.rpc_args(dc)
        return rpc(*params, **kp)(fn)

    # ---- native <-> neutral
    def nat(self, v):
        return UV.to_native(self.desc, self.classes, v)

    def neu(self, o):
        return UV.from_native(self.desc, self.classes, o)

    def py_of(self, o):
        """a Python object at the NullServer boundary -> ('val'|'tuple'|'gen'|'ignored'|'arrinst', ...)"""
        from spyne import Ignored
        from spyne.model.complex import Array
        import types
        if isinstance(o, Ignored):
            return ('ignored', self.neu(o.args[0] if o.args else None))
        if isinstance(o, types.GeneratorType):
            return ('gen', [self.neu(x) for x in o])
        if isinstance(o, tuple):
            return ('tuple', [self.neu(x) for x in o])
        if isinstance(o, Array):
            (k,) = [k for k in o.__dict__] or [None]
            return ('arrinst', self.neu(o.__dict__.get(k)))
        return ('val', self.neu(o))

    def hdr_obs(self, ctx):
        if ctx is None or ctx.in_header is None:
            return None
        h = ctx.in_header
        if isinstance(h, (list, tuple)):
            return ('many', [self.neu(x) for x in h])
        return ('one', self.neu(h))

    def run_plan(self):
        import spyne.error, spyne.model.fault
        from spyne import Ignored
        p = self.plan
        if p[0] == 'ret':
            return self.nat(p[1])
        if p[0] == 'tuple':
            return tuple(self.nat(x) for x in p[1])
        if p[0] == 'list':
            return [self.nat(x) for x in p[1]]
        if p[0] == 'gen':
            return (self.nat(x) for x in p[1])
        if p[0] == 'ignored':
            return Ignored(self.nat(p[1]))
        if p[0] == 'fault':
            if p[1] == 'Fault':
                raise spyne.model.fault.Fault(p[2], p[3])
            raise getattr(spyne.error, p[1])(p[3])
        raise KeyError('user code failure')

    # ---- the two paths
    def classify(self, f):
        from spyne.model.fault import Fault
        try:
            return f()
        except Fault as e:
            return ('fault', e.faultcode, e.faultstring, type(e).__name__)
        except Exception as e:
            return ('crash', type(e).__name__, traceback.format_exc()[-400:])

    def call_null(self, name, args, kw, hdr=None, ostr=None):
        """-> (outcome, log)"""
        del self.log[:]
        srv = self.null if ostr is None else self.ostr[ostr]
        srv.service.in_header = None if hdr is None else \
            (self.nat(hdr[1]) if hdr[0] == 'one' else [self.nat(x) for x in hdr[1]])

        def go():
            r = srv.service[name](*[self.nat(a) for a in args], **dict((k, self.nat(v)) for k, v in kw))
            if ostr is not None:
                return ('doc', b''.join(r))
            return ('ret', self.py_of(r))
        try:
            out = self.classify(go)
        finally:
            srv.service.in_header = None
        return out, list(self.log)

    def call_wire(self, proto, name, bound, hs=()):
        """a foreign client: write the request, run the ServerBase pipeline, decode the reply.
        bound: the parameter values (one per parameter / per flattened field of a bare class).
        -> (outcome, log, response bytes or None)"""
        from spyne.context import MethodContext
        dc = self.by_name.get(name)
        body = request_body(self, proto, name, dc, bound, hs)
        del self.log[:]
        srv = self.srv[proto]
        stage = ['generate_contexts']
        box = {}

        def go():
            ctx = MethodContext(srv, MethodContext.SERVER)
            ctx.in_string = [body]
            ctx, = srv.generate_contexts(ctx)
            if ctx.in_error is None:
                stage[0] = 'get_in_object'
                srv.get_in_object(ctx)
            if ctx.in_error is None:
                stage[0] = 'get_out_object'
                srv.get_out_object(ctx)
            else:
                ctx.out_error = ctx.in_error
            stage[0] = 'get_out_string'
            srv.get_out_string(ctx)
            resp = b''.join(ctx.out_string)
            box['resp'] = resp
            stage[0] = 'decode'
            return decode_response(self, proto, dc, resp, ctx.out_error is not None)
        out = self.classify(go)
        if out[0] == 'crash':
            out = ('crash', out[1], stage[0], out[2])
        return out, list(self.log), box.get('resp')


def wsgi_bytes(svc, proto, name, bound, hs=()):
    """the same request through the WSGI transport (POST): -> (status, response bytes) or ('escape', exc type)"""
    import io
    from spyne.server.wsgi import WsgiApplication
    if not hasattr(svc, '_wsgi'):
        svc._wsgi = {}
    if proto not in svc._wsgi:
        svc._wsgi[proto] = WsgiApplication(svc.apps[proto])
    dc = svc.by_name.get(name)
    body = request_body(svc, proto, name, dc, bound, hs)
    st = {}
    env = {'REQUEST_METHOD': 'POST', 'PATH_INFO': '/', 'QUERY_STRING': '', 'wsgi.input': io.BytesIO(body),
           'CONTENT_LENGTH': str(len(body)), 'CONTENT_TYPE': 'application/json' if proto == 'json' else 'text/xml',
           'SERVER_NAME': 'h', 'SERVER_PORT': '80', 'wsgi.url_scheme': 'http'}
    del svc.log[:]
    try:
        it = svc._wsgi[proto](env, lambda status, headers, exc_info=None: st.__setitem__('status', status))
        try:
            out = b''.join(it)
        finally:
            if hasattr(it, 'close'):
                it.close()
    except Exception as e:
        return ('escape', type(e).__name__)
    return (st.get('status'), out)


def transports_agree(check, svc, dc, bound, hs, plan, replay, st):
    """the reply to a call does not depend on the transport: WsgiApplication sends the bytes the ServerBase
    pipeline produces (generator results are consumed differently by the two: WSGI peeks at the first item)"""
    for proto in PROTOS:
        whs = hs if proto == 'soap' else []
        svc.plan = plan
        wout, wlog, resp = svc.call_wire(proto, dc['name'], bound, whs)
        svc.plan = plan
        got = wsgi_bytes(svc, proto, dc['name'], bound, whs)
        check.count(('transport', proto, body_style(dc), plan[0], len(plan[1]) if plan[0] == 'gen' else 0,
                     plan[0] == 'gen' and bool(plan[1]) and plan[1][0][0] == 'none'))
        if resp is None or wout[0] == 'crash':
            continue        # the ServerBase side is the wire oracle's business
        if got[0] == 'escape' or got[1] != resp:
            first = 'first-item-none' if (plan[0] == 'gen' and plan[1] and plan[1][0][0] == 'none') else 'plan-' + plan[0]
            # inside the two regions where the wire side cannot carry the call at all (known findings) the
            # bytes are garbage on both transports; a difference there is that finding, not a new one
            check.fail(known_region(proto, dc, st) or key_of('wsgi-vs-serverbase', proto, dc, first),
                       '%s over %s: WsgiApplication answered %r, the ServerBase pipeline %r' % (
                           dc['name'], proto, got if got[0] == 'escape' else got[1][:300], resp[:300]),
                       dict(replay, protocol=proto, plan=plan))


# ------------------------------------------------------------------ the foreign client: requests
def x_value(svc, tag, ty, v):
    if v[0] == 'none':
        return None
    e = etree.Element(NS + tag)
    if ty[0] == 'prim':
        e.text = ('true' if v[1] else 'false') if ty[1] == 'bool' else str(v[1])
    elif ty[0] == 'arr':
        for it in v[1]:
            c = x_value(svc, ty_name(svc.desc, ty[1]), ty[1], it)
            if c is None:
                # a None item keeps its position: <item xsi:nil="true"/>
                c = etree.Element(NS + ty_name(svc.desc, ty[1]))
                c.set('{%s}nil' % XSI, 'true')
            e.append(c)
    else:
        for f, fv in zip(UV.flat_fields(svc.desc, v[1]), v[2]):
            c = x_value(svc, f['name'], f['ty'], fv)
            if c is not None:
                e.append(c)
    return e


def j_value(svc, ty, v):
    if v[0] == 'none':
        return None
    if ty[0] == 'prim':
        return v[1]
    if ty[0] == 'arr':
        return [j_value(svc, ty[1], it) for it in v[1]]
    d = {}
    for f, fv in zip(UV.flat_fields(svc.desc, v[1]), v[2]):
        if fv[0] != 'none':
            d[f['name']] = j_value(svc, f['ty'], fv)
    return d


def bare_value(svc, dc, bound):
    """the single argument of a bare method from the field-wise values"""
    ty = dc['params'][0][1]
    if ty[0] == 'ref':
        return ('obj', ty[1], list(bound))
    return bound[0] if bound else ('none',)


def request_body(svc, proto, name, dc, bound, hs):
    if proto == 'json':
        if dc is None:
            doc = {name: {}}
        elif dc['style'] == 'bare' and dc['params']:
            doc = {name: j_value(svc, dc['params'][0][1], bare_value(svc, dc, bound))}
        else:
            inner = {}
            for (pn, pt), v in zip(dc['params'], bound):
                if v[0] != 'none':
                    inner[pn] = j_value(svc, pt, v)
            doc = {name: inner}
        return json.dumps(doc).encode('utf8')
    if dc is None:
        root = etree.Element(NS + name)
    elif dc['style'] == 'bare' and dc['params']:
        root = x_value(svc, name, dc['params'][0][1], bare_value(svc, dc, bound))
        if root is None:
            root = etree.Element(NS + name)
            root.set('{%s}nil' % XSI, 'true')
    else:
        root = etree.Element(NS + name)
        for (pn, pt), v in zip(dc['params'], bound):
            c = x_value(svc, pn, pt, v)
            if c is not None:
                root.append(c)
    if proto == 'soap':
        env = etree.Element('{%s}Envelope' % SOAPENV)
        if hs:
            hd = etree.SubElement(env, '{%s}Header' % SOAPENV)
            for cid, hv in zip(dc['hdr'], hs):
                c = x_value(svc, svc.desc['classes'][cid]['name'], ('ref', cid), hv)
                if c is not None:
                    hd.append(c)
        etree.SubElement(env, '{%s}Body' % SOAPENV).append(root)
        root = env
    return etree.tostring(root)


# ------------------------------------------------------------------ the foreign client: replies
def d_xml(svc, e, ty):
    if e is None or e.get('{%s}nil' % XSI) in ('true', '1'):
        return ('none',)
    if ty[0] == 'prim':
        t = e.text or ''
        if ty[1] == 'int':
            return ('int', int(t))
        if ty[1] == 'bool':
            if t not in ('true', 'false'):
                raise ValueError('boolean text %r' % t)
            return ('bool', t == 'true')
        return ('text', t)
    if ty[0] == 'arr':
        return ('list', [d_xml(svc, c, ty[1]) for c in e])
    vals = []
    for f in UV.flat_fields(svc.desc, ty[1]):
        vals.append(d_xml(svc, e.find(NS + f['name']), f['ty']))
    return ('obj', ty[1], vals)


def d_json(svc, doc, ty):
    if doc is None:
        return ('none',)
    if ty[0] == 'prim':
        if ty[1] == 'int':
            if isinstance(doc, bool) or not isinstance(doc, (int, str)):
                raise ValueError('integer document %r' % (doc,))
            return ('int', int(doc))
        if ty[1] == 'bool':
            if not isinstance(doc, bool):
                raise ValueError('boolean document %r' % (doc,))
            return ('bool', doc)
        if not isinstance(doc, str):
            raise ValueError('text document %r' % (doc,))
        return ('text', doc)
    if ty[0] == 'arr':
        if not isinstance(doc, list):
            raise ValueError('array document %r' % (doc,))
        return ('list', [d_json(svc, c, ty[1]) for c in doc])
    if not isinstance(doc, dict):
        raise ValueError('object document %r' % (doc,))
    vals = [d_json(svc, doc.get(f['name']), f['ty']) for f in UV.flat_fields(svc.desc, ty[1])]
    if all(v == ('none',) for v in vals):
        # the dict documents write None of a class with mandatory members as {member: null}; the
        # generated values never contain an object whose members are all None
        return ('none',)
    return ('obj', ty[1], vals)


def out_fields(dc):
    """the (name, type) pairs of the synthetic response wrapper of a wrapped method"""
    r = dc['returns']
    if not r:
        return []
    if isinstance(r, list):
        return [('%sResult%d' % (dc['name'], i), t) for i, t in enumerate(r)]
    return [('%sResult' % dc['name'], r)]


def decode_response(svc, proto, dc, resp, is_error):
    """-> ('fault', code, string, None) | ('msg', 'wrap', [vals]) | ('msg', 'bare', val)"""
    if proto == 'json':
        doc = json.loads(resp.decode('utf8'))
        if is_error:
            if isinstance(doc, list):
                doc, = doc
            return ('fault', doc.get('faultcode'), doc.get('faultstring'), None)
        if dc['style'] == 'wrapped':
            fs = out_fields(dc)
            if len(fs) == 0:
                if doc not in ({}, None):
                    raise ValueError('empty response expected, got %r' % (doc,))
                return ('msg', 'wrap', [])
            if len(fs) == 1:
                # the stripped wrapper of a None return value is an empty document
                return ('msg', 'wrap', [('none',) if doc == {} else d_json(svc, doc, fs[0][1])])
            if not isinstance(doc, dict):
                raise ValueError('response wrapper expected, got %r' % (doc,))
            return ('msg', 'wrap', [d_json(svc, doc.get(n), t) for n, t in fs])
        if dc['returns'] is None:
            if doc not in ({}, None):
                raise ValueError('empty response expected, got %r' % (doc,))
            return ('msg', 'bare', ('none',))
        return ('msg', 'bare', d_json(svc, doc, dc['returns']))
    root = etree.fromstring(resp)
    if proto == 'soap':
        body = root.find('{%s}Body' % SOAPENV)
        root = body[0]
    if root.tag == '{%s}Fault' % SOAPENV:
        code = root.findtext('faultcode') or ''
        return ('fault', code.split(':', 1)[1] if ':' in code else code, root.findtext('faultstring') or '', None)
    if is_error:
        raise ValueError('error response is not a Fault element: %s' % root.tag)
    if dc['style'] == 'wrapped':
        return ('msg', 'wrap', [d_xml(svc, root.find(NS + n), t) for n, t in out_fields(dc)])
    if dc['returns'] is None:
        if len(root) or (root.text or '').strip():
            raise ValueError('empty response expected')
        return ('msg', 'bare', ('none',))
    return ('msg', 'bare', d_xml(svc, root, dc['returns']))


def client_unwrap(dc, msg):
    """what the caller of the client stub gets: nothing, the value, or the tuple of values"""
    if msg[0] == 'fault':
        return msg
    if dc['style'] == 'wrapped':
        n = len(out_fields(dc))
        if n == 0:
            return ('ret', ('val', ('none',)))
        if n == 1:
            return ('ret', ('val', msg[2][0]))
        return ('ret', ('tuple', msg[2]))
    if dc['returns'] is None:
        return ('ret', ('val', ('none',)))
    return ('ret', ('val', msg[2]))


# ------------------------------------------------------------------ the reference semantics (the oracle's spec)
def param_names(svc, dc):
    if dc['style'] == 'bare' and dc['params']:
        t = dc['params'][0][1]
        if t[0] == 'ref':
            return [f['name'] for f in UV.flat_fields(svc.desc, t[1])]
        return None
    return [n for n, _ in dc['params']]


def param_types(svc, dc):
    if dc['style'] == 'bare' and dc['params']:
        t = dc['params'][0][1]
        return [f['ty'] for f in UV.flat_fields(svc.desc, t[1])] if t[0] == 'ref' else None
    return [t for _, t in dc['params']]


def bind(names, args, kw):
    kw = dict(kw)
    return [args[i] if i < len(args) else kw.get(k, ('none',)) for i, k in enumerate(names)]


def body_style(dc):
    """the style rpc() is documented to derive"""
    if dc['style'] == 'wrapped':
        return 'wrapped'
    if not dc['params']:
        return 'empty' if dc['returns'] is None else 'empty_out_bare'
    return dc['style']


def expected_delivered(svc, dc, bound):
    if dc['style'] == 'bare' and dc['params']:
        return [('val', bare_value(svc, dc, bound))]
    return [('val', v) for v in bound]


def canon(py):
    """the property's equality: a tuple, a list and a generator are the same sequence"""
    if py[0] in ('tuple', 'gen'):
        return ('seq', py[1])
    if py[0] == 'val' and py[1][0] == 'list':
        return ('seq', py[1][1])
    return py


def expected_null(dc, plan):
    if plan[0] == 'fault':
        return ('fault', plan[2], plan[3], plan[1])
    if plan[0] == 'exc':
        return ('fault', 'Server', 'Internal Error', 'Fault')
    if plan[0] == 'ignored':
        return ('ret', ('ignored', plan[1]))
    if dc['returns'] is None or dc['returns'] == []:
        return ('ret', ('val', ('none',)))
    if plan[0] == 'ret':
        return ('ret', canon(('val', plan[1])))
    return ('ret', ('seq', plan[1]))


def expected_wire(dc, plan):
    e = expected_null(dc, plan)
    if plan[0] == 'ignored':
        n = len(dc['returns']) if isinstance(dc['returns'], list) and dc['style'] == 'wrapped' else 1
        return ('ret', ('val', ('none',))) if n < 2 else ('ret', ('seq', [('none',)] * n))
    return e


def norm_out(o):
    if o[0] == 'ret':
        return ('ret', canon(o[1]))
    if o[0] == 'fault':
        return ('fault', o[1], o[2])
    return o[:2]


# ------------------------------------------------------------------ Gallina printers
def g_pair_list(items):
    return glist(['(%s, %s)' % it for it in items])


def g_py(p):
    c = {'val': 'PVal', 'ignored': 'PIgnored', 'arrinst': 'PArrInst'}
    if p[0] in c:
        return '(%s %s)' % (c[p[0]], UV.g_val(p[1]))
    return '(%s %s)' % ({'tuple': 'PTuple', 'gen': 'PGen'}[p[0]], glist([UV.g_val(x) for x in p[1]]))


def g_hdr(h):
    if h is None:
        return 'None'
    if h[0] == 'one':
        return '(Some (HOne %s))' % UV.g_val(h[1])
    return '(Some (HMany %s))' % glist([UV.g_val(x) for x in h[1]])


def g_plan(p):
    if p[0] == 'ret':
        return '(URet (PVal %s))' % UV.g_val(p[1])
    if p[0] == 'list':
        return '(URet (PVal (VList %s)))' % glist([UV.g_val(x) for x in p[1]])
    if p[0] in ('tuple', 'gen'):
        return '(URet (%s %s))' % ('PTuple' if p[0] == 'tuple' else 'PGen', glist([UV.g_val(x) for x in p[1]]))
    if p[0] == 'ignored':
        return '(URet (PIgnored %s))' % UV.g_val(p[1])
    if p[0] == 'fault':
        return '(URaise (mkfault %s %s))' % (gtext(p[2]), gtext(p[3]))
    return 'UExc'


def g_event(e):
    if e[0] == 'ev':
        return '(EvFire %s)' % G_EVENT[e[1]]
    return '(EvUser %s %s)' % (g_hdr(e[2]), glist([g_py(x) for x in e[3]]))


def g_outcome(o):
    if o[0] == 'ret':
        return '(Returned %s)' % g_py(o[1])
    if o[0] == 'fault':
        return '(Raised (mkfault %s %s))' % (gtext(o[1]), gtext(o[2]))
    if o[0] == 'rdoc':
        return '(ReturnedDoc %s)' % g_rmsg(o[1])
    return '(Crashed %s)' % G_EXN.get(o[1], 'OtherExn')


def g_rmsg(m):
    if m[1] == 'wrap':
        return '(RWrap %s)' % glist([UV.g_val(x) for x in m[2]])
    return '(RBare %s)' % UV.g_val(m[2])


def g_decl(dc):
    r = dc['returns']
    gr = 'RetNone' if r is None else ('(RetMany %s)' % glist([UV.g_ty(t) for t in r]) if isinstance(r, list)
                                      else '(RetOne %s)' % UV.g_ty(r))
    return '(mkdecl %s %s %s %s %d%%nat)' % (gtext(dc['name']), G_DSTYLE[dc['style']],
                                             g_pair_list([(gtext(n), UV.g_ty(t)) for n, t in dc['params']]), gr,
                                             len(dc['hdr']))


def g_msg(m):
    if m[0] == 'wrap':
        return '(MWrap %s)' % g_pair_list([(gtext(n), UV.g_ty(t)) for n, t in m[1]])
    return '(MType %s)' % UV.g_ty(m[1])


def all_in_universe(log, out):
    def ok_py(p):
        if p[0] in ('tuple', 'gen'):
            return all(UV.in_universe(x) for x in p[1])
        return UV.in_universe(p[1])
    for e in log:
        if e[0] == 'user':
            if e[2] is not None and not (UV.in_universe(e[2][1]) if e[2][0] == 'one' else all(UV.in_universe(x) for x in e[2][1])):
                return False
            if not all(ok_py(x) for x in e[3]):
                return False
    if out[0] == 'ret' and not ok_py(out[1]):
        return False
    return True


# ------------------------------------------------------------------ decorate: model vs rpc()
def observe_descriptor(svc, md):
    """a real MethodDescriptor -> (style, in msg, out msg) in the model's vocabulary"""
    from spyne.model.complex import ComplexModelBase, Array
    from spyne.model.primitive import Integer, Unicode, Boolean

    def ty_of(cls):
        k = cls
        while k is not None:
            for i, c in enumerate(svc.classes):
                if k is c:
                    return ('ref', i)
            k = getattr(k, '__orig__', None)
        if isinstance(cls, type) and issubclass(cls, Array):
            (m,) = cls._type_info.values()
            inner = ty_of(m)
            return None if inner is None else ('arr', inner)
        for p, c in (('bool', Boolean), ('int', Integer), ('text', Unicode)):
            if isinstance(cls, type) and issubclass(cls, c):
                return ('prim', p)
        return None

    def msg_of(cls):
        t = ty_of(cls)
        if t is not None:
            return ('type', t)
        if not issubclass(cls, ComplexModelBase):
            raise ValueError('message class outside the modelled universe: %r' % cls)
        fs = []
        for k, v in cls._type_info.items():
            tv = ty_of(v)
            if tv is None:
                raise ValueError('wrapper field outside the modelled universe: %r' % v)
            fs.append((k, tv))
        return ('wrap', fs)
    return (STYLE_NAMES[md.body_style.__name__], msg_of(md.in_message), msg_of(md.out_message))


def family_decorate(check, svcs, tier):
    """every combination of (style, parameter shape, return shape) through the real rpc() and
    through [decorate]; plus the descriptors of the generated services"""
    from spyne import rpc
    rng = check.rng
    cases = []
    svc = svcs[0]
    n = len(svc.desc['classes'])
    empty_own = [i for i, c in enumerate(svc.desc['classes']) if not c['fields']]
    ref = ('ref', rng.randrange(n))
    tys = [('prim', 'int'), ('prim', 'text'), ref, ('arr', ('prim', 'bool')), ('arr', ref)]
    pshapes = [[], [('a', tys[0])], [('a', ref)], [('a', tys[3])], [('a', tys[0]), ('b', ref)],
               [('a', tys[1]), ('b', tys[4]), ('c', tys[0])]]
    rshapes = [None, tys[0], ref, tys[3], [], [tys[1]], [tys[0], ref], [ref, tys[3], tys[1]]]
    for e in empty_own[:1]:
        pshapes.append([('a', ('ref', e))])
        rshapes.append(('ref', e))
    decls = []
    for st in ('wrapped', 'bare', 'out_bare'):
        for ps in pshapes:
            for rs in rshapes:
                decls.append({'name': 'mm', 'style': st, 'params': ps, 'returns': rs, 'no_ctx': True, 'hdr': []})
    for s in svcs:
        for dc in s.decls:
            decls.append(dict(dc, _svc=s))
    for dc in decls:
        s = dc.get('_svc', svc)
        params, kp = s.rpc_args(dc)

        def fn(*a):
            return None
        fn.__name__ = dc['name']
        try:
            md = rpc(*params, **kp)(fn)(_default_function_name=dc['name'])
            st, mi, mo = observe_descriptor(s, md)
            obs = '(Ok (mkdesc %s %s %s %s %d%%nat))' % (gtext(dc['name']), st, g_msg(mi), g_msg(mo), len(dc['hdr']))
            key = (st, mi[0], mo[0])
        except Exception as e:
            obs = '(Crash %s)' % G_EXN.get(type(e).__name__, 'OtherExn')
            key = ('error', type(e).__name__)
        check.count(('decorate', dc['style'], len(dc['params']), repr(dc['params'][:1]), repr(dc['returns']), key))
        cases.append((s, '(%s, %s)' % (g_decl(dc), obs), 'decorate %s params=%r returns=%r -> %s' % (
            dc['style'], dc['params'], dc['returns'], key)))
    by = {}
    for s, term, descr in cases:
        by.setdefault(s.idx, (s, []))[1].append((term, descr))
    for s, cs in by.values():
        lib.correspond(check, 'decorate',
                       IMPORTS + '\nDefinition U : universe := %s.' % UV.g_universe(s.desc),
                       'decl * out descriptor',
                       '(fun c => out_eqb descriptor_eqb (decorate U (fst c)) (snd c))', cs,
                       show='(fun c : decl * out descriptor => decorate U (fst c))')
    check.sample({'family': 'decorate', 'combinations': len(decls), 'example': cases[7][2]})


# ------------------------------------------------------------------ calls
def gen_plan(rng, svc, dc, conformant=True):
    """what the user function does on this call"""
    r = dc['returns']
    x = rng.random()
    if x < 0.12:
        return ('fault',) + rng.choice(FAULTS)
    if x < 0.17:
        return ('exc',)
    if x < 0.3:
        return ('ignored', gen_leaf(rng, 'text'))
    if r is None or r == []:
        return ('ret', ('none',))
    if isinstance(r, list):
        vs = [gen_val(rng, svc.desc, t) for t in r]
        if dc['style'] != 'wrapped':
            return ('ret', ('none',))
        if len(r) == 1:
            return ('ret', vs[0])
        return (rng.choice(['tuple', 'tuple', 'list']), vs)
    if r[0] == 'arr' and rng.random() < 0.4:
        v = gen_val(rng, svc.desc, r, none_p=0.0)
        return ('gen', v[1])
    return ('ret', gen_val(rng, svc.desc, r))


def gen_call(rng, svc, dc):
    """a conformant invocation: positional prefix + keywords for some of the rest"""
    names, tys = param_names(svc, dc), param_types(svc, dc)
    if names is None:
        names, tys = ['x'], [dc['params'][0][1]]
    vals = [gen_val(rng, svc.desc, t) for t in tys]
    k = rng.randint(0, len(names))
    args = vals[:k]
    kw = [(n, v) for n, v in list(zip(names, vals))[k:] if rng.random() < 0.7]
    rng.shuffle(kw)
    hs = [gen_val(rng, svc.desc, ('ref', c), none_p=0.0) for c in dc['hdr']] if dc['hdr'] and rng.random() < 0.8 else []
    if any(h == ('none',) for h in hs):
        hs = []
    return args, kw, hs


def hdr_of(hs):
    if not hs:
        return None
    return ('one', hs[0]) if len(hs) == 1 else ('many', list(hs))


def null_supported(dc):
    return not (dc['style'] == 'bare' and dc['params'] and dc['params'][0][1][0] != 'ref')


def key_of(aspect, proto, dc, detail):
    r = dc['returns']
    arity = 'none' if not r else ('many' if isinstance(r, list) and len(r) > 1 else 'one')
    return 'C18|%s|%s|%s|returns-%s|%s' % (aspect, proto, body_style(dc), arity, detail)


def known_region(proto, dc, gen_state):
    """the two regions where the pinned WIRE side cannot carry the call (known findings)"""
    if proto == 'xml' and body_style(dc) != 'wrapped' and gen_state['xml_nonwrapped'] == 'NWList':
        return 'C18|wire-response|xml|non-wrapped-body-style'
    if proto == 'json' and dc['style'] == 'bare' and dc['params'] and gen_state['hier_bare_lookup'] == 'LkTypeName':
        return 'C18|wire-request|json|bare-argument'
    return None


def app_events(log):
    return [e for e in log if e[0] == 'user' or e[1] in APP_EVENTS]


def gen_state():
    txt = open(os.path.join(lib.COQ, 'Gen', 'NullSrv.v')).read()
    st = {}
    for k in ('xml_nonwrapped', 'soap_nonwrapped', 'null_ti_source', 'hier_bare_lookup'):
        m = re.search(r'Definition %s : \w+ := (\w+)\.' % k, txt)
        st[k] = m.group(1) if m else None
    return st


class Cases(object):
    """per-service accumulation of correspondence cases"""

    def __init__(self):
        self.null, self.wire, self.ostr = {}, {}, {}

    def add(self, table, svc, term, descr):
        table.setdefault(svc.idx, (svc, []))[1].append((term, descr))


def svc_header(svc):
    return (IMPORTS + '\nDefinition U : universe := %s.\nDefinition dcs : list decl := %s.\n'
            'Definition ms : list descriptor := match decorate_all U dcs with Ok m => m | _ => [] end.\n'
            'Definition xid (p : proto) (m : msg) (r : rmsg) : out rmsg := Ok r.\n'
            'Definition evs_eqb := list_eqb event_eqb.' % (UV.g_universe(svc.desc), glist([g_decl(d) for d in svc.decls])))


def g_kw(kw):
    return g_pair_list([(gtext(k), UV.g_val(v)) for k, v in kw])


def one_call(check, svc, dc, args, kw, hs, plan, cases, st, conformant, replay_extra=None):
    """drive one invocation through NullServer and (when conformant) the three wire paths;
    queue the model cases; run the oracle"""
    name = dc['name'] if dc is not None else 'nosuch'
    svc.plan = plan
    hdr = hdr_of(hs)
    replay = {'universe': svc.desc, 'decl': dict((k, v) for k, v in (dc or {}).items() if not k.startswith('_')),
              'method': name, 'args': args, 'kwargs': kw, 'headers': hs, 'plan': plan}
    if replay_extra:
        replay.update(replay_extra)
    # ---- NullServer
    nout, nlog = svc.call_null(name, args, kw, hdr)
    shape = ('null', body_style(dc) if dc else '-', plan[0], len(args), len(kw), bool(hs), nout[0],
             repr(dc['params'])[:60] if dc else '', repr(dc['returns'])[:40] if dc else '')
    check.count(shape)
    stats = check.extra.setdefault('calls_by_style_and_function_behaviour', {})
    sk = '%s/%s%s%s' % (body_style(dc) if dc else 'unknown-method', plan[0], '/headers' if hs else '',
                        '' if conformant else '/non-conformant')
    stats[sk] = stats.get(sk, 0) + 1
    if all_in_universe(nlog, nout):
        term = '(%s, %s, %s, %s, %s, (%s, %s))' % (gtext(name), g_hdr(hdr), g_plan(plan),
                                                   glist([UV.g_val(a) for a in args]), g_kw(kw),
                                                   g_outcome(nout), glist([g_event(e) for e in nlog]))
        cases.add(cases.null, svc, term, 'null %s%s(%r, %r) hdr=%r plan=%r -> %r %r' % (
            name, '' if dc is None else '[%s]' % body_style(dc), args, kw, hdr, plan, nout[:3], nlog))
    else:
        check.mismatch('null_call', 'observation outside the modelled universe: %r %r' % (nout, nlog))
    if not conformant or dc is None:
        return nout, nlog
    # ---- the oracle on NullServer alone: the function is entered once with the arguments of the call
    names = param_names(svc, dc)
    bound = bind(names, args, kw)
    want_user = ('user', name, hdr if not dc['no_ctx'] else None, expected_delivered(svc, dc, bound))
    users = [e for e in nlog if e[0] == 'user']
    if users != [want_user]:
        inh = dc['style'] == 'bare' and svc.desc['classes'][dc['params'][0][1][1]]['parent'] is not None
        check.fail(key_of('null-args', 'null', dc, 'inherited-class' if inh else 'plain'),
                   'NullServer entered %s with %r, the call binds %r' % (name, users, want_user), replay)
    want = expected_null(dc, plan)
    if norm_out(nout) != norm_out(want):
        check.fail(key_of('null-result', 'null', dc, 'plan-' + plan[0]),
                   'NullServer %s: returned %r, the method returned %r' % (name, nout[:3], want), replay)
    elif nout[0] == 'fault' and nout[3] != want[3]:
        check.fail(key_of('null-fault-class', 'null', dc, 'plan-' + plan[0]),
                   'NullServer %s raised %s, the method raised %s' % (name, nout[3], want[3]), replay)
    want_ev = ['method_call', 'U', 'method_exception_object' if plan[0] in ('fault', 'exc') else 'method_return_object']
    if ['U' if e[0] == 'user' else e[1] for e in app_events(nlog)] != want_ev:
        check.fail(key_of('null-events', 'null', dc, 'plan-' + plan[0]),
                   'NullServer %s: application events %r, expected %r' % (name, nlog, want_ev), replay)
    # ---- the transports agree (generator results: also with a null first item, which the decoders of the
    #      foreign client cannot tell from an absent one, so only the bytes are compared)
    if plan[0] == 'gen':
        transports_agree(check, svc, dc, bound, hs, plan, replay, st)
        transports_agree(check, svc, dc, bound, hs, ('gen', [('none',)] + list(plan[1])), replay, st)
        svc.plan = plan
    elif plan[0] not in ('fault', 'exc') and check.rng.random() < 0.15:
        transports_agree(check, svc, dc, bound, hs, plan, replay, st)
        svc.plan = plan
    # ---- the wire paths
    for proto in PROTOS:
        whs = hs if proto == 'soap' else []
        wout, wlog, resp = svc.call_wire(proto, name, bound, whs)
        check.count(('wire', proto) + shape[1:])
        region = known_region(proto, dc, st)
        msg = wout if wout[0] == 'msg' else None
        cout = client_unwrap(dc, wout) if wout[0] in ('msg', 'fault') else wout
        # model case (the regions the model does not describe are the oracle's alone)
        modelled = not (proto == 'xml' and body_style(dc) != 'wrapped' and st['xml_nonwrapped'] == 'NWList')
        if modelled:
            if all_in_universe(wlog, cout):
                term = '(%s, %s, %s, %s, %s, %s, (%s, %s))' % (
                    G_PROTO[proto], gtext(name), glist([UV.g_val(h) for h in whs]), g_plan(plan),
                    glist([UV.g_val(a) for a in args]), g_kw(kw), g_outcome(cout),
                    glist([g_event(e) for e in wlog]))
                cases.add(cases.wire, svc, term, 'wire %s %s[%s](%r, %r) hs=%r plan=%r -> %r %r' % (
                    proto, name, body_style(dc), args, kw, whs, plan, cout[:3], wlog))
            else:
                check.mismatch('wire_call', 'observation outside the modelled universe: %r %r' % (cout, wlog))
        # oracle: same function, same arguments, same result, same application events
        problems = []
        wusers = [e for e in wlog if e[0] == 'user']
        want_wuser = ('user', name, (hdr if proto == 'soap' else None) if not dc['no_ctx'] else None, want_user[3])
        if wusers != [want_wuser]:
            problems.append(('args', 'entered with %r, NullServer with %r' % (wusers, users)))
        ww = expected_wire(dc, plan)
        if norm_out(cout) != norm_out(ww):
            problems.append(('result', 'decoded %r, NullServer returned %r' % (cout[:4], nout[:3])))
        if ['U' if e[0] == 'user' else e[1] for e in app_events(wlog)] != want_ev:
            problems.append(('events', 'application events %r' % (wlog,)))
        for aspect, what in problems:
            key = region or key_of('wire-' + aspect, proto, dc, 'plan-' + plan[0])
            check.fail(key, '%s over %s disagrees with NullServer (%s): %s' % (name, proto, body_style(dc), what),
                       dict(replay, protocol=proto))
        # ---- ostr: NullServer(ostr=True) hands out the bytes the wire server sends
        if plan[0] not in ('fault', 'exc'):
            oout, olog = svc.call_null(name, args, kw, None, ostr=proto)
            check.count(('ostr', proto) + shape[1:])
            oobs = oout
            if oout[0] == 'doc':
                try:
                    oobs = ('rdoc', decode_response(svc, proto, dc, oout[1], False))
                except Exception as e:
                    oobs = ('crash', 'decode:' + type(e).__name__)
            if modelled and not all_in_universe(olog, ('ret', ('val', ('none',)))):
                check.mismatch('null_call_ostr', 'observation outside the modelled universe: %r %r' % (oobs[:3], olog))
            elif modelled and oobs[0] in ('rdoc', 'crash', 'fault'):
                term = '(%s, %s, %s, %s, %s, (%s, %s))' % (
                    G_PROTO[proto], gtext(name), g_plan(plan), glist([UV.g_val(a) for a in args]), g_kw(kw),
                    g_outcome(oobs), glist([g_event(e) for e in olog]))
                cases.add(cases.ostr, svc, term, 'ostr %s %s[%s](%r, %r) plan=%r -> %r %r' % (
                    proto, name, body_style(dc), args, kw, plan, oobs[:3], olog))
            if not (oout[0] == 'doc' and oout[1] == resp):
                check.fail(region or key_of('ostr', proto, dc, 'plan-' + plan[0]),
                           'NullServer(ostr=True).%s over %s returned %r, the wire server sent %r' % (
                               name, proto, oout[:2], resp), dict(replay, protocol=proto))
    return nout, nlog


def malformed_calls(check, svc, dc, cases, st):
    """non-conformant invocations: only model vs NullServer (what the code does, not the property)"""
    rng = check.rng
    names, tys = param_names(svc, dc), param_types(svc, dc)
    plan = gen_plan(rng, svc, dc)
    if names is None:
        # bare primitive / bare Array: outside the supported styles
        t = dc['params'][0][1]
        v = gen_val(rng, svc.desc, t, none_p=0.0)
        one_call(check, svc, dc, [v], [], [], plan, cases, st, False)
        if t[0] == 'arr':
            one_call(check, svc, dc, list(v[1]) + [('int', 1)], [], [], plan, cases, st, False)
            one_call(check, svc, dc, [], [(ty_name(svc.desc, t[1]), v)], [], plan, cases, st, False)
        return
    vals = [gen_val(rng, svc.desc, t) for t in tys]
    kind = rng.choice(['too-many', 'kw-none-over-positional', 'kw-over-positional', 'unknown-kw', 'instance-whole',
                       'wrong-arity-return'])
    if kind == 'too-many':
        one_call(check, svc, dc, vals + [('int', 1)] * rng.randint(1, 2), [], [], plan, cases, st, False)
    elif kind == 'kw-none-over-positional' and names:
        one_call(check, svc, dc, vals, [(names[0], ('none',))], [], plan, cases, st, False)
    elif kind == 'kw-over-positional' and names:
        i = rng.randrange(len(names))
        one_call(check, svc, dc, vals, [(names[i], gen_val(rng, svc.desc, tys[i], none_p=0.0))], [], plan, cases, st, False)
    elif kind == 'unknown-kw':
        one_call(check, svc, dc, vals[:1], [('zz', ('int', 1))], [], plan, cases, st, False)
    elif kind == 'instance-whole' and dc['style'] == 'bare' and dc['params']:
        one_call(check, svc, dc, [('obj', dc['params'][0][1][1], vals)], [], [], plan, cases, st, False)
    elif isinstance(dc['returns'], list) and len(dc['returns']) > 1:
        vs = [gen_val(rng, svc.desc, t) for t in dc['returns']]
        bad = rng.choice([('tuple', vs[:-1]), ('tuple', vs + [('int', 5)]), ('gen', vs), ('ret', vs[0])])
        one_call(check, svc, dc, vals, [], [], bad, cases, st, False)


def unknown_method(check, svc, cases):
    """a method name the service does not have: the same Client.ResourceNotFound fault class"""
    svc.plan = ('ret', ('none',))
    nout, nlog = svc.call_null('nosuch', [('int', 1)], [], None)
    check.count(('unknown', 'null', nout[0]))
    term = '(%s, None, %s, %s, [], (%s, %s))' % (gtext('nosuch'), g_plan(svc.plan), glist([UV.g_val(('int', 1))]),
                                               g_outcome(nout), glist([g_event(e) for e in nlog]))
    cases.add(cases.null, svc, term, 'null nosuch -> %r %r' % (nout[:3], nlog))
    for proto in PROTOS:
        wout, wlog, resp = svc.call_wire(proto, 'nosuch', [], [])
        check.count(('unknown', proto, wout[0]))
        term = '(%s, %s, [], %s, [], [], (%s, %s))' % (G_PROTO[proto], gtext('nosuch'), g_plan(svc.plan),
                                                      g_outcome(wout), glist([g_event(e) for e in wlog]))
        cases.add(cases.wire, svc, term, 'wire %s nosuch -> %r %r' % (proto, wout[:3], wlog))
        if not (nout[0] == 'fault' and wout[0] == 'fault' and nout[1] == wout[1] == 'Client.ResourceNotFound'):
            check.fail('C18|unknown-method|%s' % proto,
                       'unknown method: NullServer %r, %s wire %r' % (nout[:3], proto, wout[:3]),
                       {'universe': svc.desc, 'method': 'nosuch', 'protocol': proto})


def kw_positional(check, svc, dc):
    """keyword and positional invocation are equivalent (direct oracle on NullServer)"""
    rng = check.rng
    names, tys = param_names(svc, dc), param_types(svc, dc)
    if not names:
        return
    vals = [gen_val(rng, svc.desc, t) for t in tys]
    svc.plan = ('ret', ('none',)) if dc['returns'] is None else gen_plan(rng, svc, dc)
    if svc.plan[0] == 'gen':
        svc.plan = ('list', svc.plan[1])
    forms = [(vals, []), ([], list(zip(names, vals)))]
    k = rng.randint(0, len(names))
    kws = list(zip(names, vals))[k:]
    rng.shuffle(kws)
    forms.append((vals[:k], kws))
    seen = []
    for args, kw in forms:
        out, log = svc.call_null(dc['name'], args, kw)
        check.count(('kwpos', body_style(dc), len(args), len(kw)))
        seen.append((norm_out(out), [e for e in log if e[0] == 'user']))
    if any(s != seen[0] for s in seen[1:]):
        check.fail(key_of('kw-vs-positional', 'null', dc, 'forms-differ'),
                   '%s: positional / keyword / mixed invocation differ: %r' % (dc['name'], seen),
                   {'universe': svc.desc, 'decl': dc, 'method': dc['name'], 'forms': forms, 'plan': svc.plan})


def flush_cases(check, cases):
    for idx, (svc, cs) in cases.null.items():
        lib.correspond(check, 'null_call', svc_header(svc),
                       'text * option hdr * uret * list val * list (text * val) * (outcome * list event)',
                       "(fun c => match c with (key, h, r, args, kw, (o, t)) => "
                       "let m := null_call U ms key h (fun _ _ => r) args kw in "
                       "outcome_eqb (fst m) o && evs_eqb (snd m) t end)", cs,
                       show="(fun c : text * option hdr * uret * list val * list (text * val) * (outcome * list event) => "
                            "match c with (key, h, r, args, kw, _) => null_call U ms key h (fun _ _ => r) args kw end)")
    for idx, (svc, cs) in cases.wire.items():
        lib.correspond(check, 'wire_call', svc_header(svc),
                       'proto * text * list val * uret * list val * list (text * val) * (outcome * list event)',
                       "(fun c => match c with (p, key, hs, r, args, kw, (o, t)) => "
                       "let m := wire_call xid %s U p ms key hs (fun _ _ => r) args kw in "
                       "outcome_eqb (fst m) o && evs_eqb (snd m) t end)" % gtext(TNS), cs,
                       show="(fun c : proto * text * list val * uret * list val * list (text * val) * (outcome * list event) => "
                            "match c with (p, key, hs, r, args, kw, _) => wire_call xid %s U p ms key hs (fun _ _ => r) args kw end)" % gtext(TNS))
    for idx, (svc, cs) in cases.ostr.items():
        lib.correspond(check, 'null_call_ostr', svc_header(svc),
                       'proto * text * uret * list val * list (text * val) * (outcome * list event)',
                       "(fun c => match c with (p, key, r, args, kw, (o, t)) => "
                       "let m := null_call_ostr U p ms key None (fun _ _ => r) args kw in "
                       "outcome_eqb (fst m) o && evs_eqb (snd m) t end)", cs,
                       show="(fun c : proto * text * uret * list val * list (text * val) * (outcome * list event) => "
                            "match c with (p, key, r, args, kw, _) => null_call_ostr U p ms key None (fun _ _ => r) args kw end)")


def fixed_service(idx):
    """the theorem witnesses and the shapes of DESIGN.md: K(a, b), D(K)(c), one method per body style"""
    desc = {'classes': [
        {'ns': TNS, 'name': 'W%dK' % idx, 'parent': None, 'fields': [
            {'name': 'a', 'ty': ('prim', 'int'), 'min': 0, 'max': 1, 'nillable': True, 'kind': 'elem'},
            {'name': 'b', 'ty': ('prim', 'text'), 'min': 0, 'max': 1, 'nillable': True, 'kind': 'elem'}]},
        {'ns': TNS, 'name': 'W%dD' % idx, 'parent': 0, 'fields': [
            {'name': 'c', 'ty': ('prim', 'bool'), 'min': 0, 'max': 1, 'nillable': True, 'kind': 'elem'}]},
        {'ns': TNS, 'name': 'W%dL' % idx, 'parent': None, 'fields': [
            {'name': 'only', 'ty': ('prim', 'int'), 'min': 0, 'max': 1, 'nillable': True, 'kind': 'elem'},
            {'name': 'items', 'ty': ('arr', ('ref', 0)), 'min': 0, 'max': 1, 'nillable': True, 'kind': 'elem'}]}]}
    I, T, B, K, D, L = ('prim', 'int'), ('prim', 'text'), ('prim', 'bool'), ('ref', 0), ('ref', 1), ('ref', 2)

    def dc(name, style, params, returns, no_ctx=True, hdr=()):
        return {'name': name, 'style': style, 'params': params, 'returns': returns, 'no_ctx': no_ctx, 'hdr': list(hdr)}
    decls = [dc('w00', 'wrapped', [], None), dc('w11', 'wrapped', [('a', I)], I),
             dc('w22', 'wrapped', [('a', I), ('b', T)], [I, T], no_ctx=False, hdr=[0]),
             dc('w23', 'wrapped', [('a', I), ('b', T)], [I, T, K]),
             dc('wk', 'wrapped', [('k', K), ('l', ('arr', I))], ('arr', K)),
             dc('wh', 'wrapped', [('a', B)], L, no_ctx=False, hdr=[0, 2]),
             dc('bk', 'bare', [('k', K)], K), dc('bd', 'bare', [('k', D)], D), dc('bl', 'bare', [('k', L)], None),
             dc('bp', 'bare', [('k', I)], I), dc('ba', 'bare', [('k', ('arr', I))], ('arr', I)),
             dc('be', 'bare', [], None), dc('beo', 'bare', [], K),
             dc('ob', 'out_bare', [('a', I), ('b', T)], T), dc('obk', 'out_bare', [('a', I)], D),
             dc('oba', 'out_bare', [('a', I)], ('arr', T)), dc('obn', 'out_bare', [('a', I)], None),
             dc('obe', 'out_bare', [], I)]
    return desc, decls


def run(check):
    check.rule = ('generated services (type universes with inheritance and arrays; methods over wrapped / bare / out_bare '
                  'declarations, 0..4 parameters, none / one / many return values, with and without ctx and in-headers) '
                  'called with positional / keyword / mixed arguments while the user function returns a value, a tuple, a '
                  'list, a generator, an Ignored, raises a Fault (sub)class or another exception; every call goes through '
                  'NullServer, NullServer(ostr=True), and XmlDocument / Soap11 / JsonDocument behind ServerBase with '
                  'requests written and replies decoded by the harness; a case is distinct by (path, derived body style, '
                  'what the function does, number of positional and keyword arguments, headers, kind of outcome, '
                  'parameter and return types)')
    check.trusted = list(lib.COMMON_TRUSTED) + [
        'translator harness/translate/nullsrv.py (if/elif chains of _cb_sync, process_request, get_out_object / '
        'ignored_to_null; is_out_bare(); the packing loops of _FunctionCall.__call__; the non-wrapped branch of '
        'XmlDocument.serialize and Soap11.serialize; spyne.const suffixes -> Gen/NullSrv.v)',
        'the foreign client in harness/c18.py (request writers and reply decoders for XML, SOAP 1.1 and JSON over the '
        'generated universes) and its reference semantics (bind, expected_delivered, expected_null, expected_wire)',
        'coq/Wire/Universe.v + harness/universe.py (type universes rendered as Spyne classes and as Gallina terms)',
    ]
    check.assumptions = [
        'codec_carries: the protocol codec returns the request and response message values of the call unchanged '
        '(XML / SOAP / dict-document fidelity is C01 / C02; generated values avoid the identifications those make: '
        'empty text, objects with every field None; None items inside sequences ARE generated)',
        'the user function is a total function of the header and argument list it is entered with; Redirect '
        'exceptions, auxiliary method contexts (cnt > 0), @mrpc methods, async (Deferred) results and push/streaming '
        'output are outside the model',
        'a Fault is identified by faultcode and faultstring (the wire does not carry the Python class; C09)',
        'instances indexed or iterated as sequences (a non-conformant return of an object where a tuple is declared) '
        'are not modelled (Crash OtherExn) and never generated',
    ]
    check.regen(['nullsrv'])
    check.check_sources()
    check.prove('Props.C18', THEOREMS)
    st = gen_state()
    check.extra['generated_state'] = st
    rng = check.rng
    quick = check.tier == 'quick'
    svcs = []
    d0, dc0 = fixed_service(0)
    svcs.append(Svc(0, d0, dc0))
    for i in range(1, 17 if quick else 60):
        desc = UV.gen_universe(rng, n_classes=rng.randint(2, 4), max_fields=3, namespaces=(TNS,), allow_attr=False,
                               allow_arrays=True, allow_inherit=True, allow_multi=False, name_prefix='K%dx' % i)
        if rng.random() < 0.5 and len(desc['classes']) > 1 and desc['classes'][-1]['parent'] is None:
            desc['classes'][-1]['parent'] = rng.randrange(len(desc['classes']) - 1)   # make inheritance common
            taken = set(f['name'] for f in UV.flat_fields(desc, desc['classes'][-1]['parent']))
            desc['classes'][-1]['fields'] = [f for f in desc['classes'][-1]['fields'] if f['name'] not in taken]
        decls = [gen_decl(rng, desc, 'm%d_%d' % (i, j)) for j in range(8 if quick else 10)]
        svcs.append(Svc(i, desc, decls))
    family_decorate(check, svcs, check.tier)
    cases = Cases()
    for svc in svcs:
        for dc in svc.decls:
            if null_supported(dc):
                for _ in range(3 if quick else 6):
                    args, kw, hs = gen_call(rng, svc, dc)
                    one_call(check, svc, dc, args, kw, hs, gen_plan(rng, svc, dc), cases, st, True)
                if svc.idx == 0:
                    # the theorem witnesses and every kind of outcome on the fixed shapes
                    names, tys = param_names(svc, dc), param_types(svc, dc)
                    vals = [gen_val(rng, svc.desc, t, none_p=0.0) for t in tys]
                    for plan in (('ignored', ('text', 'xyz')), ('fault',) + FAULTS[2], ('exc',)):
                        one_call(check, svc, dc, vals[:1], list(zip(names, vals))[1:], [], plan, cases, st, True)
                    # sequences with holes, on every run: a None item keeps its position in a list / generator
                    # result and in a list argument (leading, inner and trailing holes)
                    r = dc['returns']
                    if isinstance(r, tuple) and r[0] == 'arr':
                        items = [gen_val(rng, svc.desc, r[1], none_p=0.0) for _ in range(3)]
                        items = [x for x in items if x != ('none',)] or [('none',)]
                        holes = [('none',), items[0], ('none',)] + items[1:] + [('none',)]
                        for plan in (('ret', ('list', holes)), ('gen', holes), ('ret', ('list', [('none',)]))):
                            one_call(check, svc, dc, vals[:1], list(zip(names, vals))[1:], [], plan, cases, st, True)
                    for i, t in enumerate(tys):
                        if t[0] == 'arr':
                            it = gen_val(rng, svc.desc, t[1], none_p=0.0)
                            hv = list(vals)
                            hv[i] = ('list', [('none',), it, ('none',), it])
                            one_call(check, svc, dc, hv, [], [], gen_plan(rng, svc, dc), cases, st, True)
                kw_positional(check, svc, dc)
            malformed_calls(check, svc, dc, cases, st)
        unknown_method(check, svc, cases)
    flush_cases(check, cases)
    lib.flush_correspondences(check)
    check.sample({'family': 'calls', 'services': len(svcs), 'methods': sum(len(s.decls) for s in svcs),
                  'example_decl': svcs[-1].decls[0]})
    return check.finish()


def replay(check, path):
    r = json.load(open(path))
    print(json.dumps(r, indent=1)[:6000])
    rp = r.get('replay', {})
    if 'universe' not in rp or 'decl' not in rp or not rp['decl']:
        return 0

    def tup(x):
        return tuple(tup(y) for y in x) if isinstance(x, list) else x

    def val(v):
        v = list(v)
        if v[0] == 'list':
            return ('list', [val(x) for x in v[1]])
        if v[0] == 'obj':
            return ('obj', v[1], [val(x) for x in v[2]])
        return tuple(v)
    desc = rp['universe']
    for c in desc['classes']:
        for f in c['fields']:
            f['ty'] = tup(f['ty'])
    dc = rp['decl']
    dc['params'] = [(n, tup(t)) for n, t in dc['params']]
    if dc['returns'] is not None:
        dc['returns'] = [tup(t) for t in dc['returns']] if dc['returns'] and isinstance(dc['returns'][0], list) else tup(dc['returns'])
    svc = Svc(0, desc, [dc])
    plan = rp.get('plan') or ['ret', ['none']]
    plan = tuple(plan[:1]) + tuple(val(x) if isinstance(x, list) and x and isinstance(x[0], str) else
                                   ([val(y) for y in x] if isinstance(x, list) else x) for x in plan[1:])
    svc.plan = plan
    args = [val(a) for a in rp.get('args', [])]
    kw = [(k, val(v)) for k, v in rp.get('kwargs', [])]
    hs = [val(h) for h in rp.get('headers', [])]
    print('NullServer now:', svc.call_null(dc['name'], args, kw, hdr_of(hs)))
    names = param_names(svc, dc)
    if names is not None and len(args) <= len(names):
        bound = bind(names, args, kw)
        for p in ([rp['protocol']] if rp.get('protocol') in PROTOS else PROTOS):
            svc.plan = plan
            print('wire %s now:' % p, svc.call_wire(p, dc['name'], bound, hs if p == 'soap' else [])[:2])
    return 0
