"""Shared machinery of the checks: Coq build/evaluation, Gallina printers,
known findings, replays, evidence.  See DESIGN.md section 3.3."""
import os, sys, re, json, time, subprocess, hashlib, random, fcntl, shutil

ROOT = os.path.dirname(os.path.dirname(os.path.abspath(__file__)))
REPO = os.environ.get('VERIF_REPO', '/repo')
COQ = os.path.join(ROOT, 'coq')
SCRATCH = os.path.join(ROOT, '.scratch')
FORBIDDEN = re.compile(r'\b(Admitted|admit|Axiom|Axioms|Parameter|Parameters|Conjecture|Conjectures|'
                       r'Hypothesis|Hypotheses|Variable|Variables|Admit Obligations)\b|Unset Guard|'
                       r'bypass_check|type-in-type|impredicative-set|Unset Universe|Unset Positivity')
STRANGER = re.compile(r'Admitted|admit|Axiom|Parameter|Conjecture|Unset Guard|bypass_check')
# axioms of the standard library that a theorem may depend on (named in the trusted base when used)
STDLIB_AXIOMS = ('functional_extensionality_dep', 'classic', 'proof_irrelevance', 'JMeq_eq',
                 'Eqdep.Eq_rect_eq.eq_rect_eq', 'propositional_extensionality')


def ensure_repo_on_path():
    if sys.path[0] != REPO:
        sys.path.insert(0, REPO)
    import spyne
    if not os.path.abspath(spyne.__file__).startswith(os.path.abspath(REPO) + os.sep):
        raise RuntimeError('spyne imported from %s, expected under %s' % (spyne.__file__, REPO))


# ---------------------------------------------------------------- Gallina printers
def gz(n):
    n = int(n)
    return '(%d)' % n if n < 0 else '%d' % n

def gbool(b):
    return 'true' if b else 'false'

def glist(items):
    return '[' + '; '.join(items) + ']'

def gtext(s):
    """Python str (or bytes) -> list Z of code points"""
    if isinstance(s, bytes):
        return glist([str(b) for b in s])
    return glist([str(ord(c)) for c in s])

def gopt(x, f=lambda v: v):
    return 'None' if x is None else '(Some %s)' % f(x)

def gpair(*xs):
    return '(' + ', '.join(xs) + ')'


# ---------------------------------------------------------------- Coq driver
class CoqError(Exception):
    pass

def _lock():
    os.makedirs(SCRATCH, exist_ok=True)
    f = open(os.path.join(ROOT, '.build.lock'), 'w')
    fcntl.flock(f, fcntl.LOCK_EX)
    return f

def regen():
    """regenerate coq/Gen from the working tree; returns {translator: 'ok'|error}"""
    sys.path.insert(0, os.path.join(ROOT, 'harness'))
    import translate
    return translate.run()

def coq_project():
    files = []
    for d, _, fs in os.walk(COQ):
        for f in fs:
            if f.endswith('.v'):
                files.append(os.path.relpath(os.path.join(d, f), COQ))
    files.sort()
    text = '-R . SpyneV\n' + '\n'.join(files) + '\n'
    p = os.path.join(COQ, '_CoqProject')
    old = open(p).read() if os.path.exists(p) else None
    if old != text or not os.path.exists(os.path.join(COQ, 'Makefile')):
        with open(p, 'w') as f:
            f.write(text)
        subprocess.run(['coq_makefile', '-f', '_CoqProject', '-o', 'Makefile'], cwd=COQ,
                       check=True, stdout=subprocess.DEVNULL, stderr=subprocess.DEVNULL)

def build(targets, timeout=1500):
    """make the given .vo targets (full .vo build, never -vos). Returns (ok, log)."""
    lk = _lock()
    try:
        coq_project()
        cmd = ['timeout', str(timeout), 'make', '-k', '-j16'] + list(targets)
        p = subprocess.run(cmd, cwd=COQ, stdout=subprocess.PIPE, stderr=subprocess.STDOUT, text=True)
        return p.returncode == 0, p.stdout
    finally:
        lk.close()

def failing_lemmas(log):
    """from a make log: list of (file, line, enclosing Lemma/Theorem name, message)"""
    out = []
    for m in re.finditer(r'File "\./([^"]+)", line (\d+), characters [^\n]*\n((?:.*\n){0,6}?)(?=make|\Z|File|COQC)', log):
        fn, line, msg = m.group(1), int(m.group(2)), m.group(3).strip()
        if 'Error' not in msg and 'Error' not in log[m.start():m.end() + 200]:
            continue
        name = '?'
        try:
            src = open(os.path.join(COQ, fn)).read().split('\n')
            for i in range(min(line, len(src)) - 1, -1, -1):
                mm = re.match(r'\s*(Lemma|Theorem|Corollary|Example|Definition|Fixpoint|Fact)\s+([A-Za-z0-9_\']+)', src[i])
                if mm:
                    name = mm.group(2)
                    break
        except IOError:
            pass
        out.append((fn, line, name, msg[:300]))
    return out

def coqc_text(name, text, timeout=600):
    """compile a scratch .v file against the built library; returns stdout. Raises CoqError."""
    d = os.path.join(SCRATCH, 'p%d' % os.getpid())
    os.makedirs(d, exist_ok=True)
    path = os.path.join(d, name + '.v')
    with open(path, 'w') as f:
        f.write(text)
    p = subprocess.run(['timeout', str(timeout), 'coqc', '-R', COQ, 'SpyneV', path],
                       cwd=d, stdout=subprocess.PIPE, stderr=subprocess.PIPE, text=True)
    if p.returncode != 0:
        raise CoqError('coqc %s failed (rc=%d): %s' % (path, p.returncode, (p.stderr or p.stdout)[-2000:]))
    return p.stdout

def cleanup_scratch():
    shutil.rmtree(os.path.join(SCRATCH, 'p%d' % os.getpid()), ignore_errors=True)

def parse_eval_lists(out):
    """all '= [...] : list Z' answers of Eval vm_compute, in order, as lists of int"""
    res = []
    for m in re.finditer(r'=\s*(\[[^\]]*\])\s*:\s*list Z', out):
        body = m.group(1).strip()[1:-1].strip()
        if not body:
            res.append([])
        else:
            res.append([int(x.strip().strip('()').replace(' ', '')) for x in body.split(';')])
    return res

def coq_bad_indices(prop, shard_texts, timeout=900, jobs=12):
    """each shard text is a complete .v file whose Eval vm_compute answers are
    lists of failing indices; returns list (per shard) of lists (per Eval)."""
    d = os.path.join(SCRATCH, 'p%d' % os.getpid())
    os.makedirs(d, exist_ok=True)
    procs = []
    results = [None] * len(shard_texts)
    pending = list(enumerate(shard_texts))
    running = []
    def start(i, text):
        path = os.path.join(d, '%s_cases_%d.v' % (prop, i))
        with open(path, 'w') as f:
            f.write(text)
        pr = subprocess.Popen(['timeout', str(timeout), 'coqc', '-R', COQ, 'SpyneV', path], cwd=d,
                              stdout=subprocess.PIPE, stderr=subprocess.PIPE, text=True)
        return (i, pr, path)
    while pending or running:
        while pending and len(running) < jobs:
            i, t = pending.pop(0)
            running.append(start(i, t))
        i, pr, path = running.pop(0)
        so, se = pr.communicate()
        if pr.returncode != 0:
            raise CoqError('coqc %s failed (rc=%d): %s' % (path, pr.returncode, (se or so)[-2000:]))
        results[i] = parse_eval_lists(so)
    return results

def print_assumptions(module, theorems, timeout=300):
    """returns {theorem: [] (closed) | [axiom names] | None (missing / does not compile)}"""
    res = {}
    text = 'From SpyneV Require Import %s.\n' % module
    for t in theorems:
        text += 'Goal True. idtac "@@BEGIN %s". exact I. Qed.\nPrint Assumptions %s.\n' % (t, t)
    text += 'Goal True. idtac "@@END". exact I. Qed.\n'
    try:
        out = coqc_text('assum_' + module.replace('.', '_'), text, timeout)
    except CoqError as e:
        # find which ones exist by trying one at a time
        for t in theorems:
            try:
                o = coqc_text('assum1', 'From SpyneV Require Import %s.\nPrint Assumptions %s.\n' % (module, t), timeout)
                res[t] = _axioms_of(o)
            except CoqError:
                res[t] = None
        return res
    chunks = re.split(r'@@BEGIN (\S+)', out)
    for i in range(1, len(chunks), 2):
        name = chunks[i]
        body = chunks[i + 1].split('@@END')[0]
        res[name] = _axioms_of(body)
    for t in theorems:
        res.setdefault(t, None)
    return res

def _axioms_of(body):
    if 'Closed under the global context' in body:
        return []
    ax = []
    for line in body.split('\n'):
        m = re.match(r'^([A-Za-z_][A-Za-z0-9_\.\']*)\s*:', line)
        if m and line.strip() != 'Axioms:':
            ax.append(m.group(1))
    return ax

def scan_forbidden():
    """source scan of the whole development; returns list of 'file:line: text'"""
    hits = []
    for d, _, fs in os.walk(COQ):
        for f in fs:
            if not f.endswith('.v'):
                continue
            p = os.path.join(d, f)
            in_section = 0
            for i, line in enumerate(open(p, errors='replace'), 1):
                code = re.sub(r'\(\*.*?\*\)', '', line)
                if re.match(r'\s*Section\b', code):
                    in_section += 1
                if re.match(r'\s*End\b', code) and in_section:
                    in_section -= 1
                # what a stranger's grep would hit, comments included: keep the development free of it
                if STRANGER.search(line):
                    hits.append('%s:%d: %s' % (os.path.relpath(p, COQ), i, line.strip()[:100]))
                    continue
                m = FORBIDDEN.search(code)
                if m:
                    if m.group(1) in ('Hypothesis', 'Hypotheses', 'Variable', 'Variables') and in_section:
                        continue
                    hits.append('%s:%d: %s' % (os.path.relpath(p, COQ), i, line.strip()[:100]))
    return hits


# ---------------------------------------------------------------- findings, replays, evidence
def load_findings():
    """known_findings.json (committed; never written at run time) plus, during development,
    per-property fragments known_findings.d/*.json that are merged into it before committing"""
    out = []
    p = os.path.join(ROOT, 'known_findings.json')
    if os.path.exists(p):
        out.extend(json.load(open(p)))
    d = os.path.join(ROOT, 'known_findings.d')
    if os.path.isdir(d):
        for f in sorted(os.listdir(d)):
            if f.endswith('.json'):
                out.extend(json.load(open(os.path.join(d, f))))
    return out


class Check(object):
    """One run of one property's check."""

    def __init__(self, pid, tier='quick', seed=None):
        self.pid = pid
        self.tier = os.environ.get('VERIF_TIER', tier) if tier is None else tier
        self.seed = int(os.environ.get('VERIF_SEED', '0')) if seed is None else seed
        self.rng = random.Random(self.seed * 1000003 + int(hashlib.md5(pid.encode()).hexdigest()[:8], 16))
        self.t0 = time.time()
        self.findings = [f for f in load_findings() if f.get('property') == pid]
        self.known_keys = {f['key']: f for f in self.findings if f.get('status') == 'finding'}
        self.known_seen = {}
        self.violations = []        # (key, what, replay_path)
        self.broken = []            # (kind, name, detail)
        self.obligations = []       # theorem names
        self.discharged = []
        self.axioms = {}
        self.trusted = []
        self.assumptions = []
        self.evaluations = 0
        self.distinct = set()
        self.samples = []
        self.rule = ''
        self.extra = {}
        self.lines = []
        self.correspondences = {}

    # -- output
    def say(self, s):
        print(s)
        sys.stdout.flush()

    def log(self, s):
        print(s, file=sys.stderr)
        sys.stderr.flush()

    # -- coverage accounting
    def count(self, case_key, nontrivial=True):
        self.evaluations += 1
        if nontrivial:
            self.distinct.add(hashlib.md5(repr(case_key).encode('utf-8', 'replace')).digest()[:8])

    def sample(self, obj, limit=12):
        if len(self.samples) < limit:
            self.samples.append(obj)

    # -- proof obligations
    def prove(self, module, theorems, targets=None):
        """build the module's .vo and collect Print Assumptions for each theorem.
        Returns True iff everything is discharged."""
        self.obligations.extend('%s.%s' % (module, t) for t in theorems)
        tg = targets or [module.replace('.', '/') + '.vo']
        ok, log = build(tg)
        if not ok:
            fl = failing_lemmas(log)
            self.log(log[-3000:])
            for fn, line, name, msg in fl or [('?', 0, '?', log[-300:])]:
                self.broken.append(('proof', '%s:%d %s' % (fn, line, name), msg))
        ass = print_assumptions(module, theorems)
        allok = ok
        for t in theorems:
            ax = ass.get(t)
            full = '%s.%s' % (module, t)
            if ax is None:
                allok = False
                if not any(b[0] == 'proof' for b in self.broken):
                    self.broken.append(('proof', full, 'theorem does not compile or is missing'))
                continue
            # primitive machine integers / floats are kernel primitives, not axioms of ours; they are
            # named in the evidence (coverage.kernel_primitives) as part of the trusted base
            isprim = lambda a: (a.startswith('PrimFloat.') or a.startswith('PrimInt63.')
                                or a.startswith('Uint63.') or a in ('float', 'int'))
            prims = sorted(a for a in ax if isprim(a))
            if prims:
                self.extra.setdefault('kernel_primitives', {})[full] = prims
            ax = [a for a in ax if not isprim(a)]
            bad = [a for a in ax if not any(a.endswith(s) for s in STDLIB_AXIOMS)]
            self.axioms[full] = ax
            if bad:
                allok = False
                self.broken.append(('axiom', full, 'depends on non-stdlib axioms: %s' % bad))
            else:
                self.discharged.append(full)
        return allok

    def coqchk(self, modules, timeout=2400):
        """thorough tier: re-check the compiled property modules and everything they depend on with
        the independent checker coqchk and record the axioms it reports (coqchk -o).  A failing
        coqchk is a broken proof obligation."""
        mods = ['SpyneV.' + m for m in modules]
        p = subprocess.run(['timeout', str(timeout), 'coqchk', '-o', '-silent', '-R', COQ, 'SpyneV'] + mods,
                           cwd=COQ, stdout=subprocess.PIPE, stderr=subprocess.STDOUT, text=True)
        out = p.stdout
        summary = out[out.find('CONTEXT SUMMARY'):] if 'CONTEXT SUMMARY' in out else out[-1500:]
        ok = p.returncode == 0 and 'CONTEXT SUMMARY' in out
        def section(title):
            m = re.search(r'\* %s:(.*?)(?=\n\* |\Z)' % re.escape(title), summary, re.S)
            items = [x.strip() for x in (m.group(1) if m else '').split('\n') if x.strip()]
            return [] if items == ['<none>'] else items
        rep = {'modules': mods, 'ok': ok, 'axioms': section('Axioms'),
               'type_in_type': section('Constants/Inductives relying on type-in-type'),
               'unsafe_fixpoints': section('Constants/Inductives relying on unsafe (co)fixpoints'),
               'assumed_positivity': section('Inductives whose positivity is assumed')}
        self.extra['coqchk'] = rep
        if not ok:
            self.broken.append(('proof', 'coqchk ' + ' '.join(mods), out[-600:]))
        for k in ('type_in_type', 'unsafe_fixpoints', 'assumed_positivity'):
            if rep[k]:
                self.broken.append(('source', 'coqchk:' + k, '; '.join(rep[k])[:300]))
        bad = [a for a in rep['axioms'] if not any(x in a for x in STDLIB_AXIOMS)
               and not re.search(r'PrimFloat|PrimInt63|Uint63|Float64|Int63|Sint63', a)]
        if bad:
            self.broken.append(('axiom', 'coqchk', 'axioms outside the standard library: %s' % bad[:5]))
        return ok

    def check_sources(self):
        hits = scan_forbidden()
        for h in hits:
            self.broken.append(('source', h, 'forbidden construct in the Coq development'))
        return not hits

    def regen(self, needed=()):
        res = regen()
        for k, v in res.items():
            if v != 'ok' and (not needed or k in needed):
                self.broken.append(('translator', k, v))
        return res

    # -- verdicts
    def fail(self, key, what, replay):
        """an oracle failure on the implementation: a concrete violating input"""
        if key in self.known_keys:
            if key not in self.known_seen:
                self.known_seen[key] = what
            return False
        for k2, w2, _ in self.violations:
            if k2 == key:
                return True
        path = self.write_replay(key, what, replay)
        self.violations.append((key, what, path))
        return True

    def mismatch(self, corr, detail):
        """model and implementation disagree on a case (not by itself a violation)"""
        self.broken.append(('correspondence', corr, detail))

    def write_replay(self, key, what, replay):
        d = os.path.join(ROOT, 'replays', self.pid)
        os.makedirs(d, exist_ok=True)
        h = hashlib.md5(key.encode('utf-8', 'replace')).hexdigest()[:12]
        path = os.path.join(d, h + '.json')
        obj = {'property': self.pid, 'key': key, 'what': what, 'seed': self.seed, 'tier': self.tier,
               'replay': replay, 'rerun': './vcheck %s --replay %s' % (self.pid, path)}
        with open(path, 'w') as f:
            json.dump(obj, f, indent=1, default=repr, ensure_ascii=True)
        return path

    def finish(self, level='proof', checker_cmd=None):
        if self.tier == 'thorough' and self.obligations and 'coqchk' not in self.extra \
                and not any(b[0] == 'proof' for b in self.broken):
            mods = sorted({o.rsplit('.', 1)[0] for o in self.obligations})
            try:
                self.coqchk(mods)
            except Exception as e:
                self.broken.append(('proof', 'coqchk', 'coqchk could not be run: %r' % e))
        for key, what in self.known_seen.items():
            self.say('KNOWN-FINDING: property=%s %s [%s]' % (self.pid, what, key))
        stale = [k for k in self.known_keys if k not in self.known_seen]
        for k in stale:
            self.log('note: known finding %s did not reproduce in this run (not an alarm)' % k)
        rc = 0
        for key, what, path in self.violations:
            self.say('VIOLATION property=%s replay=%s' % (self.pid, path))
            self.log('  violation: %s [%s]' % (what, key))
            rc = 1
        if self.broken and not self.violations:
            # an obligation or a correspondence broke and the search found no failing input
            key = 'broken|' + '|'.join('%s:%s' % (b[0], b[1]) for b in self.broken[:5])
            path = self.write_replay(key, 'proof obligation or correspondence no longer checks; '
                                     'no failing input found by the search',
                                     {'broken': [{'kind': b[0], 'name': b[1], 'detail': b[2]} for b in self.broken]})
            self.say('VIOLATION property=%s replay=%s no-failing-input-found' % (self.pid, path))
            rc = 1
        elif self.broken:
            for b in self.broken:
                self.log('  also broken: %s %s: %s' % b)
        cov = {
            'obligations': len(self.obligations),
            'discharged': len(self.discharged),
            'checker_cmd': checker_cmd or ('cd /verif && ./setup.sh  # coq_makefile + make (full .vo), then '
                                           'coqc Print Assumptions per theorem; ./vcheck %s' % self.pid),
            'trusted_base': self.trusted,
            'theorems': self.obligations,
            'axioms': {k: v for k, v in self.axioms.items() if v},
            'evaluations': self.evaluations,
            'distinct_nontrivial': len(self.distinct),
            'rule': self.rule,
            'samples': self.samples,
            'correspondences': self.correspondences,
            'broken': [{'kind': b[0], 'name': b[1], 'detail': b[2][:300]} for b in self.broken],
            'known_findings_reproduced': sorted(self.known_seen),
            'known_findings_not_reproduced': stale,
        }
        cov.update(self.extra)
        ev = {'property_id': self.pid, 'tier': self.tier, 'seed': self.seed, 'level': level,
              'coverage': cov, 'assumptions': self.assumptions,
              'wall_s': round(time.time() - self.t0, 2), 'violations': len(self.violations) + (1 if rc and not self.violations else 0)}
        # evidence/ describes /repo itself; a run pointed at another tree (VERIF_REPO: seeded changes,
        # builders' scratch trees) leaves it alone and writes under .scratch/
        evdir = os.path.join(ROOT, 'evidence') if os.path.abspath(REPO) == '/repo' \
            else os.path.join(SCRATCH, 'evidence-other-tree')
        os.makedirs(evdir, exist_ok=True)
        tmp = os.path.join(evdir, '%s.json.tmp' % self.pid)
        with open(tmp, 'w') as f:
            json.dump(ev, f, indent=1, default=repr, ensure_ascii=True)
        os.replace(tmp, os.path.join(evdir, '%s.json' % self.pid))
        cleanup_scratch()
        self.log('%s: %s in %.1fs (%d evaluations, %d/%d obligations)' % (
            self.pid, 'OK' if rc == 0 else 'ALARM', time.time() - self.t0, self.evaluations,
            len(self.discharged), len(self.obligations)))
        return rc


COMMON_TRUSTED = [
    'Coq 8.16.1 kernel and its vm_compute bytecode VM (no native_compute)',
    'coq_makefile/make full .vo build; Print Assumptions output parsed by harness/lib.py',
    'the correspondence harness (Python generators, runners and canonicalisers under /verif/harness; '
    'Gallina printers in harness/lib.py; comparison functions in the Coq case files)',
    'the fail-closed ast translators under /verif/harness/translate (what they accept is trusted to mean what the generated Coq says)',
    'Python evaluation rules and third-party library behaviour as transcribed in the hand-written models (tied by the correspondence, not verified)',
]


# ---------------------------------------------------------------- correspondence helper
_QUEUE = []

def correspond(check, name, imports, case_type, okb, cases, shard=400, show=None, timeout=900):
    """Queue a correspondence.  cases: list of (coq_term, description).  okb: Coq term of type
    case_type -> bool that is true iff the model agrees with the implementation's observation
    carried in the case.  show: optional Coq term case_type -> X evaluated on the first
    disagreeing cases for the log.  Evaluated by flush_correspondences()."""
    if cases:
        _QUEUE.append((name, imports, case_type, okb, cases, shard, show, timeout))

def flush_correspondences(check, jobs=14):
    """run every queued correspondence (one coqc per shard, in parallel); returns
    {name: [(index, description, model_output_text)]} for the disagreeing cases"""
    global _QUEUE
    queue, _QUEUE = _QUEUE, []
    texts, owners = [], []
    for qi, (name, imports, case_type, okb, cases, shard, show, timeout) in enumerate(queue):
        for s in range(0, len(cases), shard):
            chunk = cases[s:s + shard]
            texts.append('%s\nOpen Scope Z_scope.\nDefinition cases : list (%s) := [\n%s\n].\n'
                         'Eval vm_compute in (bad (%s) cases).\n' % (
                             imports, case_type, ';\n'.join(c[0] for c in chunk), okb))
            owners.append((qi, s))
    results = {}
    try:
        res = coq_bad_indices(check.pid, texts, timeout=900, jobs=jobs)
    except CoqError as e:
        check.mismatch('all', 'model evaluation failed: %s' % str(e)[-1500:])
        return {'all': [(-1, 'coq failure', str(e)[-500:])]}
    bad = {}
    for (qi, s), r in zip(owners, res):
        name = queue[qi][0]
        if len(r) != 1:
            check.mismatch(name, 'unexpected coqc output for shard at %d' % s)
            continue
        bad.setdefault(qi, []).extend(s + i for i in r[0])
    for qi, (name, imports, case_type, okb, cases, shard, show, timeout) in enumerate(queue):
        b = bad.get(qi, [])
        prev = check.correspondences.get(name, {'cases': 0, 'disagreements': 0})
        check.correspondences[name] = {'cases': prev['cases'] + len(cases),
                                       'disagreements': prev['disagreements'] + len(b)}
        out = []
        for i in b[:4]:
            mo = ''
            if show:
                try:
                    o = coqc_text('show', '%s\nOpen Scope Z_scope.\nEval vm_compute in (%s (%s)).\n'
                                  % (imports, show, cases[i][0]))
                    mo = ' '.join(o.split())[:600]
                except CoqError as e:
                    mo = 'show failed'
            out.append((i, cases[i][1], mo))
        for i in b[4:]:
            out.append((i, cases[i][1], ''))
        for i, desc, mo in out[:4]:
            check.mismatch(name, 'case %r: model says %s' % (desc, mo))
        if out:
            results[name] = out
    return results
