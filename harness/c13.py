"""C13 — WSGI response protocol and request-size limit.

Drives the real spyne.server.wsgi.WsgiApplication with a recording
start_response, a counting wsgi.input that answers reads as planned, listeners
on method_context_closed / wsgi_close / wsgi_exception, services that record
when user code runs, and a server side that takes k chunks and then (maybe)
calls close().  Two things are done with what is seen:

* correspondence: the outcomes of the layers BELOW the WSGI layer (observed at
  the four calls handle_rpc makes: generate_contexts, get_in_object,
  get_out_object, get_out_string) are the scenario; coq/C13/Model.v must
  produce exactly the observed trace from it;
* direct oracle: the property itself, checked on the raw observations.
"""
import os, sys, io, json, re, base64, traceback
import lib
from lib import gz, glist, gbool, gopt

THEOREMS = ['C13_start_discipline', 'C13_one_start', 'C13_no_start_means_raise',
            'C13_clen', 'C13_read_bound', 'C13_asks_bound',
            'C13_too_long_declared', 'C13_user_means_fits', 'C13_too_long_undeclared',
            'C13_too_long_unread_refuted', 'C13_close_discipline', 'C13_closed_once',
            'C13_iterator_refines', 'C13_closed_once_failing_close']

IMPORTS = 'From SpyneV Require Import Base.Prelude Base.Digits C13.Model.'

# ------------------------------------------------------------------ the applications under test
CUR = []          # event list of the request being driven
_APPS = {}


class BodyFails(Exception):
    """raised by a user generator in the middle of a streamed body"""


def emit(x):
    CUR.append(x)


def services():
    from spyne import rpc, ServiceBase, Unicode, Integer, Iterable, ByteArray, Fault
    from spyne import error as E

    class Svc(ServiceBase):
        @rpc(Unicode, _returns=Unicode)
        def echo(ctx, s):
            emit(('user', 'echo'))
            return s

        @rpc(Integer, _returns=Integer)
        def twice(ctx, a):
            emit(('user', 'twice'))
            return 2 * (a or 0)

        @rpc(Integer, _returns=Iterable(Unicode))
        def items(ctx, n):
            emit(('user', 'items'))
            def g():
                for i in range(n or 0):
                    yield 'item%d' % i
            return g()

        @rpc(Unicode, _returns=Unicode)
        def boom(ctx, s):
            emit(('user', 'boom'))
            if s == 'client':
                raise Fault('Client.Boom', 'boom')
            if s == 'server':
                raise Fault('Server.Boom', 'boom')
            if s == 'cred':
                raise E.InvalidCredentialsError()
            if s == 'notfound':
                raise E.ResourceNotFoundError('x')
            if s == 'arg':
                raise E.ArgumentError('x')
            if s == 'toolong':
                raise E.RequestTooLongError()
            if s == 'internal':
                raise E.InternalError('x')
            if s == 'key':
                raise KeyError('x')
            raise ZeroDivisionError('x')

        @rpc(Integer, Integer, Unicode, _returns=ByteArray)
        def blob(ctx, n, sz, mode):
            emit(('user', 'blob'))
            chunks = [bytes([97 + i % 26]) * (sz or 0) for i in range(n or 0)]
            if mode == 'list':
                return chunks
            if mode == 'gen':
                def g():
                    for c in chunks:
                        yield c
                return g()
            if mode == 'genfault':
                def g():
                    raise Fault('Client.Early', 'early')
                    yield b''
                return g()
            if mode == 'genexn':
                def g():
                    raise KeyError('early')
                    yield b''
                return g()
            if mode == 'genmid':
                def g():
                    for c in chunks:
                        yield c
                    raise BodyFails('mid')
                return g()
            if mode == 'lazymid':
                # NOT a generator function: an iterable object that is read lazily and fails part-way
                # (a file-like value whose second read raises)
                class Lazy(object):
                    def __iter__(self_):
                        for c in chunks:
                            yield c
                        raise BodyFails('mid')
                return Lazy()
            if mode == 'ostring':
                ctx.out_string = chunks
                return None
            if mode == 'clen':
                ctx.transport.resp_headers['Content-Length'] = '99999'
                return chunks
            if mode == 'genclen':
                ctx.transport.resp_headers['Content-Length'] = '99999'
                def g():
                    for c in chunks:
                        yield c
                return g()
            return chunks
    return Svc


def combo_protocols(combo):
    from spyne.protocol.soap import Soap11
    from spyne.protocol.json import JsonDocument
    from spyne.protocol.xml import XmlDocument
    from spyne.protocol.http import HttpRpc
    return {
        'soap': lambda: (Soap11(validator='soft'), Soap11()),
        'json': lambda: (JsonDocument(validator='soft'), JsonDocument()),
        'xml': lambda: (XmlDocument(validator='soft'), XmlDocument()),
        'http': lambda: (HttpRpc(validator='soft'), HttpRpc()),
        'http-json': lambda: (HttpRpc(validator='soft'), JsonDocument()),
        'json-http': lambda: (JsonDocument(validator='soft'), HttpRpc()),
    }[combo]()

CONSUMING = {'soap': True, 'json': True, 'xml': True, 'http': False, 'http-json': False, 'json-http': True}


def get_app(combo, nodocs=False, variant=None):
    """one spyne Application per protocol combination (its listeners write into CUR)"""
    key = (combo, nodocs, variant)
    if key in _APPS:
        return _APPS[key]
    from spyne import Application
    from spyne.interface import InterfaceDocuments
    kw = {}
    if nodocs:
        class NoDocs(InterfaceDocuments):
            def __init__(self, interface):
                super(NoDocs, self).__init__(interface)
                self.wsdl11 = None
        kw['documents_container'] = NoDocs
    inp, outp = combo_protocols(combo)
    app = Application([services()], 'c13.tns', name='C13App', in_protocol=inp, out_protocol=outp, **kw)
    app.event_manager.add_listener('method_context_closed', lambda ctx: emit(('ctxclose',)))
    _APPS[key] = app
    return app


def make_wsgi(combo, cfg, nodocs=False, variant=None):
    from spyne.server.wsgi import WsgiApplication
    app = get_app(combo, nodocs, variant)
    w = WsgiApplication(app, chunked=cfg['chunked'], max_content_length=cfg['mcl'], block_length=cfg['bl'])
    w.event_manager.add_listener('wsgi_close', lambda ctx: emit(('wsgiclose',)))

    def on_exc(ctx):
        emit(('wsgi_exception', fault_kind(ctx.out_error), getattr(ctx.out_error, 'faultcode', None)))
    w.event_manager.add_listener('wsgi_exception', on_exc)
    return w


# ------------------------------------------------------------------ instruments
def fault_kind(e):
    from spyne.error import RequestTooLongError, ValidationError
    if isinstance(e, RequestTooLongError):
        return 'toolong'
    if isinstance(e, ValidationError) and 'Content-Length' in (e.faultstring or ''):
        return 'badlength'
    return 'other'

FK = {'toolong': 'FTooLong', 'badlength': 'FBadLength', 'other': 'FOther'}


class PlannedInput(object):
    """wsgi.input over `body`: the i-th read returns at most caps[i] bytes (a cap of 0 is a
    premature end of stream); reads beyond the plan return whatever is left."""

    def __init__(self, body, caps):
        self.body, self.pos, self.caps, self.i = body, 0, list(caps), 0
        self.offers = []

    def _cap(self):
        return self.caps[self.i] if self.i < len(self.caps) else len(self.body)

    def read(self, n=-1):
        offer = min(self._cap(), len(self.body) - self.pos)
        self.i += 1
        self.offers.append(offer)
        k = offer if n is None or n < 0 else min(n, offer)
        data = self.body[self.pos:self.pos + k]
        self.pos += k
        emit(('read', n, len(data)))
        return data

    def next_offer(self):
        return min(self._cap(), len(self.body) - self.pos)

    def readline(self, *a):
        raise AssertionError('readline not expected')
    readlines = __iter__ = readline


class Probe(object):
    """records the outcome of the four calls handle_rpc makes into the layers below it;
    can inject a crash at each of them"""

    def __init__(self, w, inject=None):
        self.w = w
        self.inject = inject
        self.gen = self.inp = self.user = None
        self.consumed = False
        self.result = None      # 'plain' | ['gen', first_step]
        self.ser = None         # ('ok', sized, lens, fails_box) | ('exn',)
        self.eser = None        # ('ok', lens) | ('exn',)
        w.generate_contexts = self.generate_contexts
        w.get_in_object = self.get_in_object
        w.get_out_object = self.get_out_object
        w.get_out_string = self.get_out_string

    def _real(self, name):
        return getattr(type(self.w), name).__get__(self.w)

    def generate_contexts(self, ctx, charset=None):
        probe, inner = self, ctx.in_string

        def watched_in():
            probe.consumed = True          # the input protocol starts to iterate ctx.in_string
            for x in inner:
                yield x
        ctx.in_string = watched_in()
        try:
            rv = self._real('generate_contexts')(ctx, charset)
            if self.inject == 'gen':
                raise KeyError('injected below the WSGI layer')
        except BaseException:
            self.gen = 'crash'
            raise
        self.gen = ('fault', fault_kind(rv[0].in_error)) if rv[0].in_error else 'ok'
        return rv

    def get_in_object(self, ctx):
        try:
            self._real('get_in_object')(ctx)
            if self.inject == 'in':
                raise KeyError('injected below the WSGI layer')
        except BaseException:
            self.inp = 'crash'
            raise
        self.inp = ('fault', fault_kind(ctx.in_error)) if ctx.in_error else 'ok'

    def get_out_object(self, ctx):
        from inspect import isgenerator
        self._real('get_out_object')(ctx)
        if ctx.out_error is not None:
            self.user = ('raise', fault_kind(ctx.out_error))
            return
        self.user = 'return'
        self.result = 'plain'
        oo = ctx.out_object
        if oo is not None and len(oo) == 1 and isgenerator(oo[0]):
            box = ['gen', None]
            self.result = box

            def watched(g):
                try:
                    first = next(g)
                    box[1] = 'item'
                except StopIteration:
                    box[1] = 'stop'
                    return
                except BaseException as e:
                    box[1] = ('raise', fault_kind(e))
                    raise
                yield first
                for x in g:
                    yield x
            ctx.out_object = (watched(oo[0]),)

    def get_out_string(self, ctx):
        on_error = ctx.out_error is not None
        try:
            self._real('get_out_string')(ctx)
            if self.inject == ('eser' if on_error else 'ser'):
                raise KeyError('injected below the WSGI layer')
            if on_error:
                ctx.out_string = list(ctx.out_string)   # what handle_error does next anyway
        except BaseException:
            if on_error:
                self.eser = ('exn',)
            else:
                self.ser = ('exn',)
            raise
        if on_error:
            self.eser = ('ok', [len(c) for c in ctx.out_string])
            return
        os_ = ctx.out_string
        try:
            len(os_)
            self.ser = ('ok', True, [len(c) for c in os_], [False])
        except TypeError:
            lens, fails = [], [False]

            def recorded(it):
                try:
                    for c in it:
                        lens.append(len(c))
                        yield c
                except BaseException:
                    fails[0] = True
                    raise
            ctx.out_string = recorded(os_)
            self.ser = ('ok', False, lens, fails)


# ------------------------------------------------------------------ driving one request
def base_environ(method, path, qs, ctype):
    env = {'REQUEST_METHOD': method, 'PATH_INFO': path, 'QUERY_STRING': qs, 'SCRIPT_NAME': '',
           'SERVER_NAME': 'c13.test', 'SERVER_PORT': '80', 'SERVER_PROTOCOL': 'HTTP/1.1',
           'wsgi.url_scheme': 'http', 'wsgi.version': (1, 0), 'wsgi.errors': io.StringIO(),
           'wsgi.multithread': False, 'wsgi.multiprocess': False, 'wsgi.run_once': False}
    if ctype is not None:
        env['CONTENT_TYPE'] = ctype
    return env


def drive(case):
    """runs one case against the implementation; returns the observation dict"""
    global CUR
    CUR = ev = []
    cfg = case['cfg']
    w = make_wsgi(case['combo'], cfg, case.get('nodocs', False), 'wsdl_fail' if case.get('wsdl_fail') else None)
    if case.get('wsdl_fail'):
        def failing(url):
            raise RuntimeError('injected: cannot build the interface document')
        w.doc.wsdl11.build_interface_document = failing
    # 'wsdl' event listeners may replace ctx.transport.wsdl (e.g. to rewrite the service address):
    # the document that is SENT is the one the context holds after the event, and that is the
    # length the model's wsdl_state carries
    wsdl_sent = []
    if case.get('wsdl_rewrite'):
        pad = b'<!-- rewritten by a wsdl listener -->' * case['wsdl_rewrite']
        w.event_manager.add_listener('wsdl', lambda ctx: setattr(ctx.transport, 'wsdl',
            ctx.transport.wsdl[:-case['wsdl_rewrite']] if case.get('wsdl_shrink') else ctx.transport.wsdl + pad))
    w.event_manager.add_listener('wsdl', lambda ctx: wsdl_sent.append(len(ctx.transport.wsdl)))
    # a close callback that raises: a listener of wsgi_close (registered after the recording one), or a handle
    # in ctx.files whose close() fails inside MethodContext.close (after method_context_closed has fired)
    if case.get('close_fails') == 'listener':
        def failing_close_listener(ctx):
            raise RuntimeError('injected: a wsgi_close listener fails')
        w.event_manager.add_listener('wsgi_close', failing_close_listener)
    elif case.get('close_fails') == 'file':
        class BadFile(object):
            def close(self):
                raise IOError('injected: a ctx.files handle fails to close')

        def plant(ctx):
            if not any(isinstance(f, BadFile) for f in ctx.files):
                ctx.files.append(BadFile())
        for evn in ('wsgi_return', 'wsgi_exception', 'wsdl', 'wsdl_exception'):
            w.event_manager.add_listener(evn, plant)
    probe = Probe(w, case.get('inject'))
    body = case['body'] if isinstance(case['body'], bytes) else base64.b64decode(case['body'])
    inp = PlannedInput(body, case['caps'])
    env = base_environ(case['method'], case['path'], case['qs'], case['ctype'])
    env['wsgi.input'] = inp
    if case['cl'] is not None:
        env['CONTENT_LENGTH'] = case['cl']
    is_wsdl = bool(w.is_wsdl_request(env))
    wsdl_state = None
    if is_wsdl:
        wsdl_state = 'nodoc' if w.doc.wsdl11 is None else ('ready' if w._wsdl is not None else 'build')
    starts = []

    def start_response(status, headers, exc_info=None):
        starts.append((status, headers, exc_info))
        emit(('start', status, list(headers) if isinstance(headers, list) else headers))

    app = w
    if case.get('validate'):
        from wsgiref.validate import validator
        app = validator(w)
    chunks = []
    err = None
    try:
        it = app(env, start_response)
        emit(('returned',))
        take = case['take']
        itr = iter(it)
        k = 0
        while take is None or k < take:
            try:
                c = next(itr)
            except StopIteration:
                break
            emit(('chunk', type(c).__name__, len(c)))
            chunks.append(c)
            k += 1
        if case['closes'] and hasattr(it, 'close'):
            emit(('close()',))
            it.close()
    except BaseException as e:
        err = e
        tb = traceback.extract_tb(e.__traceback__)
        site = '?'
        for fr in tb:
            if os.sep + 'spyne' + os.sep in fr.filename:
                site = '%s:%s' % (fr.filename.split(os.sep + 'spyne' + os.sep, 1)[1], fr.name)
        emit(('raise', type(e).__name__, site))
        if case['closes'] and 'it' in locals() and hasattr(it, 'close'):
            # what wsgiref's BaseHandler does: finally: result.close(), whatever happened before
            try:
                it.close()
            except BaseException as e2:
                emit(('raise', type(e2).__name__, 'second close()'))
    finally:
        if case.get('wsdl_fail'):
            try:
                del w.doc.wsdl11.build_interface_document
            except AttributeError:
                pass
    return {'events': ev, 'probe': probe, 'offers': inp.offers + [inp.next_offer()], 'is_wsdl': is_wsdl,
            'wsdl_state': wsdl_state, 'chunks': chunks, 'starts': starts, 'err': err,
            'wsdl_len': (wsdl_sent[-1] if wsdl_sent else
                         (len(w._wsdl) if is_wsdl and getattr(w, '_wsdl', None) is not None else None))}


# ------------------------------------------------------------------ observation -> Coq terms
def canon_trace(obs):
    """the observed events in the vocabulary of the model"""
    out = []
    kind = None
    for e in obs['events']:
        t = e[0]
        if t == 'wsgi_exception':
            kind = 'RErr ' + FK[e[1]]
        elif t == 'read':
            out.append('Read %s %s' % (gz(e[1]), gz(e[2])))
        elif t == 'user':
            out.append('User')
        elif t == 'start':
            status, headers = e[1], e[2]
            cl = None
            try:
                for h, v in headers:
                    if h.lower() == 'content-length':
                        cl = int(v)
            except Exception:
                cl = -1
            if obs['is_wsdl']:
                k = {'200': 'RWsdl200', '404': 'RWsdl404', '500': 'RWsdl500'}.get(str(status)[:3], 'ROk')
            else:
                k = kind or 'ROk'
            out.append('Start (%s) %s' % (k, gopt(cl, gz)))
        elif t == 'chunk':
            out.append('Chunk %s' % gz(e[2]))
        elif t == 'ctxclose':
            out.append('CtxClose')
        elif t == 'wsgiclose':
            out.append('WsgiClose')
        elif t == 'raise':
            out.append('Raise OtherExn')
    return out


def scenario_term(case, obs):
    p = obs['probe']
    cfg = case['cfg']
    c = '(Cfg %s %s %s)' % (gbool(cfg['chunked']), gz(cfg['mcl']), gz(cfg['bl']))
    ws = 'WNoDoc'
    if obs['is_wsdl']:
        if obs['wsdl_state'] == 'ready':
            ws = '(WReady %s)' % gz(obs['wsdl_len'])
        elif obs['wsdl_state'] == 'build':
            ws = '(WBuild %s)' % gopt(None if case.get('wsdl_fail') else obs['wsdl_len'], gz)
    def stage(x):
        if isinstance(x, tuple):
            return '(SFault %s)' % FK[x[1]]
        return {None: 'SOk', 'ok': 'SOk', 'crash': '(SCrash OtherExn)'}[x]
    if isinstance(p.user, tuple):
        user = '(URaise %s)' % FK[p.user[1]]
    elif p.result is None or p.result == 'plain':
        user = '(UReturn RPlain)'
    else:
        f = p.result[1]
        user = '(UReturn (RGen %s))' % ('(FRaise %s)' % FK[f[1]] if isinstance(f, tuple)
                                        else {'item': 'FItem', 'stop': 'FStop', None: 'FItem'}[f])
    if p.ser is None or p.ser[0] == 'exn':
        ser = 'SerExn'
    elif p.ser[1]:
        ser = '(SerOk (BSized %s))' % glist([gz(x) for x in p.ser[2]])
    else:
        ser = '(SerOk (BLazy %s %s))' % (glist([gz(x) for x in p.ser[2]]), gbool(p.ser[3][0]))
    if p.eser is None:
        eser = '(ESerOk [])'
    elif p.eser[0] == 'exn':
        eser = '(ESerExn OtherExn)'
    else:
        eser = '(ESerOk %s)' % glist([gz(x) for x in p.eser[1]])
    cl = case['cl']
    r = '(Req %s %s %s %s %s %s %s %s %s %s %s %s)' % (
        gbool(obs['is_wsdl']), ws, gopt(cl, lib.gtext), glist([gz(x) for x in obs['offers']]),
        gbool(p.consumed), stage(p.gen), stage(p.inp), user, ser, eser,
        gopt(case['take'], lambda k: '%d%%nat' % k), gbool(case['closes']))
    if case.get('close_fails'):
        return '(%s, %s, %s, %s)' % (c, r, {'listener': 'CFListener', 'file': 'CFFile'}[case['close_fails']],
                                     glist(canon_trace(obs)))
    return '(%s, %s, %s)' % (c, r, glist(canon_trace(obs)))


# ------------------------------------------------------------------ the direct oracle
STATUS_RE = re.compile(r'^\d{3} \S.*$')


def site_of(obs):
    if obs['is_wsdl']:
        return 'handle_wsdl_request'
    if any(e[0] == 'wsgi_exception' for e in obs['events']):
        return 'handle_error'
    return 'handle_rpc'


def body_too_long(case):
    """the property's notion: the declared length when there is one, else what the stream holds"""
    mcl = case['cfg']['mcl']
    cl = case['cl']
    if cl is None:
        if 0 in case['caps']:
            return False, 'undeclared'      # the stream ends early: how much it holds depends on the reads
        body = case['body'] if isinstance(case['body'], bytes) else base64.b64decode(case['body'])
        return len(body) > mcl, 'undeclared'
    s = cl.strip()
    if re.match(r'^[+-]?\d+(_\d+)*$', s) and s.isascii():
        return int(s) > mcl, 'declared'
    return False, 'declared'


def oracle(check, case, obs):
    """the property, on the implementation alone; returns list of (key, what)"""
    ev = obs['events']
    fails = []
    site = site_of(obs)
    injected = case.get('inject') is not None
    names = [e[0] for e in ev]
    shape = '%s|%s' % (case['combo'], case['kind'])
    # -- start_response exactly once, before any chunk, status line + string headers
    nstart = names.count('start')
    if nstart == 0 and not injected:
        r = [e for e in ev if e[0] == 'raise']
        where = '%s:%s' % (r[0][2], r[0][1]) if r else 'no-exception'
        fails.append(('C13|start_response-not-called|%s|chunked=%s' % (where, case['cfg']['chunked']),
                      'the WSGI callable raised %s without calling start_response (%s)' % (r[0][1] if r else '?', shape)))
    if nstart > 1:
        fails.append(('C13|start_response-called-twice|%s' % site, 'start_response called %d times (%s)' % (nstart, shape)))
    if nstart >= 1:
        i0 = names.index('start')
        if 'chunk' in names[:i0]:
            fails.append(('C13|chunk-before-start_response|%s' % site, 'a body chunk was produced before start_response'))
        for e in ev:
            if e[0] != 'start':
                continue
            status, headers = e[1], e[2]
            if type(status) is not str or not STATUS_RE.match(status):
                fails.append(('C13|bad-status-line|%s' % site, 'status %r is not a status line' % (status,)))
            if type(headers) is not list or not all(type(h) is tuple and len(h) == 2 and type(h[0]) is str
                                                    and type(h[1]) is str for h in headers):
                fails.append(('C13|non-string-headers|%s' % site, 'headers %r are not a list of (str, str)' % (headers,)))
    # -- chunks are bytes
    for e in ev:
        if e[0] == 'chunk' and e[1] != 'bytes':
            fails.append(('C13|non-bytes-chunk|%s' % site, 'a body chunk of type %s was handed to the server (%s)' % (e[1], shape)))
            break
    # -- Content-Length
    for e in ev:
        if e[0] == 'start' and type(e[2]) is list:
            for h in e[2]:
                if type(h) is tuple and len(h) == 2 and str(h[0]).lower() == 'content-length':
                    sent = sum(x[2] for x in ev if x[0] == 'chunk')
                    complete = case['take'] is None and 'raise' not in names
                    try:
                        n = int(h[1])
                    except Exception:
                        n = None
                    if n is None or sent > n or (complete and sent != n):
                        fails.append(('C13|content-length-mismatch|%s' % site,
                                      'Content-Length %r but %d body bytes %s (%s)' % (
                                          h[1], sent, 'in total' if complete else 'so far', shape)))
    # -- the size limit
    mcl = case['cfg']['mcl']
    nread = sum(e[2] for e in ev if e[0] == 'read')
    if nread > mcl:
        fails.append(('C13|read-beyond-limit|%s' % ('undeclared' if case['cl'] is None else 'declared'),
                      '%d bytes read from wsgi.input with max_content_length=%d' % (nread, mcl)))
    too_long, how = body_too_long(case)
    if too_long and not obs['is_wsdl']:
        reads = 'body-read' if obs['probe'].consumed else 'body-never-read'
        if 'user' in names:
            fails.append(('C13|too-long-reaches-user-code|%s|%s' % (how, reads),
                          'a request body longer than max_content_length=%d (%s length) was not refused: '
                          'user code ran (%s)' % (mcl, how, shape)))
        elif not injected and not any(e[0] == 'wsgi_exception' and e[1] == 'toolong' for e in ev):
            fails.append(('C13|too-long-not-refused-as-such|%s|%s' % (how, reads),
                          'a request body longer than max_content_length=%d (%s length) did not end in the '
                          'request-too-long fault (%s)' % (mcl, how, shape)))
        elif case['take'] is None and nstart == 1 and b'RequestTooLong' not in b''.join(
                c for c in obs['chunks'] if isinstance(c, bytes)):
            fails.append(('C13|too-long-fault-not-in-body|%s' % how, 'the response does not carry Client.RequestTooLong'))
    # -- the context is closed exactly once and not before the body has been handed over
    nclose = names.count('ctxclose')
    if nclose > 1:
        fails.append(('C13|context-closed-twice|%s' % site, 'the request context was closed %d times (%s)' % (nclose, shape)))
    if nclose >= 1:
        ic = names.index('ctxclose')
        if 'returned' in names and ic < names.index('returned') or 'chunk' in names[ic:]:
            fails.append(('C13|close-before-body|%s' % site,
                          'the request context was closed before the response body was handed to the server (%s)' % shape))
    exhausted = case['take'] is None or len([1 for n in names if n == 'chunk']) < case['take']
    if nclose == 0 and nstart == 1 and (case['closes'] or exhausted):
        fails.append(('C13|context-never-closed|%s' % site,
                      'the response was started and consumed/closed by the server but the request context was never closed (%s)' % shape))
    return fails


# ------------------------------------------------------------------ generators
def soap_body(method, arg, val, pad=0):
    return ('<soapenv:Envelope xmlns:soapenv="http://schemas.xmlsoap.org/soap/envelope/" xmlns:t="c13.tns">'
            '<soapenv:Body><t:%s><t:%s>%s</t:%s></t:%s></soapenv:Body></soapenv:Envelope>%s'
            % (method, arg, val, arg, method, ' ' * pad)).encode()

def xml_body(method, arg, val, pad=0):
    return ('<t:%s xmlns:t="c13.tns"><t:%s>%s</t:%s></t:%s>%s' % (method, arg, val, arg, method, ' ' * pad)).encode()

def json_body(method, args, pad=0):
    return (json.dumps({method: args}) + ' ' * pad).encode()


REQUEST_KINDS = ['ok', 'gen', 'gen0', 'unknown', 'malformed', 'invalid', 'fault', 'exn']
FAULTS = ['client', 'server', 'cred', 'notfound', 'arg', 'toolong', 'internal']


def make_request(rng, combo, kind):
    """-> dict(method, path, qs, ctype, body) for a request of the given kind"""
    pad = rng.choice([0, 0, 0, 1, 7, 40])
    n = rng.choice([1, 2, 3, 5])
    if combo in ('http', 'http-json'):
        r = {'method': 'GET', 'ctype': None, 'body': b''}
        if rng.random() < 0.3:
            r['body'] = b'x' * rng.choice([1, 50, 300])      # a GET may carry a body; HttpRpc ignores it
        table = {'ok': ('/echo', 's=hello'), 'gen': ('/items', 'n=%d' % n), 'gen0': ('/items', 'n=0'),
                 'unknown': ('/nosuch', 's=1'), 'malformed': ('/twice', 'a=%zz'), 'invalid': ('/twice', 'a=abc'),
                 'fault': ('/boom', 's=' + rng.choice(FAULTS)), 'exn': ('/boom', 's=' + rng.choice(['key', 'zero']))}
        if combo == 'http':
            sz = rng.choice([0, 1, 4, 100])
            table.update({'blob-list': ('/blob', 'n=%d&sz=%d&mode=list' % (n, sz)), 'blob-list0': ('/blob', 'n=0&sz=4&mode=list'),
                          'blob-gen': ('/blob', 'n=%d&sz=%d&mode=gen' % (n, sz)), 'blob-gen0': ('/blob', 'n=0&sz=4&mode=gen'),
                          'blob-genfault': ('/blob', 'n=1&sz=4&mode=genfault'), 'blob-genexn': ('/blob', 'n=1&sz=4&mode=genexn'),
                          'blob-genmid': ('/blob', 'n=%d&sz=%d&mode=genmid' % (n, sz)),
                          'blob-lazymid': ('/blob', 'n=%d&sz=%d&mode=lazymid' % (n, sz)),
                          'blob-ostring': ('/blob', 'n=%d&sz=%d&mode=ostring' % (n, sz)),
                          'blob-clen': ('/blob', 'n=%d&sz=%d&mode=clen' % (n, sz)),
                          'blob-genclen': ('/blob', 'n=%d&sz=%d&mode=genclen' % (n, sz))})
        r['path'], r['qs'] = table[kind]
        return r
    r = {'method': 'POST', 'path': '/', 'qs': ''}
    if combo == 'soap':
        r['ctype'] = 'text/xml; charset=utf-8'
        mk = soap_body
    elif combo == 'xml':
        r['ctype'] = 'text/xml'
        mk = xml_body
    else:
        r['ctype'] = 'application/json'
        mk = None
    if mk:
        body = {'ok': lambda: mk('echo', 's', 'hello' * rng.choice([1, 1, 20]), pad), 'gen': lambda: mk('items', 'n', n, pad),
                'gen0': lambda: mk('items', 'n', 0, pad), 'unknown': lambda: mk('nosuch', 's', 1, pad),
                'malformed': lambda: rng.choice([b'<a', b'\x00\x01\x02', mk('echo', 's', 'x')[:-9], b'<a></b>', b'not xml at all']),
                'invalid': lambda: mk('twice', 'a', 'abc', pad), 'fault': lambda: mk('boom', 's', rng.choice(FAULTS), pad),
                'exn': lambda: mk('boom', 's', rng.choice(['key', 'zero']), pad)}[kind]()
    else:
        sz = rng.choice([0, 1, 4, 100])
        body = {'ok': lambda: json_body('echo', {'s': 'hello' * rng.choice([1, 1, 20])}, pad),
                'gen': lambda: json_body('items', {'n': n}, pad), 'gen0': lambda: json_body('items', {'n': 0}, pad),
                'unknown': lambda: json_body('nosuch', {'s': 1}, pad),
                'malformed': lambda: rng.choice([b'{', b'\xff\xfe', b'{"echo": {"s": "x"}', b'[1,', b'nope']),
                'invalid': lambda: json_body('twice', {'a': 'abc'}, pad),
                'fault': lambda: json_body('boom', {'s': rng.choice(FAULTS)}, pad),
                'exn': lambda: json_body('boom', {'s': rng.choice(['key', 'zero'])}, pad),
                'blob-list': lambda: json_body('blob', {'n': n, 'sz': sz, 'mode': 'list'}, pad),
                'blob-gen': lambda: json_body('blob', {'n': n, 'sz': sz, 'mode': 'gen'}, pad),
                'blob-gen0': lambda: json_body('blob', {'n': 0, 'sz': sz, 'mode': 'gen'}, pad),
                'blob-genfault': lambda: json_body('blob', {'n': 1, 'sz': sz, 'mode': 'genfault'}, pad),
                'blob-genexn': lambda: json_body('blob', {'n': 1, 'sz': sz, 'mode': 'genexn'}, pad),
                'blob-genmid': lambda: json_body('blob', {'n': n, 'sz': sz, 'mode': 'genmid'}, pad),
                'blob-lazymid': lambda: json_body('blob', {'n': n, 'sz': sz, 'mode': 'lazymid'}, pad),
                }[kind]()
    r['body'] = body
    return r


def kinds_for(combo):
    k = list(REQUEST_KINDS)
    if combo == 'http':
        k += ['blob-list', 'blob-list0', 'blob-gen', 'blob-gen0', 'blob-genfault', 'blob-genexn', 'blob-genmid',
              'blob-lazymid', 'blob-ostring', 'blob-clen', 'blob-genclen']
    if combo == 'json-http':
        k = ['ok', 'unknown', 'malformed', 'invalid', 'fault', 'exn', 'blob-list', 'blob-gen', 'blob-gen0',
             'blob-genfault', 'blob-genexn', 'blob-genmid', 'blob-lazymid']
    return k


def cl_variants(rng, L, mcl):
    """CONTENT_LENGTH values: absent, empty, smaller, equal, larger than the body or the limit, odd spellings"""
    v = [None, '', str(L), str(L), str(L), '0', str(max(L - 1, 0)), str(L + 1), str(L + 1000),
         str(mcl), str(mcl + 1), str(max(mcl - 1, 0)), str(10 ** 12), ' %d ' % L, '+%d' % L, '0%d' % L,
         '-1', '-%d' % (mcl + 5), 'abc', '12a', '1.5', '0x10', '1_0', ' ', '--1', '%d\n' % L]
    return v


def make_cfg(rng, L):
    mcl = rng.choice([0, 1, max(L - 1, 0), L, L, L + 1, L + 1, 2 * L + 3, 250, 2 * 1024 * 1024, 2 * 1024 * 1024])
    bl = rng.choice([1, 3, 7, 64, 100, max(L, 1), max(L - 1, 1), L + 1, 8192, 8192])
    if bl == 1 and min(L, mcl) > 400:
        bl = 64
    return {'chunked': rng.random() < 0.6, 'mcl': mcl, 'bl': bl}


def make_caps(rng, L):
    r = rng.random()
    if r < 0.5:
        return []                                        # a BytesIO: every read is full
    if r < 0.85:
        return [rng.choice([1, 2, 5, 17, 100, 10 ** 6]) for _ in range(rng.randint(1, 8))]   # short reads
    caps = [rng.choice([1, 5, 100, 10 ** 6]) for _ in range(rng.randint(0, 3))]
    return caps + [0]                                    # the client goes away: premature end of stream


def make_server(rng):
    r = rng.random()
    if r < 0.45:
        return None, True                                # conforming server, whole body
    if r < 0.6:
        return None, False                               # b''.join(app(...)) style caller
    return rng.choice([0, 0, 1, 1, 2, 3, 5]), rng.random() < 0.8      # client abort after k chunks


def gen_cases(check):
    rng = check.rng
    quick = check.tier == 'quick'
    cases = []

    def add(combo, kind, req, cfg, cl, caps, take, closes, **kw):
        c = dict(combo=combo, kind=kind, cfg=cfg, cl=cl, caps=caps, take=take, closes=closes)
        c.update(req)
        c.update(kw)
        cases.append(c)

    combos = ['soap', 'json', 'xml', 'http', 'http-json', 'json-http']
    # 0. witnesses of the theorems (the _refuted ones are the known findings) and the corpus of
    #    inputs that failed on the pinned tree
    big = {'chunked': True, 'mcl': 2 * 1024 * 1024, 'bl': 8192}
    get = lambda path, qs, body=b'': {'method': 'GET', 'path': path, 'qs': qs, 'ctype': None, 'body': body}
    for chunked in (False, True):
        add('http', 'blob-genmid', get('/blob', 'n=2&sz=4&mode=genmid'), dict(big, chunked=chunked), None, [], None, True)
        add('http', 'blob-lazymid', get('/blob', 'n=2&sz=4&mode=lazymid'), dict(big, chunked=chunked), None, [], None, True)
    small = {'chunked': True, 'mcl': 250, 'bl': 100}
    add('http', 'ok', get('/echo', 's=hello', b'x' * 300), small, None, [], None, True)
    add('http', 'unknown', get('/nosuch', 's=1', b'x' * 300), small, None, [], None, True)
    add('http', 'ok', get('/echo', 's=hello', b'x' * 300), small, '300', [], None, True)
    sb = soap_body('echo', 's', 'hi')                      # 172 bytes
    for cl, caps, take in ((str(len(sb)), [100, 30, 38], 2), (None, [], None), ('', [], None), ('0', [], None),
                           ('abc', [], None), ('300', [], None), (str(len(sb) - 1), [], None)):
        add('soap', 'ok', {'method': 'POST', 'path': '/', 'qs': '', 'ctype': 'text/xml', 'body': sb}, small, cl, caps, take, True)
    add('soap', 'ok', {'method': 'POST', 'path': '/', 'qs': '', 'ctype': 'text/xml', 'body': sb + b' ' * 100}, small, None, [], None, True)
    add('soap', 'ok', {'method': 'POST', 'path': '/', 'qs': '', 'ctype': 'text/xml', 'body': sb + b' ' * 78}, small, None, [], None, True)
    add('soap', 'ok', {'method': 'POST', 'path': '/', 'qs': '', 'ctype': 'text/xml', 'body': sb + b' ' * 77}, small, None, [], None, True)
    for mode in ('gen', 'gen0', 'genfault', 'genexn', 'list', 'list0'):
        for chunked in (False, True):
            add('http', 'blob-' + mode, get('/blob', 'n=%d&sz=4&mode=%s' % (0 if mode.endswith('0') else 3, mode.rstrip('0'))),
                dict(big, chunked=chunked), None, [], None, True, validate=True)
            add('http', 'blob-' + mode, get('/blob', 'n=%d&sz=4&mode=%s' % (0 if mode.endswith('0') else 3, mode.rstrip('0'))),
                dict(big, chunked=chunked), None, [], 1, True)
    # 1. boundary sweep: every request kind x every CONTENT_LENGTH variant, limits around the body size
    for combo in combos:
        for kind in kinds_for(combo):
            req = make_request(rng, combo, kind)
            L = len(req['body'])
            cfg0 = {'chunked': True, 'mcl': 2 * 1024 * 1024, 'bl': 8192}
            add(combo, kind, req, cfg0, str(L), [], None, True)
            add(combo, kind, req, dict(cfg0, chunked=False), str(L), [], None, True, validate=True)
            add(combo, kind, req, cfg0, str(L), [], None, True, validate=True)
            for cl in cl_variants(rng, L, 250):
                if quick and rng.random() < 0.55 and kind not in ('ok', 'blob-gen'):
                    continue
                cfg = make_cfg(rng, L)
                if rng.random() < 0.5:
                    cfg['mcl'] = rng.choice([L - 1, L, L + 1, 250]) if L else rng.choice([0, 1, 250])
                    cfg['mcl'] = max(cfg['mcl'], 0)
                take, closes = make_server(rng)
                add(combo, kind, req, cfg, cl, make_caps(rng, L), take, closes)
    # 2. random campaign
    n = 500 if quick else 12000
    for _ in range(n):
        combo = rng.choice(combos)
        kind = rng.choice(kinds_for(combo))
        req = make_request(rng, combo, kind)
        L = len(req['body'])
        cfg = make_cfg(rng, L)
        cl = rng.choice(cl_variants(rng, L, cfg['mcl']))
        if rng.random() < 0.4:
            cl = rng.choice([None, str(L), str(L)])
        take, closes = make_server(rng)
        v = cl is not None and cl.isdigit() and closes and rng.random() < 0.3
        add(combo, kind, req, cfg, cl, make_caps(rng, L), take, closes, validate=v)
    # 3. crashes injected below the WSGI layer (correspondence of the escape paths only)
    for combo in ('soap', 'json', 'http'):
        for inj in ('gen', 'in', 'ser', 'eser'):
            for kind in ('ok', 'fault', 'unknown'):
                req = make_request(rng, combo, kind)
                L = len(req['body'])
                take, closes = make_server(rng)
                add(combo, kind, req, make_cfg(rng, L), str(L), [], take, closes, inject=inj)
    # 5. the close callback raises (wsgi_close listener / ctx.files handle), for every response kind and server
    #    behaviour; the servers that matter most iterate to the end and then call close() as PEP 3333 obliges
    for combo in combos:
        for kind in kinds_for(combo):
            for how in ('listener', 'file'):
                for take, closes in [(None, True), make_server(rng)] + ([] if quick else [make_server(rng) for _ in range(6)]):
                    req = make_request(rng, combo, kind)
                    L = len(req['body'])
                    cfg = make_cfg(rng, L)
                    cfg['mcl'] = max(cfg['mcl'], L) if rng.random() < 0.8 else cfg['mcl']
                    add(combo, kind, req, cfg, rng.choice([None, str(L)]), make_caps(rng, L), take, closes, close_fails=how)
    for combo in ('soap', 'http'):
        for kind, kw in (('wsdl', {}), ('wsdl-fail', {'wsdl_fail': True})):
            for take, closes in [(None, True), make_server(rng)]:
                req = {'method': 'GET', 'path': '/', 'qs': 'wsdl', 'ctype': None, 'body': b''}
                add(combo, kind, req, make_cfg(rng, 0), None, [], take, closes, close_fails='file', **kw)
    # 4. wsdl requests
    for combo in ('soap', 'http'):
        for path, qs in (('/', 'wsdl'), ('/app.wsdl', ''), ('/', 'WSDL=1'), ('/', 'wsdlx')):
            for _ in range(2 if quick else 8):
                take, closes = make_server(rng)
                req = {'method': 'GET', 'path': path, 'qs': qs, 'ctype': None, 'body': b''}
                add(combo, 'wsdl', req, make_cfg(rng, 0), rng.choice([None, '', '0']), [], take, closes,
                    validate=closes and rng.random() < 0.5)
                add(combo, 'wsdl-rewritten', req, make_cfg(rng, 0), rng.choice([None, '', '0']), [], take, closes,
                    wsdl_rewrite=rng.randint(1, 9), wsdl_shrink=rng.random() < 0.3)
                add(combo, 'wsdl-nodoc', req, make_cfg(rng, 0), None, [], take, closes, nodocs=True)
                add(combo, 'wsdl-fail', req, make_cfg(rng, 0), None, [], take, closes, wsdl_fail=True)
    return cases


# ------------------------------------------------------------------ check
def replayable(case):
    c = dict(case)
    c['body'] = base64.b64encode(c['body']).decode() if isinstance(c['body'], bytes) else c['body']
    return c


def describe(case):
    return '%s/%s cl=%r cfg=%s caps=%s take=%s closes=%s%s' % (
        case['combo'], case['kind'], case['cl'], (case['cfg']['chunked'], case['cfg']['mcl'], case['cfg']['bl']),
        case['caps'], case['take'], case['closes'], (' inject=%s' % case['inject'] if case.get('inject') else '')
        + (' close_fails=%s' % case['close_fails'] if case.get('close_fails') else ''))


def run_case(check, case, coq_cases, coq_cases_cf=None):
    # a wsdl document that is built once is cached on the WsgiApplication only, and we make a
    # fresh WsgiApplication per case; the interface document object of the Application caches
    # too, so the first wsdl request per application builds and later ones find it ready.
    obs = drive(case)
    key = (case['combo'], case['kind'], case['cl'], tuple(sorted(case['cfg'].items())), tuple(case['caps']),
           case['take'], case['closes'], case.get('inject'), len(case['body']), case.get('close_fails'))
    check.count(key)
    for k, what in oracle(check, case, obs):
        check.fail(k, what, {'case': replayable(case),
                             'observed': [list(map(str, e)) for e in obs['events']]})
    (coq_cases_cf if case.get('close_fails') else coq_cases).append(
        (scenario_term(case, obs), describe(case) + ' OBSERVED ' + '; '.join(canon_trace(obs))))
    return obs


def run(check):
    check.rule = ('requests: 6 protocol pairs (SOAP 1.1, XML, JSON, HttpRpc GET, HttpRpc->JSON, JSON->HttpRpc) x request '
                  'kinds (success, generator result with >0 / 0 items, unknown method, malformed body, validation '
                  'error, 7 fault classes, 2 exception classes, byte streams as list / generator / failing generator / '
                  'user-set out_string, ?wsdl and .wsdl with document / no document / failing build) x CONTENT_LENGTH '
                  '(absent, empty, 0, L-1, L, L+1, limit-1, limit, limit+1, huge, padded, signed, underscore, negative, '
                  'non-numeric) x chunked on/off x max_content_length in {0,1,L-1,L,L+1,2L+3,250,2MiB} x block_length '
                  'in {1,3,7,64,100,L-1,L,L+1,8192} x input streams (full reads, short reads, premature end) x servers '
                  '(iterate to the end, stop after k chunks, with/without close()); a case is distinct by all of these')
    check.trusted = list(lib.COMMON_TRUSTED) + [
        'the instruments of harness/c13.py: recording start_response, planned/counting wsgi.input, listeners on '
        'method_context_closed / wsgi_close / wsgi_exception, instance-level wrappers around generate_contexts / '
        'get_in_object / get_out_object / get_out_string that record (and for the escape paths inject) the outcome of '
        'the layers below the WSGI layer',
        'observed, not proved: the PEP 3333 typing rules (status line, (str, str) headers, bytes chunks) - checked by '
        'the direct oracle on every case and by wsgiref.validate.validator on a sample',
        'translator harness/translate/wsgireader.py: the statement skeleton of WsgiApplication.__wsgi_input_to_iterable and '
        'of the private generator it returns (found by following the self.__x calls, not by name) is compared token for '
        'token with the modelled one after a normalisation that preserves behaviour by construction (bound names '
        'alpha-renamed by order of first binding with a capture check; single-assignment temporaries holding a pure '
        'expression substituted into the directly following pure uses; docstrings and comments dropped), and the eight '
        'deciding expressions (limit comparison, loop condition, size of the next read, in-loop guard, end-of-stream '
        'test, after-loop test, lengths used for an empty / absent header) are translated to Gen/WsgiReader.v, which '
        'the model uses; exception classes, call targets, message texts, statement order and operators stay pinned',
        'the same translator pins _ResponseIterator (private attribute names and locals alpha-renamed, docstrings and the '
        'dead Python 2 alias next = __next__ dropped) and translates the statement order of its close() after the guard '
        '(mark closed / run the callback) to ri_close_steps, which the statement-level iterator model serve_it interprets',
        'modelled, not verified: CPython int() on the CONTENT_LENGTH text (Base/Digits.int_of_text, ASCII digits), '
        'iterator/generator semantics of _ResponseIterator and of the body reader',
    ]
    check.assumptions = [
        'everything below the WSGI layer (input/output protocols, user code, serialisers, event listeners) enters the '
        'theorems as a universally quantified outcome per stage; C13_one_start assumes these layers raise only Faults '
        '(C10) and that serialising a fault does not raise (C09)',
        'the input stream never returns more than it is asked for (PEP 3333 read(n)); 0 <= block_length, 0 <= max_content_length',
        'the request body is what CONTENT_LENGTH declares; with no CONTENT_LENGTH it is what the stream delivers',
        'C13_closed_once assumes a conforming server: it calls close() on the iterable or iterates it to the end',
        'not modelled: auxiliary method contexts (process_contexts with others), MTOM (apply_mtom), the push '
        '(PushBase) interface, HttpRpc POST/form bodies (werkzeug absent), event listeners that raise other than inside the '
        'close callback (a failing wsgi_close listener and a ctx.files handle that fails to close ARE modelled: trace_cf)',
    ]
    check.regen(['wsgireader'])
    gen = os.path.join(lib.COQ, 'Gen', 'WsgiReader.v')
    try:
        text = open(gen).read()
    except IOError:
        text = ''
    if 'Definition shape_ok : bool := true.' not in text:
        m = re.search(r'\(\* SHAPE MISMATCH: (.*?) \*\)', text, re.S)
        check.broken.append(('translator', 'wsgireader',
                             'the body reader of spyne/server/wsgi.py does not have the statement structure the model '
                             'mirrors: %s' % (m.group(1) if m else 'Gen/WsgiReader.v missing')))
    if 'Definition ri_shape_ok : bool := true.' not in text:
        m = re.search(r'\(\* RI SHAPE MISMATCH: (.*?) \*\)', text, re.S)
        check.broken.append(('translator', 'wsgireader/_ResponseIterator',
                             '_ResponseIterator of spyne/server/wsgi.py does not have the statement structure the '
                             'model mirrors: %s' % (m.group(1) if m else 'Gen/WsgiReader.v missing')))
    check.check_sources()
    check.prove('Props.C13', THEOREMS)
    cases = gen_cases(check)
    coq_cases = []
    coq_cases_cf = []
    stats = {}
    for case in cases:
        obs = run_case(check, case, coq_cases, coq_cases_cf)
        stats[case['combo'] + '/' + case['kind'].split('-')[0]] = stats.get(case['combo'] + '/' + case['kind'].split('-')[0], 0) + 1
        if len(check.samples) < 8 and check.rng.random() < 0.01:
            check.sample({'case': describe(case), 'trace': canon_trace(obs)})
    check.extra['case_mix'] = stats
    lib.correspond(check, 'wsgi_trace', IMPORTS, 'cfg * req * list ev', 'case_ok', coq_cases, shard=300,
                   show='(fun k : cfg * req * list ev => trace (fst (fst k)) (snd (fst k)))')
    lib.correspond(check, 'wsgi_trace_failing_close', IMPORTS, 'cfg * req * cfail * list ev', 'case_cf_ok', coq_cases_cf,
                   shard=300, show='(fun k : cfg * req * cfail * list ev => trace_cf (fst (fst (fst k))) '
                                   '(snd (fst (fst k))) (snd (fst k)))')
    lib.flush_correspondences(check)
    return check.finish()


def replay(check, path):
    r = json.load(open(path))
    rep = r.get('replay', {})
    if 'case' not in rep:
        print(json.dumps(r, indent=1))
        return 0
    case = rep['case']
    case['body'] = base64.b64decode(case['body'])
    obs = drive(case)
    fails = oracle(check, case, obs)
    print('case    : %s' % describe(case))
    print('observed: %s' % [tuple(map(str, e)) for e in obs['events']])
    for k, what in fails:
        print('FAILS   : %s [%s]' % (what, k))
    if not fails:
        print('the oracle is satisfied on this tree')
    return 1 if any(k == r.get('key') for k, _ in fails) else 0
