"""C04 — user code only ever receives values of the declared types.

Parts (DESIGN.md section 6, C04):
  * proof obligations: coq/Props/C04.v — typing theorems over the models coq/C04/XmlModel.v
    (XmlDocument.from_element with xsi:type resolution against Interface.classes; the
    decision table of _get_xsi_target is regenerated from the source on every run,
    harness/translate/xsitype.py -> coq/Gen/XsiGuard.v) and coq/C04/DictModel.v
    (HierDictDocument._doc_to_object / _from_dict_value with the JSON / YAML / MessagePack
    leaf tables);
  * correspondences: generated universes and type-directed mutations of valid documents
    through the real XmlDocument.from_element / HierDictDocument._doc_to_object against the
    models, outcome for outcome;
  * direct oracle: generated services through the full pipeline (ServerBase) for XmlDocument,
    Soap11, JsonDocument, YamlDocument, MessagePackDocument and HttpRpc (WSGI GET); the
    user function records what it is called with and an isinstance / value-space predicate
    written against the declared Spyne classes judges every node of every argument."""
import os, sys, json, copy, types, datetime, decimal, uuid, io, logging
import lib
from lib import gz, gtext, glist, gbool, gopt, gpair

THEOREMS = ['C04_xml_typed', 'C04_xml_typed_spyne', 'C04_xml_args_typed', 'C04_xml_retag_rejected',
            'C04_xml_unguarded_refuted', 'C04_dict_typed_partial', 'C04_dict_args_typed_partial',
            'C04_dict_msgpack_bytes_refuted', 'C04_dict_unrepaired_refuted']

XSI = 'http://www.w3.org/2001/XMLSchema-instance'
XSD = 'http://www.w3.org/2001/XMLSchema'
TNS = 'urn:t'
FUEL = 30
MODEL_PRIMS = ('int', 'text', 'bool')
RICH_PRIMS = ('int', 'text', 'bool', 'i32', 'u8', 'i64', 'dbl', 'dec', 'date', 'dt', 'time', 'dur', 'uuid', 'bytes', 'uri')
G_PRIM = {'int': 'PInt', 'text': 'PText', 'bool': 'PBool'}
SHARED_NAMES = ['id', 'name', 'value']


# ====================================================================== universes
def gen_desc(rng, n_classes, prims=MODEL_PRIMS, namespaces=(TNS,), allow_attr=True, wrap_kinds=('attr',), wrap_prims=None, wrap_p=0.15):
    """classes with single inheritance, XmlAttribute members, wrapped arrays (also nested), members with
    max_occurs > 1, member names shared between classes (so that an attribute of a child can name a
    member of its parent)"""
    classes = []
    for i in range(n_classes):
        parent = None
        if i > 0 and rng.random() < 0.4:
            parent = rng.randrange(i)
        ns = classes[parent]['ns'] if parent is not None else rng.choice(namespaces)
        taken = set()
        p = parent
        while p is not None:
            taken.update(f['name'] for f in classes[p]['fields'])
            p = classes[p]['parent']
        fields = []
        for j in range(rng.randint(1, 4)):
            name = 'f%d_%d' % (i, j)
            if rng.random() < 0.3:
                nm = rng.choice(SHARED_NAMES)
                if nm not in taken:
                    name = nm
            if name in taken:
                continue
            taken.add(name)
            if rng.random() < 0.55 or i == 0:
                ty = ('prim', rng.choice(prims))
            else:
                ty = ('ref', rng.randrange(i))
            kind, mn, mx, nil = 'elem', rng.choice([0, 0, 1]), 1, rng.random() < 0.6
            r = rng.random()
            if allow_attr and ty[0] == 'prim' and ty[1] in (wrap_prims or MODEL_PRIMS + ('i32', 'u8', 'date')) and r < wrap_p:
                kind = rng.choice(wrap_kinds)
            elif r < 0.35:
                ty = ('arr', ty)
                if rng.random() < 0.15:
                    ty = ('arr', ty)
            elif r < 0.55:
                mx = rng.choice([None, 2, 3])
            fields.append({'name': name, 'ty': ty, 'min': mn, 'max': mx, 'nillable': nil, 'kind': kind})
        classes.append({'ns': ns, 'name': 'K%d' % i, 'parent': parent, 'fields': fields})
    return {'classes': classes}


def flat_fields(desc, cid):
    c = desc['classes'][cid]
    base = flat_fields(desc, c['parent']) if c['parent'] is not None else []
    return base + c['fields']


def is_sub(desc, d, c):
    while d is not None:
        if d == c:
            return True
        d = desc['classes'][d]['parent']
    return False


def subclasses(desc, cid):
    return [i for i in range(len(desc['classes'])) if is_sub(desc, i, cid)]


def is_multi(f):
    return f['max'] is None or f['max'] > 1


def prim_class(p):
    from spyne.model import primitive as P
    from spyne.model.binary import ByteArray
    return {'int': P.Integer, 'text': P.Unicode, 'bool': P.Boolean, 'i32': P.Integer32, 'u8': P.UnsignedInteger8,
            'i64': P.Integer64, 'dbl': P.Double, 'dec': P.Decimal, 'date': P.Date, 'dt': P.DateTime, 'time': P.Time,
            'dur': P.Duration, 'uuid': P.Uuid, 'bytes': ByteArray, 'uri': P.AnyUri}[p]


def build_spyne(desc):
    """the real Spyne classes (index = cid)"""
    from spyne.model.complex import ComplexModel, ComplexModelMeta, Array, Iterable, XmlAttribute, XmlData
    out = []

    def ty_of(ty):
        if ty[0] == 'prim':
            return prim_class(ty[1])
        if ty[0] == 'ref':
            return out[ty[1]]
        if ty[0] == 'iter':
            return Iterable(ty_of(ty[1]))
        return Array(ty_of(ty[1]))

    for c in desc['classes']:
        ti = []
        for f in c['fields']:
            t = ty_of(f['ty'])
            kw = {'min_occurs': f['min'], 'nillable': f['nillable']}
            if f['max'] != 1:
                kw['max_occurs'] = 'unbounded' if f['max'] is None else f['max']
            if f['kind'] == 'attr':
                t = XmlAttribute(t.customize(**kw))
            elif f['kind'] == 'data':
                t = XmlData(t.customize(**kw))
            else:
                t = t.customize(**kw)
            ti.append((f['name'], t))
        base = ComplexModel if c['parent'] is None else out[c['parent']]
        out.append(ComplexModelMeta(c['name'], (base,), {'__namespace__': c['ns'], '_type_info': ti}))
    return out


def ty_class(classes, ty):
    from spyne.model.complex import Array, Iterable, XmlAttribute, XmlData
    if ty[0] == 'prim':
        return prim_class(ty[1])
    if ty[0] == 'wrap':
        return (XmlAttribute if ty[2] == 'attr' else XmlData)(prim_class(ty[1]))
    if ty[0] == 'iter':
        return Iterable(ty_class(classes, ty[1]))
    if ty[0] == 'ref':
        return classes[ty[1]]
    return Array(ty_class(classes, ty[1]))


class Captured(object):
    def __init__(self):
        self.calls = []
        self.headers = []


def build_app(classes, params, in_prot, out_prot=None, name='f', header=None):
    """an Application with one service method f(p0, p1, ...) that records its arguments.
    Returns (app, captured, in_message class)"""
    from spyne import Application, rpc, Service
    from spyne.model.primitive import Unicode
    from spyne.protocol.xml import XmlDocument
    cap = Captured()
    names = ['p%d' % i for i in range(len(params))]
    src = 'def %s(ctx%s):\n    cap.headers.append(ctx.in_header)\n    cap.calls.append((%s))\n    return None\n' % (
        name, ''.join(', ' + n for n in names), ''.join(n + ', ' for n in names))
    env = {'cap': cap}
    exec(src, env)
    fn = rpc(*[ty_class(classes, t) for t in params], _returns=Unicode)(env[name])
    body = {name: fn}
    if header is not None:
        body['__in_header__'] = header
    svc = type('S', (Service,), body)
    app = Application([svc], TNS, in_protocol=in_prot, out_protocol=out_prot or XmlDocument())
    descr = list(svc.public_methods.values())[0]
    return app, cap, descr.in_message


def orig(c):
    return getattr(c, '__orig__', None) or c


def class_to_ty(classes, c):
    """a registered / declared Spyne class -> neutral ty, or None when it lies outside the universe"""
    from spyne.model.complex import Array, ComplexModelBase
    from spyne.model import primitive as P
    o = orig(c)
    for i, k in enumerate(classes):
        if o is k:
            return ('ref', i)
    if o is Array and not issubclass(c, __import__('spyne.model.complex', fromlist=['Iterable']).Iterable):
        (m,) = c._type_info.values()
        t = class_to_ty(classes, m)
        return None if t is None else ('arr', t)
    for p in RICH_PRIMS:
        if o is prim_class(p):
            return ('prim', p)
    return None


def msg_desc(desc, classes, in_message):
    """the universe extended with the request message class (last cid)"""
    d2 = copy.deepcopy(desc)
    fields = []
    for k, v in in_message._type_info.items():
        t = class_to_ty(classes, v)
        fields.append({'name': k, 'ty': t, 'min': 0, 'max': 1, 'nillable': True, 'kind': 'elem'})
    d2['classes'].append({'ns': in_message.get_namespace(), 'name': in_message.get_type_name(), 'parent': None, 'fields': fields})
    return d2


# ====================================================================== values (neutral form)
TEXT_POOL = ['', 'a', 'hello', 'x y', ' lead', '<&>"\'', 'ünï', '0', 'true', 'None', '5', 'a\nb']
INT_POOL = [0, 1, -1, 7, 255, 256, -128, 2 ** 31, -2 ** 31 - 1, 2 ** 63, 10 ** 30, -10 ** 30]


def gen_leaf(rng, p):
    if p == 'int':
        return ('int', rng.choice(INT_POOL + [rng.randint(-10 ** 6, 10 ** 6)]))
    if p == 'bool':
        return ('bool', rng.random() < 0.5)
    if p in ('text', 'uri'):
        return ('text', rng.choice(TEXT_POOL + [''.join(rng.choice('abc XYZ09') for _ in range(rng.randint(1, 8)))]))
    if p == 'i32':
        return ('int', rng.choice([0, -1, 2 ** 31 - 1, -2 ** 31, rng.randint(-10 ** 6, 10 ** 6)]))
    if p == 'u8':
        return ('int', rng.choice([0, 1, 255, rng.randint(0, 255)]))
    if p == 'i64':
        return ('int', rng.choice([0, -1, 2 ** 63 - 1, -2 ** 63, rng.randint(-10 ** 12, 10 ** 12)]))
    if p == 'dbl':
        return ('dbl', rng.choice([0.0, 1.5, -2.25, 1e10, 3.0, float(rng.randint(-99, 99)) / 4]))
    if p == 'dec':
        return ('dec', rng.choice(['0', '1.50', '-3.25', '12345678901234567890.5', str(rng.randint(-999, 999))]))
    if p == 'date':
        return ('date', (rng.randint(1900, 2100), rng.randint(1, 12), rng.randint(1, 28)))
    if p == 'dt':
        return ('dt', (rng.randint(1900, 2100), rng.randint(1, 12), rng.randint(1, 28), rng.randint(0, 23), rng.randint(0, 59), rng.randint(0, 59)))
    if p == 'time':
        return ('time', (rng.randint(0, 23), rng.randint(0, 59), rng.randint(0, 59)))
    if p == 'dur':
        return ('dur', rng.randint(0, 10 ** 6))
    if p == 'uuid':
        return ('uuid', '%032x' % rng.getrandbits(128))
    if p == 'bytes':
        return ('bytes', bytes(rng.randrange(256) for _ in range(rng.randint(0, 6))))
    raise ValueError(p)


def gen_value(rng, desc, ty, depth, nullable=True, poly=False):
    if nullable and rng.random() < 0.15:
        return ('none',)
    if ty[0] in ('prim', 'wrap'):
        return gen_leaf(rng, ty[1])
    if ty[0] in ('arr', 'iter'):
        n = 0 if depth <= 0 else rng.choice([0, 1, 2, 3])
        return ('list', [gen_value(rng, desc, ty[1], depth - 1, True, poly) for _ in range(n)])
    cid = ty[1]
    if poly and rng.random() < 0.5:
        cid = rng.choice(subclasses(desc, cid))
    if depth <= 0:
        return ('none',) if nullable else ('obj', cid, [('none',)] * len(flat_fields(desc, cid)))
    return ('obj', cid, [gen_member(rng, desc, f, depth - 1, poly) for f in flat_fields(desc, cid)])


def gen_member(rng, desc, f, depth, poly=False):
    if f['kind'] in ('attr', 'data'):
        if f['min'] <= 0 and rng.random() < 0.4:
            return ('none',)
        return gen_leaf(rng, f['ty'][1])
    if is_multi(f):
        if f['min'] <= 0 and rng.random() < 0.2:
            return ('none',)
        hi = 3 if f['max'] is None else f['max']
        lo = max(f['min'], 0)
        n = rng.randint(lo, max(lo, hi))
        if depth <= 0 and f['ty'][0] == 'ref':
            n = lo
        return ('list', [gen_value(rng, desc, f['ty'], depth, f['nillable'], poly) for _ in range(n)])
    can_none = f['min'] <= 0 or f['nillable']
    if can_none and rng.random() < 0.25:
        return ('none',)
    return gen_value(rng, desc, f['ty'], depth, False, poly)


def leaf_text(v):
    """the XML / query-string text of a leaf value"""
    k = v[0]
    if k == 'int':
        return str(v[1])
    if k == 'bool':
        return 'true' if v[1] else 'false'
    if k == 'text':
        return v[1]
    if k == 'dbl':
        return repr(v[1])
    if k == 'dec':
        return v[1]
    if k == 'date':
        return '%04d-%02d-%02d' % v[1]
    if k == 'dt':
        return '%04d-%02d-%02dT%02d:%02d:%02d' % v[1]
    if k == 'time':
        return '%02d:%02d:%02d' % v[1]
    if k == 'dur':
        return 'PT%dS' % v[1]
    if k == 'uuid':
        h = v[1]
        return '%s-%s-%s-%s-%s' % (h[:8], h[8:12], h[12:16], h[16:20], h[20:])
    if k == 'bytes':
        import base64
        return base64.b64encode(v[1]).decode()
    raise ValueError(k)


HOSTILE_TEXT = ['abc', '', ' 7 ', '+5', '1_0', '1.5', '2.0', 'true', 'TRUE', '1', '0', 'maybe', '-0', '99999999999999999999999',
                '2020-01-02', '2020-13-45', 'P1D', 'None', '[1]', '{"a": 1}', '1e3', 'NaN', 'INF', '256', '-129']


# ====================================================================== native values -> neutral form, and the oracle
def from_native(classes, o):
    """a native value as delivered by Spyne -> neutral form; anything unexpected is ('other', type name, repr)"""
    if o is None:
        return ('none',)
    if isinstance(o, bool):
        return ('bool', o)
    if isinstance(o, int):
        return ('int', o)
    if isinstance(o, str):
        return ('text', o)
    if isinstance(o, list):
        return ('list', [from_native(classes, x) for x in o])
    if hasattr(o, '_type_info'):
        k = orig(type(o))
        for i, c in enumerate(classes):
            if k is c:
                fti = c.get_flat_type_info(c)
                return ('obj', i, [from_native(classes, getattr(o, n, None)) for n in fti])
    return ('other', type(o).__name__, repr(o)[:80])


def in_universe(v):
    if v[0] == 'other':
        return False
    if v[0] == 'list':
        return all(in_universe(x) for x in v[1])
    if v[0] == 'obj':
        return all(in_universe(x) for x in v[2])
    return True


def decl_name(cls):
    """a name of the declared type that does not depend on the generated universe"""
    from spyne.model.complex import Array, ComplexModelBase
    if issubclass(cls, Array):
        return 'Array'
    if issubclass(cls, ComplexModelBase):
        return 'ComplexModel'
    for k in cls.__mro__:
        tn = k.__dict__.get('__type_name__')
        if isinstance(tn, str):
            return tn
    return cls.__name__


def recv_name(v):
    if hasattr(v, '_type_info'):
        return 'ComplexModel'
    if isinstance(v, tuple):
        odd = [x for x in v if not isinstance(x, (bytes, bytearray, memoryview))]
        return 'tuple[%s]' % (type(odd[0]).__name__ if odd else 'bytes')
    return type(v).__name__


def native_ok(cls, v, path='arg', width=True):
    """THE PROPERTY, on the real classes: None, or an instance of the native type of the declared model
    (a subclass instance where a complex type is declared), or a list of such.  [width]: also demand that
    integers lie within the declared width (what a validator enforces; off for validator=None, where the
    property only speaks of types).  Returns None when fine, else (path, declared, received) for the first
    offending node."""
    from spyne.model.complex import Array, Iterable, ComplexModelBase, XmlModifier
    from spyne.model import primitive as P
    from spyne.model.binary import ByteArray
    XmlAttribute = XmlModifier            # XmlAttribute and XmlData: the member is of the wrapped type
    if v is None:
        return None
    if issubclass(cls, XmlModifier):
        cls = cls.type
    o = orig(cls)
    if issubclass(o, Iterable) and not isinstance(v, (list, str, bytes, dict)) and hasattr(v, '__iter__'):
        try:
            v = list(v)                  # an Iterable member may be handed over as a generator,
        except Exception:                # which deserialises lazily: a fault raised while user code iterates delivers nothing
            return None

    def bad():
        return ('%s, declared class %s' % (path, o.__name__), decl_name(cls), recv_name(v) + ':' + repr(v)[:60])

    if issubclass(o, Array):
        if type(v) is not list:
            return bad()
        (m,) = cls._type_info.values()
        for i, x in enumerate(v):
            r = native_ok(m, x, '%s[%d]' % (path, i), width)
            if r:
                return r
        return None
    if issubclass(o, ComplexModelBase):
        if not isinstance(v, o):
            return bad()
        vc = type(v)
        for k, t in vc.get_flat_type_info(vc).items():
            x = getattr(v, k, None)
            ta = t.type.Attributes if issubclass(t, XmlAttribute) else t.Attributes
            if not issubclass(t, XmlAttribute) and ta.max_occurs > 1:
                if x is None:
                    continue
                if type(x) is not list:
                    return ('%s.%s' % (path, k), 'list of ' + decl_name(t), recv_name(x) + ':' + repr(x)[:60])
                for i, y in enumerate(x):
                    r = native_ok(t, y, '%s.%s[%d]' % (path, k, i), width)
                    if r:
                        return r
            else:
                r = native_ok(t, x, '%s.%s' % (path, k), width)
                if r:
                    return r
        return None
    if issubclass(cls, P.Integer):
        if not isinstance(v, int):
            return bad()
        if width and not cls.validate_native(cls, int(v)):           # the declared width (hardware bounds of the class itself)
            return (path, decl_name(cls), 'int-out-of-width:' + repr(v)[:60])
        return None
    if issubclass(cls, P.Double):
        return None if isinstance(v, (float, int)) and not isinstance(v, bool) or type(v) is float else bad()
    if issubclass(cls, P.Decimal):
        return None if isinstance(v, (decimal.Decimal, int)) and not isinstance(v, bool) else bad()
    if issubclass(cls, P.Boolean):
        return None if type(v) is bool else bad()
    if issubclass(cls, P.Uuid):                           # a Unicode subclass: test first
        return None if isinstance(v, uuid.UUID) else bad()
    if issubclass(cls, P.Unicode):
        return None if type(v) is str else bad()
    if issubclass(cls, P.Date):                           # Date and Time derive from DateTime in Spyne: test first
        return None if isinstance(v, datetime.date) and not isinstance(v, datetime.datetime) else bad()
    if issubclass(cls, P.Time):
        return None if isinstance(v, datetime.time) else bad()
    if issubclass(cls, P.DateTime):
        return None if isinstance(v, datetime.datetime) else bad()
    if issubclass(cls, P.Duration):
        return None if isinstance(v, datetime.timedelta) else bad()
    if issubclass(cls, ByteArray):
        ok = isinstance(v, (list, tuple)) and all(isinstance(x, (bytes, bytearray, memoryview)) for x in v) or isinstance(v, (bytes, bytearray))
        return None if ok else bad()
    return ('?', 'unmodelled declared class %r' % o, repr(v)[:60])


# ====================================================================== XML documents
def xsi_key_to_qname(key):
    """'{ns}name' -> (ns, name)"""
    if key.startswith('{'):
        ns, name = key[1:].split('}', 1)
        return ns, name
    return None, key


class XmlEnc(object):
    """independent schema-directed encoder of (mostly) valid request documents, with type-directed
    mutations applied while encoding: every choice from rng"""

    def __init__(self, rng, desc, reg_keys, tns=TNS, mutate_p=0.0, allow_xsi=True):
        self.rng, self.desc, self.tns, self.mutate_p = rng, desc, tns, mutate_p
        self.reg_keys = sorted(reg_keys)
        self.allow_xsi = allow_xsi
        nss = sorted(set(c['ns'] for c in desc['classes']) | {tns})
        self.prefix = {ns: 'n%d' % i for i, ns in enumerate(nss)}
        self.prefix[XSD] = 'xs'
        self.nsmap = {v: k for k, v in self.prefix.items()}
        self.nsmap['xsi'] = XSI
        self.muts = []

    # -- names
    def type_name(self, ty):
        if ty[0] == 'prim':
            return prim_class(ty[1]).get_type_name()
        if ty[0] == 'ref':
            return self.desc['classes'][ty[1]]['name']
        return self.type_name(ty[1]) + 'Array'

    def arr_ns(self, e):
        if e[0] == 'prim':
            return self.tns
        if e[0] == 'ref':
            return self.desc['classes'][e[1]]['ns']
        return self.arr_ns(e[1])

    def qn(self, ns, name):
        return '{%s}%s' % (ns, name) if ns else name

    def lexical(self, ns, name):
        return '%s:%s' % (self.prefix[ns], name)

    # -- mutation helpers
    def roll(self):
        return self.rng.random() < self.mutate_p

    def retag(self, elt, what):
        from lxml import etree
        r = self.rng.random()
        if r < 0.75 and self.reg_keys:
            ns, name = xsi_key_to_qname(self.rng.choice(self.reg_keys))
            if ns is None or ns not in self.prefix:
                val = name
            else:
                val = self.lexical(ns, name)
        elif r < 0.85:
            val = self.rng.choice(['n0:Nope', 'zz:K0', 'K0', 'string', ':', 'xs:', 'n0:K0:x', ''])
        else:
            val = 'xs:' + self.rng.choice(['string', 'integer', 'boolean', 'int', 'date', 'anyType'])
        elt.set('{%s}type' % XSI, val)
        self.muts.append('%s xsi:type=%s' % (what, val))

    # -- encoding
    def element(self, ty, v, ns, name, nillable=True):
        from lxml import etree
        elt = etree.Element(self.qn(ns, name))
        if self.roll():
            m = self.rng.choice(['retag', 'retag', 'retag', 'nil', 'shape', 'attr', 'text'])
            if m == 'retag' and self.allow_xsi:
                self.fill(elt, ty, v)
                self.retag(elt, name)
                return elt
            if m == 'nil':
                elt.set('{%s}nil' % XSI, self.rng.choice(['true', '1', 'false', '0', 'TRUE', '']))
                self.muts.append('%s xsi:nil' % name)
                if self.rng.random() < 0.5:
                    self.fill(elt, ty, v)
                return elt
            if m == 'shape':
                # swap scalars / objects / lists: encode the value of some other type here
                cands = [('prim', self.rng.choice(MODEL_PRIMS))] + [('ref', i) for i in range(len(self.desc['classes']))]
                cands += [('arr', c) for c in cands[:2]]
                t2 = self.rng.choice(cands)
                v2 = gen_value(self.rng, self.desc, t2, 2, False)
                # the substituted value is written without further mutations: a 'shape' inside a 'shape' inside ...
                # is a branching process that need not end (thorough tier, seed 5: RecursionError in the generator)
                saved, self.mutate_p = self.mutate_p, 0.0
                try:
                    self.fill(elt, t2, v2)
                finally:
                    self.mutate_p = saved
                self.muts.append('%s shape %s as %s' % (name, ty[0], t2[0]))
                return elt
            if m == 'attr':
                self.fill(elt, ty, v)
                for _ in range(self.rng.randint(1, 2)):
                    an = self.rng.choice(SHARED_NAMES + ['zz', 'f0_0', 'f1_0', 'f1_1', 'f2_0'])
                    elt.set(an, self.rng.choice(['1', 'x', 'true', '', '7']))
                    self.muts.append('%s @%s' % (name, an))
                return elt
            if m == 'text':
                self.fill(elt, ty, v)
                if len(elt) == 0:
                    elt.text = self.rng.choice(HOSTILE_TEXT + [None])
                    self.muts.append('%s text=%r' % (name, elt.text))
                return elt
        self.fill(elt, ty, v)
        return elt

    def fill(self, elt, ty, v):
        from lxml import etree
        if v[0] == 'none':
            elt.set('{%s}nil' % XSI, 'true')
            return
        if v[0] == 'list':
            e = ty[1] if ty[0] in ('arr', 'iter') else ('prim', 'int')
            for x in v[1]:
                elt.append(self.element(e, x, self.arr_ns(e), self.type_name(e)))
            return
        if v[0] == 'obj':
            cid = v[1]
            if ty[0] == 'ref' and cid != ty[1] and self.allow_xsi:
                c = self.desc['classes'][cid]
                elt.set('{%s}type' % XSI, self.lexical(c['ns'], c['name']))
            self.members(elt, cid, v[2])
            return
        elt.text = leaf_text(v)

    def members(self, elt, cid, vals):
        # declaring class of every flattened member
        decl = []
        chain = []
        c = cid
        while c is not None:
            chain.append(c)
            c = self.desc['classes'][c]['parent']
        for c in reversed(chain):
            decl.extend([self.desc['classes'][c]['ns']] * len(self.desc['classes'][c]['fields']))
        kids = []
        for f, dns, x in zip(flat_fields(self.desc, cid), decl, vals):
            if f['kind'] == 'attr':
                if x[0] != 'none':
                    elt.set(f['name'], leaf_text(x))
                continue
            if is_multi(f):
                if x[0] == 'list':
                    for y in x[1]:
                        kids.append(self.element(f['ty'], y, dns, f['name'], f['nillable']))
                elif f['min'] > 0:
                    kids.append(self.element(f['ty'], ('none',), dns, f['name']))
                continue
            if x[0] == 'none':
                if f['min'] > 0:
                    kids.append(self.element(f['ty'], x, dns, f['name']))
                continue
            kids.append(self.element(f['ty'], x, dns, f['name'], f['nillable']))
        attr_fields = [f for f in flat_fields(self.desc, cid) if f['kind'] == 'attr']
        if attr_fields and kids and self.roll():
            # an attribute of a child named like an XmlAttribute member of this (the parent's) class
            f = self.rng.choice(attr_fields)
            k = self.rng.choice(kids)
            k.set(f['name'], self.rng.choice([leaf_text(gen_leaf(self.rng, f['ty'][1])), 'abc', 'true', '7', '']))
            self.muts.append('child @%s' % f['name'])
        if self.roll() and kids:
            r = self.rng.random()
            if r < 0.3:
                kids.pop(self.rng.randrange(len(kids)))
                self.muts.append('drop child')
            elif r < 0.6:
                k = self.rng.choice(kids)
                kids.insert(self.rng.randrange(len(kids) + 1), copy.deepcopy(k))
                self.muts.append('duplicate child')
            elif r < 0.8:
                self.rng.shuffle(kids)
                self.muts.append('shuffle')
            else:
                from lxml import etree
                kids.append(etree.Element(self.qn(self.tns, 'zz_unknown')))
                self.muts.append('unknown child')
        for k in kids:
            elt.append(k)

    def document(self, ty, v, ns, name):
        """a parsed document whose root declares every prefix used in xsi:type values"""
        from lxml import etree
        self.muts = []
        body = self.element(ty, v, ns, name)
        root = etree.Element(body.tag, nsmap=self.nsmap)
        root.text = body.text
        for k, val in body.attrib.items():
            root.set(k, val)
        for c in body:
            root.append(c)
        return etree.fromstring(etree.tostring(root)), list(self.muts)


def g_nsmap(nsmap):
    items = sorted(nsmap.items(), key=lambda kv: (kv[0] is not None, kv[0] or ''))
    return glist(['(%s, %s)' % (gopt(p, gtext), gtext(u)) for p, u in items])


def g_xn(e, std=None):
    """lxml element -> C04.XmlModel.xn term; [std] = (dict, name): print that namespace map by name"""
    from lxml import etree
    if not isinstance(e.tag, str):
        return 'XO'
    q = etree.QName(e)
    atts = []
    for k, v in e.attrib.items():          # document order: the loops over attributes stop at the first failure
        qa = etree.QName(k)
        atts.append('(%s, %s, %s)' % (gtext(qa.namespace or ''), gtext(qa.localname), gtext(v)))
    nm = std[1] if std and dict(e.nsmap) == std[0] else g_nsmap(e.nsmap)
    return '(XE %s %s %s %s %s %s)' % (gtext(q.namespace or ''), gtext(q.localname), nm, glist(atts),
                                       gopt(e.text, gtext), glist([g_xn(c, std) for c in e]))


def g_ty(ty):
    if ty[0] == 'prim':
        return '(TPrim %s)' % G_PRIM[ty[1]]
    if ty[0] == 'ref':
        return '(TRef %d%%nat)' % ty[1]
    return '(TArr %s)' % g_ty(ty[1])


def g_field(f):
    return '(mkfield %s %s %s %s %s %s)' % (gtext(f['name']), g_ty(f['ty']), gz(f['min']), gopt(f['max'], gz),
                                            gbool(f['nillable']), 'KAttr' if f['kind'] == 'attr' else 'KElem')


def g_universe(desc):
    rows = []
    for c in desc['classes']:
        rows.append('(mkcls %s %s %s %s)' % (gtext(c['ns'] or ''), gtext(c['name']), gopt(c['parent'], lambda p: '%d%%nat' % p),
                                             glist([g_field(f) for f in c['fields']])))
    return glist(rows)


def g_val(v):
    k = v[0]
    if k == 'none':
        return 'VNone'
    if k == 'int':
        return '(VLeaf (LInt %s))' % gz(v[1])
    if k == 'text':
        return '(VLeaf (LText %s))' % gtext(v[1])
    if k == 'bool':
        return '(VLeaf (LBool %s))' % gbool(v[1])
    if k == 'list':
        return '(VList %s)' % glist([g_val(x) for x in v[1]])
    if k == 'obj':
        return '(VObj %d%%nat %s)' % (v[1], glist([g_val(x) for x in v[2]]))
    raise ValueError('value outside the modelled universe: %r' % (v,))


EXN = {'ValueError': 'ValueError', 'TypeError': 'TypeError', 'AttributeError': 'AttributeError', 'KeyError': 'KeyError',
       'IndexError': 'IndexError', 'AssertionError': 'AssertionError', 'OverflowError': 'OverflowError',
       'InvalidOperation': 'InvalidOperation'}


def observe(fn, *args):
    """('ok', value) | ('vfault',) | ('crash', CoqExn, PythonName)"""
    from spyne.model.fault import Fault
    try:
        return ('ok', fn(*args))
    except Fault as e:
        if e.faultcode == 'Client.ValidationError':
            return ('vfault',)
        return ('crash', 'OtherExn', 'Fault:' + str(e.faultcode))
    except Exception as e:
        n = type(e).__name__
        return ('crash', EXN.get(n, 'OtherExn'), n)


def gout(o, f):
    if o[0] == 'ok':
        return '(Ok %s)' % f(o[1])
    if o[0] == 'vfault':
        return 'VFault'
    return '(Crash %s)' % o[1]


def registry_of(app, classes):
    """ctx.app.interface.classes as (key, neutral ty | None)"""
    out = []
    for k, c in app.interface.classes.items():
        out.append((k, class_to_ty(classes, c), c))
    return out


def g_registry(reg):
    rows = []
    for k, t, _ in reg:
        if t is not None and (t[0] != 'prim' or t[1] in MODEL_PRIMS) and _model_ty(t):
            rows.append('(%s, RTy %s)' % (gtext(k), g_ty(t)))
        else:
            rows.append('(%s, ROther)' % gtext(k))
    return glist(rows)


def _model_ty(t):
    if t[0] == 'prim':
        return t[1] in MODEL_PRIMS
    if t[0] == 'arr':
        return _model_ty(t[1])
    return True


XML_IMPORTS = ('From SpyneV Require Import Base.Prelude Wire.Universe Wire.Xml C01.Leaf C04.Guard C04.XmlModel Gen.XsiGuard.\n')


def xml_key(kind, prot, val, muts, bad):
    shape = sorted(set(m.split(' ', 1)[1].split('=')[0] if ' ' in m else m for m in muts))
    return 'C04|%s|validator=%s|%s->%s' % (prot, val, bad[1], bad[2].split(':')[0])


def corr_xml(check, tier):
    """XmlDocument.from_element on generated universes and type-directed mutations of valid documents
    against C04.XmlModel.from_element4 (registry printed from app.interface.classes)"""
    from lxml import etree
    from spyne.protocol.xml import XmlDocument
    rng = check.rng
    n_univ = 10 if tier == 'quick' else 80
    per_class = 7 if tier == 'quick' else 14
    for ui in range(n_univ):
        desc = gen_desc(rng, rng.randint(2, 6), namespaces=(TNS, 'urn:u') if ui % 2 else (TNS,))
        classes = build_spyne(desc)
        n = len(classes)
        params = [rng.choice([('prim', rng.choice(MODEL_PRIMS)), ('ref', rng.randrange(n)), ('arr', ('ref', rng.randrange(n))),
                              ('arr', ('prim', 'int'))]) for _ in range(rng.randint(1, 3))]
        params += [('ref', i) for i in range(n)]          # every class known to the interface
        prots = {}
        for soft in (False, True):
            for parse in (True, False):
                prots[(soft, parse)] = XmlDocument(validator='soft' if soft else None, parse_xsi_type=parse)
        app, cap, in_msg = build_app(classes, params, prots[(False, True)])
        ctx = types.SimpleNamespace(app=app)
        d2 = msg_desc(desc, classes, in_msg)
        cls2 = classes + [in_msg]
        reg = registry_of(app, cls2)
        enc = XmlEnc(rng, d2, [k for k, t, _ in reg if k.startswith('{')], mutate_p=0.0)
        imports = (XML_IMPORTS + 'Definition UU : universe := %s.\nDefinition REG : list (text * rtarget) := %s.\n'
                   'Definition NM : list (option text * text) := %s.\n'
                   'Definition CF (soft parse : bool) : xcfg4 := mkx4 soft parse (Some %s) REG xsi_target.\n'
                   % (g_universe(d2), g_registry(reg), g_nsmap(dict(enc.nsmap)), gtext(TNS)))
        std = (dict(enc.nsmap), 'NM')
        cases = []
        for cid, cls in enumerate(cls2):
            for j in range(per_class):
                enc.mutate_p = 0.0 if j == 0 else rng.choice([0.1, 0.25, 0.5])
                v = gen_value(rng, d2, ('ref', cid), rng.randint(1, 3), False, poly=(j % 2 == 1))
                c = d2['classes'][cid]
                doc, muts = enc.document(('ref', cid), v, c['ns'], c['name'])
                for (soft, parse), prot in prots.items():
                    if (soft, parse) != (False, True) and rng.random() < 0.4:
                        continue
                    o = observe(prot.from_element, ctx, cls, doc)
                    check.count(('xml', soft, parse, etree.tostring(doc)))
                    if o[0] == 'ok':
                        nv = from_native(cls2, o[1])
                        bad = native_ok(cls, o[1], width=soft)
                        if bad:
                            check.fail(xml_key('from_element', 'XmlDocument', 'soft' if soft else None, muts, bad),
                                       'XmlDocument(validator=%s).from_element delivered %s where %s is declared (at %s) for %s'
                                       % ('soft' if soft else None, bad[2], bad[1], bad[0], etree.tostring(doc).decode()[:300]),
                                       {'kind': 'xml-object', 'universe': desc, 'params': params, 'cid': cid, 'soft': soft, 'parse': parse,
                                        'document': etree.tostring(doc).decode(), 'mutations': muts})
                        if not in_universe(nv):
                            continue      # outside the model's value space (only reachable through a violation)
                        o = ('ok', nv)
                    cases.append(('(%s, %s, %d%%nat, %s, %s)' % (gbool(soft), gbool(parse), cid, g_xn(doc, std), gout(o, g_val)),
                                  'universe %d class %d soft=%s parse=%s %s: %s -> %r' % (
                                      ui, cid, soft, parse, muts, etree.tostring(doc).decode()[:400], o)))
        lib.correspond(check, 'xml_from_element', imports, 'bool * bool * nat * xn * out val',
                       '(fun c => let \'(soft, parse, cid, t, o) := c in out_eqb val_eqb '
                       '(from_element4 spyne_leaf (CF soft parse) UU %d (TRef cid) t) o)' % FUEL, cases,
                       show='(fun c : bool * bool * nat * xn * out val => let \'(soft, parse, cid, t, o) := c in '
                            'from_element4 spyne_leaf (CF soft parse) UU %d (TRef cid) t)' % FUEL)
        if ui == 0 and cases:
            check.sample({'xml universe': desc, 'case': cases[min(3, len(cases) - 1)][1][:500]})


# ====================================================================== driving requests
def drive(app, body, cap):
    del cap.headers[:]
    """one request through ServerBase; returns ('called', args) | ('fault', code) | ('crash', name)"""
    from spyne.server import ServerBase
    from spyne import MethodContext
    del cap.calls[:]
    srv = ServerBase(app)
    ctx = MethodContext(srv, MethodContext.SERVER)
    ctx.in_string = [body]
    try:
        ctxs = srv.generate_contexts(ctx)
        ctx = ctxs[0]
        if ctx.in_error is not None:
            return ('fault', str(ctx.in_error.faultcode))
        srv.get_in_object(ctx)
        if ctx.in_error is not None:
            return ('fault', str(ctx.in_error.faultcode))
        srv.get_out_object(ctx)
    except Exception as e:
        if cap.calls:
            return ('called', cap.calls[-1])
        return ('crash', type(e).__name__)
    if cap.calls:
        return ('called', cap.calls[-1])
    if ctx.out_error is not None:
        return ('fault', str(ctx.out_error.faultcode))
    return ('nocall',)


def judge_call(check, kind, prot_name, val, param_classes, res, muts, replay):
    """apply the property to what the function was called with"""
    stat('%s validator=%s: %s' % (prot_name, val, 'function entered' if res[0] == 'called' else 'refused'))
    if res[0] != 'called':
        return
    args = res[1]
    for i, (pc, a) in enumerate(zip(param_classes, args)):
        bad = native_ok(pc, a, 'p%d' % i, width=val is not None)
        if bad:
            check.fail(xml_key(kind, prot_name, val, muts, bad),
                       '%s(validator=%r): the service function received %s where %s is declared (at %s)' % (
                           prot_name, val, bad[2], bad[1], bad[0]), replay)
            return
    if len(args) != len(param_classes):
        check.fail('C04|%s|%s|validator=%s|arity' % (kind, prot_name, val),
                   '%s: function called with %d arguments, %d declared' % (prot_name, len(args), len(param_classes)), replay)


SOAP_ENV = 'http://schemas.xmlsoap.org/soap/envelope/'
SOAP12_ENV = 'http://www.w3.org/2003/05/soap-envelope'
STATS = {}


def stat(k):
    STATS[k] = STATS.get(k, 0) + 1


def oracle_xml(check, tier):
    """XmlDocument and Soap11, validators None / soft / lxml, rich leaf types, through ServerBase"""
    from lxml import etree
    from spyne.protocol.xml import XmlDocument
    from spyne.protocol.soap import Soap11
    rng = check.rng
    n_univ = 6 if tier == 'quick' else 40
    n_docs = 30 if tier == 'quick' else 80
    for ui in range(n_univ):
        desc = gen_desc(rng, rng.randint(2, 5), prims=RICH_PRIMS)
        classes = build_spyne(desc)
        n = len(classes)
        params = [rng.choice([('prim', rng.choice(RICH_PRIMS)), ('ref', rng.randrange(n)), ('arr', ('ref', rng.randrange(n))),
                              ('arr', ('prim', rng.choice(RICH_PRIMS)))]) for _ in range(rng.randint(1, 3))]
        params += [('ref', n - 1)]
        apps = {}
        hcid = rng.randrange(n)
        from spyne.protocol.soap import Soap12
        for pname, pcls in (('XmlDocument', XmlDocument), ('Soap11', Soap11), ('Soap12', Soap12)):
            for val in (None, 'soft', 'lxml'):
                apps[(pname, val)] = build_app(classes, params, pcls(validator=val), pcls(),
                                               header=classes[hcid] if pname != 'XmlDocument' else None)
        app0, _, in_msg = apps[('Soap11', None)]
        d2 = msg_desc(desc, classes, in_msg)
        reg = registry_of(app0, classes + [in_msg])
        enc = XmlEnc(rng, d2, [k for k, t, _ in reg if k.startswith('{')])
        mcid = len(d2['classes']) - 1
        pcs = list(in_msg._type_info.values())
        for di in range(n_docs):
            enc.mutate_p = 0.0 if di == 0 else rng.choice([0.08, 0.2, 0.4])
            v = gen_value(rng, d2, ('ref', mcid), rng.randint(1, 3), False, poly=(di % 2 == 1))
            doc, muts = enc.document(('ref', mcid), v, TNS, 'f')
            body = etree.tostring(doc)
            hv = gen_value(rng, d2, ('ref', hcid), rng.randint(1, 2), False, poly=(di % 2 == 1))
            hc = d2['classes'][hcid]
            hdoc, hmuts = enc.document(('ref', hcid), hv, hc['ns'], hc['name'])
            sbodies = {}
            for sname, sns in (('Soap11', SOAP_ENV), ('Soap12', SOAP12_ENV)):
                env = etree.Element('{%s}Envelope' % sns, nsmap={'soap': sns})
                etree.SubElement(env, '{%s}Header' % sns).append(copy.deepcopy(hdoc))
                etree.SubElement(env, '{%s}Body' % sns).append(copy.deepcopy(doc))
                sbodies[sname] = etree.tostring(env)
            for (pname, val), (app, cap, _) in apps.items():
                b = body if pname == 'XmlDocument' else sbodies[pname]
                res = drive(app, b, cap)
                check.count(('oracle-xml', pname, val, b))
                rp = {'kind': 'xml-request', 'protocol': pname, 'validator': val, 'universe': desc, 'params': params,
                      'body': b.decode(), 'mutations': muts, 'header': hcid if pname != 'XmlDocument' else None}
                judge_call(check, 'request', pname, val, pcs, res, muts, rp)
                if pname != 'XmlDocument' and res[0] == 'called' and cap.headers:
                    stat('%s validator=%s: header %s' % (pname, val, 'delivered' if cap.headers[-1] is not None else 'absent'))
                    bad = native_ok(classes[hcid], cap.headers[-1], 'header', width=val is not None)
                    if bad:
                        check.fail(xml_key('header', pname + '-header', val, hmuts, bad),
                                   '%s(validator=%r): ctx.in_header is %s where %s is declared (at %s)' % (pname, val, bad[2], bad[1], bad[0]), rp)


def oracle_xml_retag_all(check, tier):
    """the property's own quantifier on a fixed interface: every element position of a valid request retagged
    with every class key of interface.classes (plus unknown names), XmlDocument and Soap11, validator None and soft"""
    from lxml import etree
    from spyne.protocol.xml import XmlDocument
    from spyne.protocol.soap import Soap11
    rng = check.rng
    leaf_fields = [{'name': 'l_%s' % p, 'ty': ('prim', p), 'min': 0, 'max': 1, 'nillable': True, 'kind': 'elem'} for p in RICH_PRIMS]
    desc = {'classes': [
        {'ns': TNS, 'name': 'Leaves', 'parent': None, 'fields': leaf_fields},
        {'ns': TNS, 'name': 'Base', 'parent': None, 'fields': [
            {'name': 'i', 'ty': ('prim', 'int'), 'min': 0, 'max': 1, 'nillable': True, 'kind': 'elem'},
            {'name': 'a', 'ty': ('prim', 'i32'), 'min': 0, 'max': 1, 'nillable': True, 'kind': 'attr'}]},
        {'ns': TNS, 'name': 'Sub', 'parent': 1, 'fields': [
            {'name': 't', 'ty': ('prim', 'text'), 'min': 0, 'max': 1, 'nillable': True, 'kind': 'elem'}]},
        {'ns': 'urn:u', 'name': 'Other', 'parent': None, 'fields': [
            {'name': 's', 'ty': ('prim', 'text'), 'min': 0, 'max': 1, 'nillable': True, 'kind': 'elem'}]},
        {'ns': TNS, 'name': 'Holder', 'parent': None, 'fields': [
            {'name': 'b', 'ty': ('ref', 1), 'min': 0, 'max': 1, 'nillable': True, 'kind': 'elem'},
            {'name': 'o', 'ty': ('ref', 3), 'min': 0, 'max': 1, 'nillable': True, 'kind': 'elem'},
            {'name': 'ints', 'ty': ('arr', ('prim', 'int')), 'min': 0, 'max': 1, 'nillable': True, 'kind': 'elem'},
            {'name': 'bases', 'ty': ('arr', ('ref', 1)), 'min': 0, 'max': 1, 'nillable': True, 'kind': 'elem'},
            {'name': 'm', 'ty': ('prim', 'date'), 'min': 0, 'max': None, 'nillable': True, 'kind': 'elem'},
            {'name': 'lv', 'ty': ('ref', 0), 'min': 0, 'max': 1, 'nillable': True, 'kind': 'elem'},
            # arrays whose item types derive from one another as Spyne classes but not as native types
            {'name': 'decs', 'ty': ('arr', ('prim', 'dec')), 'min': 0, 'max': 1, 'nillable': True, 'kind': 'elem'},
            {'name': 'dbls', 'ty': ('arr', ('prim', 'dbl')), 'min': 0, 'max': 1, 'nillable': True, 'kind': 'elem'},
            {'name': 'strs', 'ty': ('arr', ('prim', 'text')), 'min': 0, 'max': 1, 'nillable': True, 'kind': 'elem'},
            {'name': 'uuids', 'ty': ('arr', ('prim', 'uuid')), 'min': 0, 'max': 1, 'nillable': True, 'kind': 'elem'},
            {'name': 'dts', 'ty': ('arr', ('prim', 'dt')), 'min': 0, 'max': 1, 'nillable': True, 'kind': 'elem'},
            {'name': 'dates', 'ty': ('arr', ('prim', 'date')), 'min': 0, 'max': 1, 'nillable': True, 'kind': 'elem'},
            # Iterable subclasses Array: an Iterable(U) class in the registry is a candidate target for every Array(T) element
            {'name': 'uris', 'ty': ('iter', ('prim', 'uri')), 'min': 0, 'max': 1, 'nillable': True, 'kind': 'elem'}]}]}
    classes = build_spyne(desc)
    params = [('ref', 4), ('prim', 'dec'), ('arr', ('ref', 2))]
    apps = {}
    for pname, pcls in (('XmlDocument', XmlDocument), ('Soap11', Soap11)):
        for val in (None, 'soft'):
            apps[(pname, val)] = build_app(classes, params, pcls(validator=val), pcls())
    app0, _, in_msg = apps[('XmlDocument', None)]
    d2 = msg_desc(desc, classes, in_msg)
    reg = registry_of(app0, classes + [in_msg])
    keys = sorted(k for k, t, _ in reg if k.startswith('{'))
    enc = XmlEnc(rng, d2, keys, mutate_p=0.0)
    pcs = list(in_msg._type_info.values())
    mcid = len(d2['classes']) - 1
    lv = ('obj', 0, [gen_leaf(rng, p) for p in RICH_PRIMS])
    base = ('obj', 1, [('int', 5), ('int', 6)])
    sub = ('obj', 2, [('int', 7), ('int', 8), ('text', 'tt')])
    holder = ('obj', 4, [base, ('obj', 3, [('text', 'q')]), ('list', [('int', 1), ('int', 2)]), ('list', [base, sub]),
                         ('list', [('date', (2020, 1, 2))]), lv,
                         ('list', [('dec', '1.50'), ('dec', '2')]), ('list', [('dbl', 1.5)]), ('list', [('text', 'x'), ('text', '7')]),
                         ('list', [('uuid', '0123456789abcdef0123456789abcdef')]), ('list', [('dt', (2020, 1, 2, 3, 4, 5))]),
                         ('list', [('date', (2020, 1, 2))]), ('list', [('text', 'urn:x')])])
    v = ('obj', mcid, [holder, ('dec', '1.50'), ('list', [sub])])
    doc, _ = enc.document(('ref', mcid), v, TNS, 'f')
    elts = [e for e in doc.iter() if isinstance(e.tag, str)]
    values = []
    for k in keys:
        ns, name = xsi_key_to_qname(k)
        values.append(enc.lexical(ns, name) if ns in enc.prefix else name)
    values += ['n0:Nope', 'zz:Base', 'Base', 'xs:anyType', 'xs:nope']
    for idx in range(len(elts)):
        for val_txt in values:
            d = copy.deepcopy(doc)
            e = [x for x in d.iter() if isinstance(x.tag, str)][idx]
            e.set('{%s}type' % XSI, val_txt)
            body = etree.tostring(d)
            env = etree.Element('{%s}Envelope' % SOAP_ENV, nsmap={'soap': SOAP_ENV})
            etree.SubElement(env, '{%s}Body' % SOAP_ENV).append(d)
            sbody = etree.tostring(env)
            muts = ['%s xsi:type=%s' % (etree.QName(e).localname, val_txt)]
            for (pname, val), (app, cap, _) in apps.items():
                if pname == 'Soap11' and (idx + len(val_txt)) % 3:
                    continue
                b = body if pname == 'XmlDocument' else sbody
                res = drive(app, b, cap)
                check.count(('oracle-retag', pname, val, idx, val_txt))
                judge_call(check, 'retag', pname, val, pcs, res, muts,
                           {'kind': 'xml-request', 'protocol': pname, 'validator': val, 'universe': desc, 'params': params,
                            'body': b.decode(), 'mutations': muts, 'header': None})


# ====================================================================== dict documents (JSON / YAML / MessagePack)
DICT_PRIMS = ('int', 'i32', 'u8', 'i64', 'dbl', 'bool', 'text', 'date', 'bytes')
INT_BOUNDS = {'int': (None, None), 'i32': (-2 ** 31, 2 ** 31 - 1), 'u8': (0, 255), 'i64': (-2 ** 63, 2 ** 63 - 1)}
DICT_IMPORTS = 'From SpyneV Require Import Base.Prelude C04.Guard C04.DictModel Gen.DictLeaf.\n'
PROTOS = {'json': 'PJson', 'yaml': 'PYaml', 'msgpack': 'PMsgpack'}


def gen_ddesc(rng, n_classes):
    """universes for the dict model: no XmlAttribute members, leaf types of DictModel.dprim"""
    d = gen_desc(rng, n_classes, prims=DICT_PRIMS, allow_attr=True, wrap_kinds=('attr', 'data'), wrap_prims=DICT_PRIMS, wrap_p=0.3)
    return d


def g_dprim(p):
    if p in INT_BOUNDS:
        lo, hi = INT_BOUNDS[p]
        return '(DInt %s %s)' % (gopt(lo, gz), gopt(hi, gz))
    return {'dbl': 'DDouble', 'bool': 'DBool', 'text': 'DText', 'date': 'DDate', 'bytes': 'DBytes'}[p]


def g_dty(ty):
    if ty[0] == 'wrap':
        return '(DWrap %s)' % g_dprim(ty[1])
    if ty[0] == 'prim':
        return '(DPrim %s)' % g_dprim(ty[1])
    if ty[0] == 'ref':
        return '(DRef %d%%nat)' % ty[1]
    return '(DArr %s)' % g_dty(ty[1])


def g_duniverse(desc, classes):
    rows = []
    for i, c in enumerate(desc['classes']):
        subs = []
        for sc in classes[i].get_subclasses():
            for j, k in enumerate(classes):
                if orig(sc) is k:
                    subs.append(j)
        fs = ['(mkdf %s %s %s %s %s)' % (gtext(f['name']), g_dty(('wrap', f['ty'][1], f['kind']) if f['kind'] != 'elem' else f['ty']),
                                         gz(f['min']), gopt(f['max'], gz), gbool(f['nillable']))
              for f in c['fields']]
        rows.append('(mkdc %s %s %s %s)' % (gtext(c['name']), gopt(c['parent'], lambda p: '%d%%nat' % p), glist(fs),
                                            glist(['%d%%nat' % j for j in subs])))
    return glist(rows)


def g_flt(x):
    if x != x:
        return 'FNan'
    if x in (float('inf'), float('-inf')):
        return 'FInf'
    if x == int(x):
        return '(FInt %s)' % gz(int(x))
    return 'FFrac'


def g_jv(d):
    if d is None:
        return 'JNull'
    if isinstance(d, bool):
        return '(JBool %s)' % gbool(d)
    if isinstance(d, int):
        return '(JInt %s)' % gz(d)
    if isinstance(d, float):
        return '(JFlt %s)' % g_flt(d)
    if isinstance(d, str):
        return '(JStr %s)' % gtext(d)
    if isinstance(d, (bytes, bytearray)):
        return '(JBytes %s)' % gtext(bytes(d))
    if isinstance(d, (list, tuple)):
        return '(JList %s)' % glist([g_jv(x) for x in d])
    if isinstance(d, dict):
        return '(JMap %s)' % glist(['(%s, %s)' % (g_jv(k), g_jv(v)) for k, v in d.items()])
    raise ValueError('document node outside the modelled kinds: %r' % type(d))


def g_nv(v):
    k = v[0]
    if k == 'none':
        return 'NNone'
    if k == 'bool':
        return '(NBool %s)' % gbool(v[1])
    if k == 'int':
        return '(NInt %s)' % gz(v[1])
    if k == 'flt':
        return '(NFlt %s)' % g_flt(v[1])
    if k == 'text':
        return '(NText %s)' % gtext(v[1])
    if k == 'parsed':
        return '(NParsed %s)' % v[1]
    if k == 'raw':
        return '(NRaw %s)' % g_jv(v[1])
    if k == 'tuple':
        return '(NTuple %s)' % g_jv(v[1])
    if k == 'list':
        return '(NList %s)' % glist([g_nv(x) for x in v[1]])
    if k == 'obj':
        return '(NObj %d%%nat %s)' % (v[1], glist([g_nv(x) for x in v[2]]))
    raise ValueError('native value outside the modelled kinds: %r' % (v,))


def is_doc(v):
    if v is None or isinstance(v, (bool, int, float, str, bytes)):
        return True
    if isinstance(v, (list, tuple)):
        return all(is_doc(x) for x in v)
    if isinstance(v, dict):
        return all(is_doc(k) and is_doc(x) for k, x in v.items())
    return False


def dnative(desc, classes, ty, v, proto, multi=False):
    """native value delivered for declared type ty -> neutral form of DictModel.nv (type directed, because a
    Python list may be an array, a sequence of byte chunks or a passed-through document)"""
    if v is None:
        return ('none',)
    if multi:
        if type(v) is list:
            return ('list', [dnative(desc, classes, ty, x, proto) for x in v])
        return ('other', type(v).__name__)
    if ty[0] == 'arr':
        if type(v) is list:
            return ('list', [dnative(desc, classes, ty[1], x, proto) for x in v])
        return ('other', type(v).__name__)
    if ty[0] == 'ref':
        if hasattr(v, '_type_info'):
            k = orig(type(v))
            for i, c in enumerate(classes):
                if k is c:
                    return ('obj', i, [dnative(desc, classes, f['ty'], getattr(v, f['name'], None), proto, is_multi(f))
                                       for f in flat_fields(desc, i)])
        if type(v) is list:
            return ('list', [('other', 'item')] if v else [])
        return ('other', type(v).__name__)
    p = ty[1]                          # ('prim', p) and ('wrap', p, kind) alike
    if p == 'bytes':
        if isinstance(v, (tuple, list)):
            if proto == 'msgpack' and len(v) == 1 and is_doc(v[0]):
                return ('tuple', v[0])
            if all(isinstance(x, (bytes, bytearray, memoryview)) for x in v):
                return ('parsed', 'DBytes')
        return ('other', type(v).__name__)
    if p == 'date':
        if isinstance(v, datetime.date) and not isinstance(v, datetime.datetime):
            return ('parsed', 'DDate')
        return ('raw', v) if is_doc(v) else ('other', type(v).__name__)
    if p == 'text':
        if isinstance(v, str):
            return ('text', v)
        return ('raw', v) if is_doc(v) else ('other', type(v).__name__)
    if isinstance(v, bool):
        return ('bool', v)
    if isinstance(v, int):
        return ('int', v)
    if isinstance(v, float):
        return ('flt', v)
    if is_doc(v):
        return ('raw', v)
    return ('other', type(v).__name__)


def nv_in_model(v):
    k = v[0]
    if k == 'other':
        return False
    if k == 'list':
        return all(nv_in_model(x) for x in v[1])
    if k == 'obj':
        return all(nv_in_model(x) for x in v[2])
    return True


def make_prot(name, val, wrappers):
    from spyne.protocol.json import JsonDocument
    from spyne.protocol.yaml import YamlDocument
    from spyne.protocol.msgpack import MessagePackDocument
    cls = {'json': JsonDocument, 'yaml': YamlDocument, 'msgpack': MessagePackDocument}[name]
    return cls(validator=val, ignore_wrappers=not wrappers)


def wire(name, doc):
    """what the protocol's create_in_document makes of the document after one trip over the wire;
    raises when the format cannot carry it"""
    import yaml, msgpack
    if name == 'json':
        return json.loads(json.dumps(doc))
    if name == 'yaml':
        return yaml.load(yaml.safe_dump(doc), Loader=yaml.SafeLoader)
    return msgpack.unpackb(msgpack.packb(doc))


def encode_body(name, doc):
    import yaml, msgpack
    if name == 'json':
        return json.dumps(doc).encode()
    if name == 'yaml':
        return yaml.safe_dump(doc).encode()
    return msgpack.packb(doc)


SCALARS = [None, True, False, 0, 1, 2, -1, 7, 255, 256, 300, -129, 2 ** 31, 2 ** 63, 2 ** 64 - 1, 0.0, 1.0, 2.0, -3.0, 2.5, 1e20, 1e300,
           float('nan'), float('inf'), '', '5', '7', 'abc', 'true', '1', '2020-01-02', '2020-13-45', 'YWJj', ' 7 ', '1_0', '2.0']


class DictEnc(object):
    """schema-directed encoder of request documents with kind-directed mutations"""

    def __init__(self, rng, desc, proto, wrappers, rich=False):
        self.rng, self.desc, self.proto, self.wrappers, self.rich = rng, desc, proto, wrappers, rich
        self.mutate_p = 0.0
        self.muts = []

    def roll(self):
        return self.rng.random() < self.mutate_p

    def hostile(self, depth=2):
        r = self.rng.random()
        if r < 0.55:
            v = self.rng.choice(SCALARS)
            if self.proto == 'msgpack' and isinstance(v, int) and not isinstance(v, bool) and not (-2 ** 63 <= v < 2 ** 64):
                v = 2 ** 63
            return v
        if r < 0.62 and self.proto == 'msgpack':
            return self.rng.choice([b'', b'5', b'abc', b'\xff\xfe'])
        if r < 0.8:
            return [self.hostile(depth - 1) for _ in range(self.rng.randint(0, 3))] if depth > 0 else []
        keys = [f['name'] for c in self.desc['classes'] for f in c['fields']] + [c['name'] for c in self.desc['classes']] + ['zz', '']
        d = {}
        for _ in range(self.rng.randint(0, 3)):
            d[self.rng.choice(keys)] = self.hostile(depth - 1) if depth > 0 else None
        return d

    def leaf(self, v):
        k = v[0]
        if k == 'int':
            if self.proto == 'msgpack' and not (-2 ** 63 <= v[1] < 2 ** 64):
                return 7
            return v[1]
        if k == 'bool':
            return v[1]
        if k == 'text':
            return v[1]
        if k == 'dbl':
            return v[1]
        if k == 'bytes':
            return v[1] if self.proto == 'msgpack' else leaf_text(v)
        return leaf_text(v)

    def value(self, ty, v, name='?'):
        if self.roll():
            h = self.hostile()
            self.muts.append('%s<-%s' % (name, type(h).__name__))
            return h
        if v[0] == 'none':
            return None
        if v[0] == 'list':
            e = ty[1] if ty[0] == 'arr' else ty
            return [self.value(e, x, name + '[]') for x in v[1]]
        if v[0] == 'obj':
            return self.obj(ty, v)
        return self.leaf(v)

    def obj(self, ty, v):
        cid = v[1]
        body = {}
        for f, x in zip(flat_fields(self.desc, cid), v[2]):
            if x[0] == 'none' and self.rng.random() < 0.6:
                continue
            key = f['name']
            if self.roll():
                key = self.rng.choice(['zz', key.upper(), key.encode() if self.proto == 'msgpack' else key + ' ', key])
                self.muts.append('key %r' % (key,))
            if is_multi(f):
                if x[0] == 'list':
                    body[key] = [self.value(f['ty'], y, f['name']) for y in x[1]]
                    if self.roll():
                        body[key] = self.hostile()
                        self.muts.append('%s multi<-%s' % (f['name'], type(body[key]).__name__))
                else:
                    body[key] = None if self.rng.random() < 0.5 else []
            else:
                body[key] = self.value(f['ty'], x, f['name'])
                if f['kind'] != 'elem' and self.roll():
                    # every wrong kind of document at exactly the XmlAttribute / XmlData members
                    body[key] = self.rng.choice([[], [1], ['a', 'b'], {}, {'a': 1}, 3, 2.5, True, None, 'abc'] +
                                                ([b'abc'] if self.proto == 'msgpack' else []))
                    self.muts.append('%s(%s)<-%s' % (f['name'], f['kind'], type(body[key]).__name__))
        if self.roll() and body:
            # positional form: the members as a sequence
            body = [body.get(f['name']) for f in flat_fields(self.desc, cid)]
            self.muts.append('positional')
        if self.wrappers:
            name = self.desc['classes'][cid]['name']
            if self.roll():
                name = self.rng.choice([c['name'] for c in self.desc['classes']] + ['Nope', ''])
                self.muts.append('wrapper %s' % name)
            if self.roll():
                self.muts.append('wrapper shape')
                return self.rng.choice([{}, {name: body, 'x': 1}, [body], body])
            return {name: body}
        return body

    def document(self, ty, v):
        self.muts = []
        return self.value(ty, v, 'top'), list(self.muts)


def collect_strings(d, strs, byts):
    if isinstance(d, str):
        strs.add(d)
        strs.update(d)
    elif isinstance(d, (bytes, bytearray)):
        byts.add(bytes(d))
    elif isinstance(d, (list, tuple)):
        for x in d:
            collect_strings(x, strs, byts)
    elif isinstance(d, dict):
        for k, x in d.items():
            collect_strings(k, strs, byts)
            collect_strings(x, strs, byts)


def reader_out(o, p):
    """observed reader result -> text of DictModel 'out nv'"""
    if o[0] != 'ok':
        return gout(o, None)
    v = o[1]
    if v is None:
        return '(Ok NNone)'
    if p in INT_BOUNDS and isinstance(v, int) and not isinstance(v, bool):
        return '(Ok (NInt %s))' % gz(v)
    if p == 'date' and isinstance(v, datetime.date) and not isinstance(v, datetime.datetime):
        return '(Ok (NParsed DDate))'
    if p == 'bytes' and isinstance(v, (list, tuple)) and all(isinstance(x, (bytes, bytearray)) for x in v):
        return '(Ok (NParsed DBytes))'
    if p == 'text' and isinstance(v, str):
        return '(Ok (NText %s))' % gtext(v)
    return None


def decode_table(byts):
    """bytes.decode('utf8') on every byte string of the documents (None = UnicodeError)"""
    rows, out = [], {}
    for b in sorted(byts):
        try:
            out[b] = b.decode('utf8')
        except UnicodeError:
            out[b] = None
        rows.append('(%s, %s)' % (gtext(b), gopt(out[b], gtext)))
    return glist(rows), out


def reader_tables(check, prot, pname, strs, byts):
    """the protocol's text readers on every str / bytes of the documents: Coq association lists"""
    rows_s, rows_b = [], []
    for p in ('int', 'i32', 'u8', 'i64', 'date', 'bytes'):
        cls = prim_class(p)
        for s in sorted(strs):
            if p == 'bytes':
                if pname == 'msgpack':
                    continue
                o = observe(prot.from_unicode, cls, s, prot.binary_encoding)
            else:
                o = observe(prot.from_unicode, cls, s)
            t = reader_out(o, p)
            if t is None:
                check.fail('C04|reader|%s|%s' % (pname, p), '%s.from_unicode(%s, %r) returned %r: not a value of its own kind'
                           % (pname, p, s, o), {'kind': 'reader', 'protocol': pname, 'prim': p, 'text': s})
                t = '(Crash OtherExn)'
            rows_s.append('(%s, %s, %s)' % (g_dprim(p), gtext(s), t))
    if pname != 'msgpack':
        for b in sorted(byts):
            o = observe(prot.from_unicode, prim_class('bytes'), b, prot.binary_encoding)
            rows_b.append('(%s, %s, %s)' % (g_dprim('bytes'), gtext(b), reader_out(o, 'bytes') or '(Crash OtherExn)'))
    return glist(rows_s), glist(rows_b)


DICT_DEFS = """
Definition dprim_eqb (a b : dprim) : bool :=
  match a, b with
  | DInt l1 h1, DInt l2 h2 => match l1, l2 with Some x, Some y => x =? y | None, None => true | _, _ => false end
                              && match h1, h2 with Some x, Some y => x =? y | None, None => true | _, _ => false end
  | DDouble, DDouble | DBool, DBool | DText, DText | DDate, DDate | DBytes, DBytes => true
  | _, _ => false
  end.
Fixpoint tab_get (t : list (dprim * text * out nv)) (p : dprim) (s : text) : out nv :=
  match t with
  | [] => Crash OtherExn
  | (q, k, r) :: rest => if dprim_eqb p q && text_eqb s k then r else tab_get rest p s
  end.
Fixpoint dec_get (t : list (text * option text)) (b : text) : option text :=
  match t with
  | [] => None
  | (k, r) :: rest => if text_eqb b k then r else dec_get rest b
  end.
Definition flt_eqb (a b : flt) : bool :=
  match a, b with FInt x, FInt y => x =? y | FFrac, FFrac | FNan, FNan | FInf, FInf => true | _, _ => false end.
Fixpoint jv_eqb (a b : jv) : bool :=
  match a, b with
  | JNull, JNull => true
  | JBool x, JBool y => Bool.eqb x y
  | JInt x, JInt y => x =? y
  | JFlt x, JFlt y => flt_eqb x y
  | JStr x, JStr y => text_eqb x y
  | JBytes x, JBytes y => text_eqb x y
  | JList xs, JList ys =>
      (fix go (l1 l2 : list jv) : bool :=
         match l1, l2 with [], [] => true | x :: r1, y :: r2 => jv_eqb x y && go r1 r2 | _, _ => false end) xs ys
  | JMap xs, JMap ys =>
      (fix go (l1 l2 : list (jv * jv)) : bool :=
         match l1, l2 with
         | [], [] => true
         | (k1, v1) :: r1, (k2, v2) :: r2 => jv_eqb k1 k2 && jv_eqb v1 v2 && go r1 r2
         | _, _ => false
         end) xs ys
  | _, _ => false
  end.
Fixpoint nv_eqb (a b : nv) : bool :=
  match a, b with
  | NNone, NNone => true
  | NBool x, NBool y => Bool.eqb x y
  | NInt x, NInt y => x =? y
  | NFlt x, NFlt y => flt_eqb x y
  | NText x, NText y => text_eqb x y
  | NParsed p, NParsed q => dprim_eqb p q
  | NRaw x, NRaw y => jv_eqb x y
  | NTuple x, NTuple y => jv_eqb x y
  | NObj c xs, NObj d ys =>
      Nat.eqb c d && (fix go (l1 l2 : list nv) : bool :=
         match l1, l2 with [], [] => true | x :: r1, y :: r2 => nv_eqb x y && go r1 r2 | _, _ => false end) xs ys
  | NList xs, NList ys =>
      (fix go (l1 l2 : list nv) : bool :=
         match l1, l2 with [], [] => true | x :: r1, y :: r2 => nv_eqb x y && go r1 r2 | _, _ => false end) xs ys
  | _, _ => false
  end.
"""


def dict_key(prot, val, bad):
    recv = bad[2].split(':')[0]
    return 'C04|%s|validator=%s|%s->%s' % (prot, val, bad[1], recv)


def corr_dict(check, tier):
    """HierDictDocument._doc_to_object / _from_dict_value for JSON, YAML and MessagePack (wrappers on and off,
    validator soft and None) against C04.DictModel"""
    rng = check.rng
    n_univ = 3 if tier == 'quick' else 16
    per_class = 6 if tier == 'quick' else 12
    for ui in range(n_univ):
        desc = gen_ddesc(rng, rng.randint(2, 5))
        classes = build_spyne(desc)
        n = len(classes)
        params = [('ref', i) for i in range(n)] + [('arr', ('ref', rng.randrange(n)))]
        guniv = g_duniverse(desc, classes)
        for pname in ('json', 'yaml', 'msgpack'):
            for wrappers in (False, True):
                prots = {soft: make_prot(pname, 'soft' if soft else None, wrappers) for soft in (True, False)}
                app, cap, in_msg = build_app(classes, params, prots[True], prots[False].__class__())
                try:
                    from spyne import Application
                    prots[False].set_app(app)
                except Exception:
                    pass
                enc = DictEnc(rng, desc, pname, wrappers)
                cases, strs, byts = [], set(), set()
                targets = [('ref', i) for i in range(n)] + [('arr', ('prim', rng.choice(DICT_PRIMS))), ('arr', ('ref', rng.randrange(n)))] \
                    + [('prim', p) for p in DICT_PRIMS] + [('wrap', p, k) for p in DICT_PRIMS for k in ('attr', 'data')]
                for ty in targets:
                    cls = ty_class(classes, ty)
                    reps = per_class if ty[0] not in ('prim', 'wrap') else (10 if ty[0] == 'prim' else 5)
                    for j in range(reps):
                        enc.mutate_p = 0.0 if j == 0 else rng.choice([0.1, 0.3, 0.6, 1.0 if ty[0] in ('prim', 'wrap') else 0.3])
                        v = gen_value(rng, desc, ty, rng.randint(1, 3), False, poly=wrappers and j % 2 == 1)
                        doc0, muts = enc.document(ty, v)
                        try:
                            doc = wire(pname, doc0)
                        except Exception:
                            continue
                        if not is_doc(doc):
                            continue
                        collect_strings(doc, strs, byts)
                        for soft in (True, False):
                            if not soft and rng.random() < 0.5:
                                continue
                            prot = prots[soft]
                            nullable = True
                            if ty[0] in ('prim', 'wrap') or rng.random() < 0.5:
                                fn, o = 'fdv', observe(prot._from_dict_value, None, 'k', cls, doc, prot.validator)
                            else:
                                fn, o = 'd2o', observe(prot._doc_to_object, None, cls, doc, prot.validator)
                            check.count(('dict', pname, wrappers, soft, fn, repr(ty), repr(doc)))
                            if o[0] == 'ok':
                                if soft:
                                    bad = native_ok(cls, o[1]) if not (fn == 'd2o' and doc is None) else None
                                    if bad:
                                        check.fail(dict_key(type(prot).__name__, 'soft', bad),
                                                   '%s(validator=soft, ignore_wrappers=%s).%s delivered %s where %s is declared (at %s) for the document %r'
                                                   % (type(prot).__name__, not wrappers, '_from_dict_value' if fn == 'fdv' else '_doc_to_object',
                                                      bad[2], bad[1], bad[0], doc),
                                                   {'kind': 'dict-object', 'protocol': pname, 'wrappers': wrappers, 'universe': desc, 'type': ty,
                                                    'document': repr(doc), 'mutations': muts})
                                nvv = dnative(desc, classes, ty, o[1], pname)
                                if not nv_in_model(nvv):
                                    continue
                                o = ('ok', nvv)
                            cases.append(('(%s, %s, %s, %s, %s)' % (gbool(soft), gbool(fn == 'fdv'), g_dty(ty), g_jv(doc), gout(o, g_nv)),
                                          'universe %d %s wrappers=%s soft=%s %s %r %s: %r -> %r' % (ui, pname, wrappers, soft, fn, ty, muts, doc, o)))
                dec_rows, decoded = decode_table(byts)
                for t in decoded.values():
                    if t is not None:
                        strs.add(t)
                rs, rb = reader_tables(check, prots[True], pname, strs, byts)
                imports = (DICT_IMPORTS + DICT_DEFS + 'Definition UU : duniverse := %s.\nDefinition RS : list (dprim * text * out nv) := %s.\nDefinition RB : list (dprim * text * out nv) := %s.\n'
                           'Definition DEC : list (text * option text) := %s.\n'
                           'Definition CF (soft : bool) : dcfg := mkdcfg %s soft %s (dict_leaf %s) (tab_get RS) (tab_get RB) (dec_get DEC).\n'
                           % (guniv, rs, rb, dec_rows, PROTOS[pname], gbool(not wrappers), PROTOS[pname]))
                lib.correspond(check, 'dict_%s' % pname, imports, 'bool * bool * dty * jv * out nv',
                               '(fun c : bool * bool * dty * jv * out nv => let \'(soft, leafwise, t, d, o) := c in out_eqb nv_eqb '
                               '(if leafwise then fdv (CF soft) UU %d t true d else doc_to_object (CF soft) UU %d t d) o)' % (FUEL, FUEL),
                               cases,
                               show='(fun c : bool * bool * dty * jv * out nv => let \'(soft, leafwise, t, d, o) := c in '
                                    'if leafwise then fdv (CF soft) UU %d t true d else doc_to_object (CF soft) UU %d t d)' % (FUEL, FUEL))
                if ui == 0 and pname == 'json' and not wrappers and cases:
                    check.sample({'dict universe': desc, 'case': cases[min(5, len(cases) - 1)][1][:500]})


def oracle_dict(check, tier):
    """JSON / YAML / MessagePack requests through ServerBase, validator soft, rich leaf types"""
    rng = check.rng
    n_univ = 4 if tier == 'quick' else 24
    n_docs = 40 if tier == 'quick' else 120
    for ui in range(n_univ):
        desc = gen_desc(rng, rng.randint(2, 5), prims=RICH_PRIMS, allow_attr=True, wrap_kinds=('attr', 'data'), wrap_prims=RICH_PRIMS, wrap_p=0.3)
        classes = build_spyne(desc)
        n = len(classes)
        params = [rng.choice([('prim', rng.choice(RICH_PRIMS)), ('ref', rng.randrange(n)), ('arr', ('ref', rng.randrange(n))),
                              ('arr', ('prim', rng.choice(RICH_PRIMS)))]) for _ in range(rng.randint(1, 3))]
        params += [('ref', n - 1)]
        for pname in ('json', 'yaml', 'msgpack'):
            for wrappers in (False, True):
                prot = make_prot(pname, 'soft', wrappers)
                app, cap, in_msg = build_app(classes, params, prot, type(prot)())
                d2 = msg_desc(desc, classes, in_msg)
                mcid = len(d2['classes']) - 1
                pcs = list(in_msg._type_info.values())
                enc = DictEnc(rng, d2, pname, wrappers, rich=True)
                for di in range(n_docs // (2 if wrappers else 1)):
                    enc.mutate_p = 0.0 if di == 0 else rng.choice([0.05, 0.15, 0.4])
                    v = gen_value(rng, d2, ('ref', mcid), rng.randint(1, 3), False, poly=wrappers and di % 2 == 1)
                    body, muts = enc.document(('ref', mcid), v)
                    if wrappers and isinstance(body, dict) and list(body.keys()) == ['f']:
                        doc = body
                    else:
                        doc = {'f': body}
                    if pname == 'msgpack':
                        doc = dict((k.encode() if isinstance(k, str) else k, x) for k, x in doc.items())
                    try:
                        b = encode_body(pname, doc)
                    except Exception:
                        continue
                    res = drive(app, b, cap)
                    check.count(('oracle-dict', pname, wrappers, b))
                    stat('%s validator=soft: %s' % (type(prot).__name__, 'function entered' if res[0] == 'called' else 'refused'))
                    if res[0] != 'called':
                        continue
                    replay = {'kind': 'dict-request', 'protocol': pname, 'wrappers': wrappers, 'validator': 'soft', 'universe': desc,
                              'params': params, 'document': repr(doc), 'mutations': muts}
                    for i, (pc, a) in enumerate(zip(pcs, res[1])):
                        bad = native_ok(pc, a, 'p%d' % i)
                        if bad:
                            check.fail(dict_key(type(prot).__name__, 'soft', bad),
                                       '%s(validator=soft, ignore_wrappers=%s): the service function received %s where %s is declared (at %s); request %r'
                                       % (type(prot).__name__, not wrappers, bad[2], bad[1], bad[0], doc), replay)
                            break


# ====================================================================== HttpRpc (flat key/value documents, WSGI GET)
def wsgi_get(app_wsgi, path, qs):
    status = []
    env = {'REQUEST_METHOD': 'GET', 'PATH_INFO': path, 'QUERY_STRING': qs, 'SERVER_NAME': 'localhost', 'SERVER_PORT': '80',
           'SCRIPT_NAME': '', 'wsgi.url_scheme': 'http', 'wsgi.input': io.BytesIO(b''), 'wsgi.errors': io.StringIO(),
           'wsgi.version': (1, 0), 'wsgi.multithread': False, 'wsgi.multiprocess': False, 'wsgi.run_once': False,
           'CONTENT_LENGTH': '0', 'SERVER_PROTOCOL': 'HTTP/1.1'}
    out = app_wsgi(env, lambda st, hd, exc=None: status.append(st))
    body = b''.join(out)
    if hasattr(out, 'close'):
        out.close()
    return (status[0] if status else '?'), body


def oracle_http(check, tier):
    """HttpRpc: query strings built from the flat path table of the request message class
    (get_simple_type_info), valid values and hostile ones, indices, duplicates, 'empty' markers"""
    from urllib.parse import quote
    from spyne.protocol.http import HttpRpc
    from spyne.protocol.json import JsonDocument
    from spyne.server.wsgi import WsgiApplication
    rng = check.rng
    n_univ = 4 if tier == 'quick' else 24
    n_docs = 50 if tier == 'quick' else 160
    prims = tuple(p for p in RICH_PRIMS if p != 'bytes')
    for ui in range(n_univ):
        desc = gen_desc(rng, rng.randint(2, 5), prims=prims, allow_attr=False)
        classes = build_spyne(desc)
        n = len(classes)
        params = [rng.choice([('prim', rng.choice(prims)), ('ref', rng.randrange(n)), ('arr', ('ref', rng.randrange(n))),
                              ('arr', ('prim', rng.choice(prims)))]) for _ in range(rng.randint(1, 3))]
        params += [('ref', n - 1)]
        for val in ('soft', None):
            prot = HttpRpc(validator=val)
            app, cap, in_msg = build_app(classes, params, prot, JsonDocument())
            wsgi = WsgiApplication(app)
            pcs = list(in_msg._type_info.values())
            sti = in_msg.get_simple_type_info_with_prot(in_msg, prot, hier_delim='.')
            keys = sorted(sti.keys())
            for di in range(n_docs // (1 if val == 'soft' else 3)):
                mp = 0.0 if di == 0 else rng.choice([0.05, 0.2, 0.5])
                pairs, muts = [], []
                for k in keys:
                    if rng.random() < 0.5:
                        continue
                    m = sti[k]
                    t = class_to_ty(classes, m.type)
                    reps = rng.randint(1, 3) if m.is_array else 1
                    for r in range(reps):
                        key = k
                        if t is not None and t[0] == 'prim':
                            text = leaf_text(gen_leaf(rng, t[1]))
                        else:
                            text = 'empty'
                        if rng.random() < mp:
                            text = rng.choice(HOSTILE_TEXT + ['empty'])
                            muts.append('%s=%s' % (k, text))
                        if m.is_array or rng.random() < mp:
                            segs = key.split('.')
                            j = rng.randrange(len(segs))
                            segs[j] = '%s[%d]' % (segs[j], rng.choice([0, 0, 1, 2, 10, r]))
                            key = '.'.join(segs)
                        if rng.random() < mp:
                            key = rng.choice([key.rsplit('.', 1)[0], key + '.zz', key + '[0]', key.upper()])
                            muts.append('key %s' % key)
                        pairs.append((key, text))
                        if rng.random() < mp:
                            pairs.append((key, text))
                            muts.append('dup %s' % key)
                rng.shuffle(pairs)
                qs = '&'.join('%s=%s' % (quote(k, safe='[].'), quote(v, safe='')) for k, v in pairs)
                del cap.calls[:]
                try:
                    status, body = wsgi_get(wsgi, '/f', qs)
                except Exception as e:
                    continue
                check.count(('oracle-http', val, qs))
                stat('HttpRpc validator=%s: %s' % (val, 'function entered' if cap.calls else 'refused'))
                if not cap.calls:
                    continue
                args = cap.calls[-1]
                for i, (pc, a) in enumerate(zip(pcs, args)):
                    bad = native_ok(pc, a, 'p%d' % i, width=val is not None)
                    if bad:
                        check.fail(dict_key('HttpRpc', val, bad),
                                   'HttpRpc(validator=%r): the service function received %s where %s is declared (at %s); GET /f?%s'
                                   % (val, bad[2], bad[1], bad[0], qs),
                                   {'kind': 'http-request', 'validator': val, 'universe': desc, 'params': params, 'query': qs, 'mutations': muts})
                        break


# ====================================================================== sequences on one long-lived application
def wsgi_post(app_wsgi, body, ctype):
    status = []
    env = {'REQUEST_METHOD': 'POST', 'PATH_INFO': '/', 'QUERY_STRING': '', 'SERVER_NAME': 'localhost', 'SERVER_PORT': '80',
           'SCRIPT_NAME': '', 'wsgi.url_scheme': 'http', 'wsgi.input': io.BytesIO(body), 'wsgi.errors': io.StringIO(),
           'wsgi.version': (1, 0), 'wsgi.multithread': False, 'wsgi.multiprocess': False, 'wsgi.run_once': False,
           'CONTENT_LENGTH': str(len(body)), 'CONTENT_TYPE': ctype, 'SERVER_PROTOCOL': 'HTTP/1.1'}
    out = app_wsgi(env, lambda st, hd, exc=None: status.append(st))
    b = b''.join(out)
    if hasattr(out, 'close'):
        out.close()
    return (status[0] if status else '?'), b


SEQ_DESC = {'classes': [
    {'ns': TNS, 'name': 'Animal', 'parent': None, 'fields': [
        {'name': 'name', 'ty': ('prim', 'text'), 'min': 0, 'max': 1, 'nillable': True, 'kind': 'elem'},
        {'name': 'legs', 'ty': ('prim', 'int'), 'min': 0, 'max': 1, 'nillable': True, 'kind': 'elem'}]},
    {'ns': TNS, 'name': 'Dog', 'parent': 0, 'fields': [
        {'name': 'tricks', 'ty': ('arr', ('prim', 'text')), 'min': 0, 'max': 1, 'nillable': True, 'kind': 'elem'}]},
    {'ns': TNS, 'name': 'Puppy', 'parent': 1, 'fields': [
        {'name': 'age', 'ty': ('prim', 'u8'), 'min': 0, 'max': 1, 'nillable': True, 'kind': 'elem'}]},
    {'ns': TNS, 'name': 'Vehicle', 'parent': None, 'fields': [
        {'name': 'wheels', 'ty': ('prim', 'int'), 'min': 0, 'max': 1, 'nillable': True, 'kind': 'elem'},
        {'name': 'plate', 'ty': ('prim', 'text'), 'min': 0, 'max': 1, 'nillable': True, 'kind': 'elem'}]},
    {'ns': TNS, 'name': 'Car', 'parent': 3, 'fields': [
        {'name': 'doors', 'ty': ('prim', 'i32'), 'min': 0, 'max': 1, 'nillable': True, 'kind': 'elem'}]},
    {'ns': 'urn:u', 'name': 'Lone', 'parent': None, 'fields': [
        {'name': 's', 'ty': ('prim', 'text'), 'min': 0, 'max': 1, 'nillable': True, 'kind': 'elem'}]},
    {'ns': TNS, 'name': 'Holder', 'parent': None, 'fields': [
        {'name': 'a', 'ty': ('ref', 0), 'min': 0, 'max': 1, 'nillable': True, 'kind': 'elem'},
        {'name': 'v', 'ty': ('ref', 3), 'min': 0, 'max': 1, 'nillable': True, 'kind': 'elem'},
        {'name': 'l', 'ty': ('ref', 5), 'min': 0, 'max': 1, 'nillable': True, 'kind': 'elem'},
        {'name': 'as_', 'ty': ('arr', ('ref', 0)), 'min': 0, 'max': 1, 'nillable': True, 'kind': 'elem'},
        {'name': 'vs', 'ty': ('arr', ('ref', 3)), 'min': 0, 'max': 1, 'nillable': True, 'kind': 'elem'},
        {'name': 'ma', 'ty': ('ref', 0), 'min': 0, 'max': None, 'nillable': True, 'kind': 'elem'},
        {'name': 'mv', 'ty': ('ref', 3), 'min': 0, 'max': None, 'nillable': True, 'kind': 'elem'}]}]}
SEQ_PARAMS = [('ref', 0), ('ref', 3), ('ref', 6), ('arr', ('ref', 3)), ('arr', ('ref', 0)), ('ref', 5)]


def wrapper_positions(doc, names, path=()):
    """paths of the wrapper dicts of a document: single-key dicts whose key is a class name"""
    out = []
    if isinstance(doc, dict):
        if len(doc) == 1:
            (k, v), = doc.items()
            if k in names:
                out.append(path)
        for k, v in doc.items():
            out.extend(wrapper_positions(v, names, path + (k,)))
    elif isinstance(doc, list):
        for i, v in enumerate(doc):
            out.extend(wrapper_positions(v, names, path + (i,)))
    return out


def rename_wrapper(doc, path, key):
    d = copy.deepcopy(doc)
    node = d
    for p in path:
        node = node[p]
    (k, v), = list(node.items())
    del node[k]
    node[key] = v
    return d


def oracle_sequences(check, tier):
    """SEQUENCES of requests against one long-lived application / protocol instance (through ServerBase and through
    WsgiApplication): valid polymorphic requests first, then every wrapper key / xsi:type seen so far at every
    position where another type is declared, then valid ones again, then the hostile ones in another order.  The
    theorems are about a stateless deserialiser; this is what covers state kept between requests (caches keyed
    by class name, xsi:type, parser state)."""
    from lxml import etree
    from spyne.protocol.xml import XmlDocument
    from spyne.protocol.soap import Soap11, Soap12
    from spyne.server.wsgi import WsgiApplication
    rng = check.rng
    desc = SEQ_DESC
    classes = build_spyne(desc)
    names = [c['name'] for c in desc['classes']]

    def run_sequence(label, val, pcs, send, warm, hostile, mk_replay):
        sent_ok = []
        order = list(hostile)
        for rnd in range(2):
            for w in warm:
                res = send(w)
                if res[0] == 'called':
                    sent_ok.append(w)
                judge_call(check, 'sequence', label, val, pcs, res, ['valid polymorphic request'], mk_replay(sent_ok[:-1], w))
            for h, mut in order:
                res = send(h)
                check.count(('sequence', label, val, rnd, repr(h)[:400]))
                judge_call(check, 'sequence', label, val, pcs, res, [mut], mk_replay(sent_ok, h))
            rng.shuffle(order)

    # ---- dict documents, wrappers on
    for pname in ('json', 'yaml', 'msgpack'):
        for driver in ('ServerBase', 'wsgi'):
            if driver == 'wsgi' and pname != 'json':
                continue
            prot = make_prot(pname, 'soft', True)
            app, cap, in_msg = build_app(classes, SEQ_PARAMS, prot, type(prot)())
            d2 = msg_desc(desc, classes, in_msg)
            mcid = len(d2['classes']) - 1
            pcs = list(in_msg._type_info.values())
            enc = DictEnc(rng, d2, pname, True)
            wsgi = WsgiApplication(app) if driver == 'wsgi' else None

            def send(doc, app=app, cap=cap, wsgi=wsgi, pname=pname):
                body = encode_body(pname, {b'f': doc['f']} if pname == 'msgpack' else doc)
                if wsgi is None:
                    return drive(app, body, cap)
                del cap.calls[:]
                del cap.headers[:]
                try:
                    wsgi_post(wsgi, body, 'application/json')
                except Exception as e:
                    return ('crash', type(e).__name__)
                return ('called', cap.calls[-1]) if cap.calls else ('fault', 'not called')

            warm, hostile = [], []
            for j in range(3 if tier == 'quick' else 8):
                v = gen_value(rng, d2, ('ref', mcid), 3, False, poly=True)
                body, _ = enc.document(('ref', mcid), v)
                doc = body if isinstance(body, dict) and list(body.keys()) == ['f'] else {'f': body}
                warm.append(doc)
                for path in wrapper_positions(doc['f'], names + ['f'], ('f',)):
                    for key in names + ['f', 'Nope']:
                        hostile.append((rename_wrapper(doc, path, key), 'wrapper key %s at %s' % (key, '/'.join(map(str, path)))))
            if tier == 'quick' and len(hostile) > 260:
                hostile = rng.sample(hostile, 260)
            label = type(prot).__name__ + '@sequence' + ('' if driver == 'ServerBase' else '/wsgi')

            def mk_replay(before, doc, pname=pname, driver=driver):
                return {'kind': 'sequence-dict', 'protocol': pname, 'driver': driver, 'validator': 'soft', 'universe': desc,
                        'params': SEQ_PARAMS, 'before': [repr(x) for x in before], 'document': repr(doc)}
            run_sequence(label, 'soft', pcs, send, warm, hostile, mk_replay)

    # ---- the XML family: xsi:type
    for pname, pcls, envns in (('XmlDocument', XmlDocument, None), ('Soap11', Soap11, SOAP_ENV), ('Soap12', Soap12, SOAP12_ENV)):
        for val in (None, 'soft'):
            for driver in ('ServerBase', 'wsgi'):
                if driver == 'wsgi' and (pname != 'XmlDocument' or val is None):
                    continue
                app, cap, in_msg = build_app(classes, SEQ_PARAMS, pcls(validator=val), pcls())
                d2 = msg_desc(desc, classes, in_msg)
                mcid = len(d2['classes']) - 1
                pcs = list(in_msg._type_info.values())
                reg = registry_of(app, classes + [in_msg])
                keys = sorted(k for k, t, _ in reg if k.startswith('{'))
                enc = XmlEnc(rng, d2, keys, mutate_p=0.0)
                wsgi = WsgiApplication(app) if driver == 'wsgi' else None

                def wrap(d, envns=envns):
                    if envns is None:
                        return etree.tostring(d)
                    env = etree.Element('{%s}Envelope' % envns, nsmap={'soap': envns})
                    etree.SubElement(env, '{%s}Body' % envns).append(copy.deepcopy(d))
                    return etree.tostring(env)

                def send(body, app=app, cap=cap, wsgi=wsgi):
                    if wsgi is None:
                        return drive(app, body, cap)
                    del cap.calls[:]
                    del cap.headers[:]
                    try:
                        wsgi_post(wsgi, body, 'text/xml; charset=utf-8')
                    except Exception as e:
                        return ('crash', type(e).__name__)
                    return ('called', cap.calls[-1]) if cap.calls else ('fault', 'not called')

                values = []
                for k in keys:
                    ns, name = xsi_key_to_qname(k)
                    values.append(enc.lexical(ns, name) if ns in enc.prefix else name)
                warm, hostile = [], []
                for j in range(2 if tier == 'quick' else 6):
                    v = gen_value(rng, d2, ('ref', mcid), 3, False, poly=True)
                    doc, _ = enc.document(('ref', mcid), v, TNS, 'f')
                    warm.append(wrap(doc))
                    n_el = len([x for x in doc.iter() if isinstance(x.tag, str)])
                    for idx in range(n_el):
                        for vt in values:
                            d = copy.deepcopy(doc)
                            e = [x for x in d.iter() if isinstance(x.tag, str)][idx]
                            if e.get('{%s}type' % XSI) == vt:
                                continue
                            e.set('{%s}type' % XSI, vt)
                            hostile.append((wrap(d), '%s xsi:type=%s' % (etree.QName(e).localname, vt)))
                cap_n = 220 if tier == 'quick' else 2000
                if len(hostile) > cap_n:
                    hostile = rng.sample(hostile, cap_n)
                label = pname + '@sequence' + ('' if driver == 'ServerBase' else '/wsgi')

                def mk_replay(before, body, pname=pname, val=val, driver=driver):
                    return {'kind': 'sequence-xml', 'protocol': pname, 'driver': driver, 'validator': val, 'universe': desc,
                            'params': SEQ_PARAMS, 'before': [x.decode() for x in before], 'body': body.decode()}
                run_sequence(label, val, pcs, send, warm, hostile, mk_replay)


# ====================================================================== witnesses (always run, whatever the seed)
def oracle_witnesses(check, tier):
    """the inputs of the refutation theorems and of every recorded finding / repaired defect, on a fixed interface"""
    from lxml import etree
    from spyne.protocol.xml import XmlDocument
    from spyne.protocol.soap import Soap11, Soap12
    desc = {'classes': [
        {'ns': TNS, 'name': 'Base', 'parent': None, 'fields': [
            {'name': 'i', 'ty': ('prim', 'int'), 'min': 0, 'max': 1, 'nillable': True, 'kind': 'elem'},
            {'name': 'w', 'ty': ('prim', 'i32'), 'min': 0, 'max': 1, 'nillable': True, 'kind': 'elem'},
            {'name': 'u', 'ty': ('prim', 'u8'), 'min': 0, 'max': 1, 'nillable': True, 'kind': 'elem'},
            {'name': 'l', 'ty': ('prim', 'i64'), 'min': 0, 'max': 1, 'nillable': True, 'kind': 'elem'},
            {'name': 'b', 'ty': ('prim', 'bool'), 'min': 0, 'max': 1, 'nillable': True, 'kind': 'elem'}]},
        {'ns': TNS, 'name': 'Holder', 'parent': None, 'fields': [
            {'name': 'o', 'ty': ('ref', 0), 'min': 0, 'max': 1, 'nillable': True, 'kind': 'elem'},
            {'name': 'os', 'ty': ('arr', ('ref', 0)), 'min': 0, 'max': 1, 'nillable': True, 'kind': 'elem'},
            {'name': 'ba', 'ty': ('prim', 'bytes'), 'min': 0, 'max': 1, 'nillable': True, 'kind': 'elem'}]}]}
    classes = build_spyne(desc)
    params = [('prim', 'int'), ('prim', 'bool'), ('ref', 0), ('ref', 1), ('prim', 'bytes'), ('prim', 'date'), ('arr', ('prim', 'int'))]
    ns = 'xmlns="urn:t" xmlns:t="urn:t" xmlns:xs="%s" xmlns:xsi="%s"' % (XSD, XSI)
    xml_docs = [
        '<f %s><p0 xsi:type="xs:string">abc</p0></f>' % ns,
        '<f %s><p5 xsi:type="xs:string">abc</p5></f>' % ns,
        '<f %s><p0 xsi:type="t:integerArray"><integer>1</integer></p0></f>' % ns,
        '<f %s><p0 xsi:type="t:fResponse"><fResult>x</fResult></p0></f>' % ns,
        '<f %s><p2 xsi:type="t:Holder"><ba>YWJj</ba></p2></f>' % ns,
        '<f %s><p3><os xsi:type="t:integerArray"><integer>1</integer></os></p3></f>' % ns,
        '<f %s xsi:type="t:Holder"><o><i>1</i></o></f>' % ns,
    ]
    for pname, pcls, envns in (('XmlDocument', XmlDocument, None), ('Soap11', Soap11, SOAP_ENV), ('Soap12', Soap12, SOAP12_ENV)):
        for val in (None, 'soft', 'lxml'):
            app, cap, in_msg = build_app(classes, params, pcls(validator=val), pcls(), header=classes[0] if envns else None)
            pcs = list(in_msg._type_info.values())
            for d in xml_docs:
                body = d if envns is None else '<soap:Envelope xmlns:soap="%s"><soap:Body>%s</soap:Body></soap:Envelope>' % (envns, d)
                res = drive(app, body.encode(), cap)
                check.count(('witness-xml', pname, val, d))
                judge_call(check, 'witness', pname, val, pcs, res, ['witness'],
                           {'kind': 'xml-request', 'protocol': pname, 'validator': val, 'universe': desc, 'params': params,
                            'body': body, 'mutations': ['witness'], 'header': 0 if envns else None})
            if envns:
                # SOAP headers are not covered by validator=lxml
                hdr = '<t:Base %s><w>2147483648</w><u>300</u><l>-9223372036854775809</l></t:Base>' % ns
                for keep in ('w', 'u', 'l'):
                    h = etree.fromstring(hdr)
                    for c in list(h):
                        if etree.QName(c).localname != keep:
                            h.remove(c)
                    body = '<soap:Envelope xmlns:soap="%s"><soap:Header>%s</soap:Header><soap:Body><f %s><p0>1</p0></f></soap:Body></soap:Envelope>' % (
                        envns, etree.tostring(h).decode(), ns)
                    res = drive(app, body.encode(), cap)
                    check.count(('witness-header', pname, val, keep))
                    if res[0] == 'called' and cap.headers:
                        bad = native_ok(classes[0], cap.headers[-1], 'header', width=val is not None)
                        if bad:
                            check.fail(xml_key('header', pname + '-header', val, [], bad),
                                       '%s(validator=%r): ctx.in_header is %s where %s is declared (at %s)' % (pname, val, bad[2], bad[1], bad[0]),
                                       {'kind': 'xml-request', 'protocol': pname, 'validator': val, 'universe': desc, 'params': params,
                                        'body': body, 'mutations': ['witness'], 'header': 0})
    dict_docs = [
        {'p0': 2.0}, {'p1': 1}, {'p1': 0.0}, {'p2': None}, {'p3': {'o': None}}, {'p3': {'os': [None, {'i': 1}]}},
        {'p2': {'i': 2.0, 'w': 3.0, 'u': 255.0, 'l': -1.0, 'b': 1}}, {'p0': 2.5}, {'p0': float('inf')},
        {'p4': True}, {'p4': 3}, {'p4': 2.5}, {'p4': 'abc'}, {'p4': [1, 2]}, {'p4': {}}, {'p3': {'ba': 7}},
        {'p0': -3.0}, {'p0': 1e20}, {'p0': 255.0}, {'p2': {'i': 7.0}}, {'p2': {'w': -2147483648.0}}, {'p2': {'u': 2.0}}, {'p2': {'l': 4.0}},
        {'p3': {'o': {'i': 5.0, 'w': 6.0}}}, {'p3': {'os': [{'i': 5.0}, {'u': 9.0}]}}, {'p6': [2.0, 3.0, 1e3]},
    ]
    for pname in ('json', 'yaml', 'msgpack'):
        for wrappers in (False, True):
            prot = make_prot(pname, 'soft', wrappers)
            app, cap, in_msg = build_app(classes, params, prot, type(prot)())
            pcs = list(in_msg._type_info.values())
            for d in dict_docs:
                if wrappers:
                    d = dict((k, ({'Base': v} if k == 'p2' and isinstance(v, dict) else
                                  {'Holder': dict((k2, ({'Base': v2} if k2 == 'o' and isinstance(v2, dict) else v2)) for k2, v2 in v.items())}
                                  if k == 'p3' and isinstance(v, dict) else v)) for k, v in d.items())
                doc = {'f': d}
                if pname == 'msgpack':
                    doc = {b'f': d}
                try:
                    b = encode_body(pname, doc)
                except Exception:
                    continue
                res = drive(app, b, cap)
                check.count(('witness-dict', pname, wrappers, repr(d)))
                stat('%s validator=soft: %s' % (type(prot).__name__, 'function entered' if res[0] == 'called' else 'refused'))
                if res[0] != 'called':
                    continue
                for i, (pc, a) in enumerate(zip(pcs, res[1])):
                    bad = native_ok(pc, a, 'p%d' % i)
                    if bad:
                        check.fail(dict_key(type(prot).__name__, 'soft', bad),
                                   '%s(validator=soft, ignore_wrappers=%s): the service function received %s where %s is declared (at %s); request %r'
                                   % (type(prot).__name__, not wrappers, bad[2], bad[1], bad[0], doc),
                                   {'kind': 'dict-request', 'protocol': pname, 'wrappers': wrappers, 'validator': 'soft', 'universe': desc,
                                    'params': params, 'document': repr(doc), 'mutations': ['witness']})
                        break


def oracle_wrapped_leaves(check, tier):
    """XmlAttribute(T) / XmlData(T) members for every leaf kind T, every wrong kind of document at exactly those members,
    as a member of an argument, of a nested object and of an array item; JSON, YAML, MessagePack, validator soft"""
    fields = []
    for p in RICH_PRIMS:
        for kind in ('attr', 'data'):
            fields.append({'name': '%s_%s' % (kind[0], p), 'ty': ('prim', p), 'min': 0, 'max': 1, 'nillable': True, 'kind': kind})
    desc = {'classes': [
        {'ns': TNS, 'name': 'W', 'parent': None, 'fields': fields},
        {'ns': TNS, 'name': 'H', 'parent': None, 'fields': [
            {'name': 'w', 'ty': ('ref', 0), 'min': 0, 'max': 1, 'nillable': True, 'kind': 'elem'},
            {'name': 'ws', 'ty': ('arr', ('ref', 0)), 'min': 0, 'max': 1, 'nillable': True, 'kind': 'elem'}]}]}
    classes = build_spyne(desc)
    params = [('ref', 0), ('ref', 1)]
    wrong = [[], [1], ['a', 'b'], {}, {'a': 1}, 3, 2.5, True, None, 'abc', '']
    for pname in ('json', 'yaml', 'msgpack'):
        prot = make_prot(pname, 'soft', False)
        app, cap, in_msg = build_app(classes, params, prot, type(prot)())
        pcs = list(in_msg._type_info.values())
        for f in fields:
            for val in wrong + ([b'abc'] if pname == 'msgpack' else []):
                for pos, d in (('argument', {'p0': {f['name']: val}}), ('nested', {'p1': {'w': {f['name']: val}}}),
                               ('array item', {'p1': {'ws': [{f['name']: val}]}})):
                    doc = {b'f': d} if pname == 'msgpack' else {'f': d}
                    res = drive(app, encode_body(pname, doc), cap)
                    check.count(('wrapped-leaf', pname, f['name'], repr(val), pos))
                    stat('%s validator=soft: %s' % (type(prot).__name__, 'function entered' if res[0] == 'called' else 'refused'))
                    if res[0] != 'called':
                        continue
                    for i, (pc, a) in enumerate(zip(pcs, res[1])):
                        bad = native_ok(pc, a, 'p%d' % i)
                        if bad:
                            check.fail(dict_key(type(prot).__name__, 'soft', bad),
                                       '%s(validator=soft): the service function received %s where %s(%s) is declared (at %s, %s); request %r'
                                       % (type(prot).__name__, bad[2], 'XmlAttribute' if f['kind'] == 'attr' else 'XmlData', bad[1], bad[0], pos, doc),
                                       {'kind': 'dict-request', 'protocol': pname, 'wrappers': False, 'validator': 'soft', 'universe': desc,
                                        'params': params, 'document': repr(doc), 'mutations': ['%s member <- %s' % (f['kind'], type(val).__name__)]})
                            break


# ====================================================================== run
def run(check):
    tier = check.tier
    lib.ensure_repo_on_path()
    logging.disable(logging.CRITICAL)
    check.rule = (
        'XML correspondence: generated type universes (2-6 classes, single inheritance, XmlAttribute members, wrapped and nested '
        'arrays, max_occurs>1 members, member names shared between classes) plus the request message class of a generated service; '
        'documents = an independent schema-directed encoding of a generated value, mutated while encoding (xsi:type set to every class '
        'key of interface.classes / unknown names / unknown prefixes / no prefix, xsi:nil in all spellings, scalar/object/list shape '
        'swaps, attributes named like members on the element and on its children, hostile ASCII leaf text, dropped / duplicated / '
        'shuffled / unknown children), read with validator None and soft, parse_xsi_type on and off.  Dict correspondence: universes '
        'over Integer/Integer32/UnsignedInteger8/Integer64/Double/Boolean/Unicode/Date/ByteArray, documents mutated by kind (null, '
        'booleans, 0/1/other integers, integral / fractional / huge / NaN / infinite floats, numeric and other strings, bytes, lists, '
        'maps, nested lists, null inside arrays, renamed / bytes / upper-cased keys, positional objects, wrapper keys naming every '
        'class), passed once over the real wire format, for JSON, YAML and MessagePack, ignore_wrappers on and off, validator soft '
        'and None; members declared XmlAttribute(T) / XmlData(T) around every modelled leaf kind, with every wrong kind of document '
        'at exactly those members (model: DWrap; the unwrap-then-validate statement order of _from_dict_value is read from the source).  '
        'A case is distinct by (protocol, configuration, entry point, declared type, document).  Oracle: generated services '
        'with the rich leaf set (also Decimal, DateTime, Time, Duration, Uuid, AnyUri) through ServerBase / WSGI for XmlDocument, '
        'Soap11, Soap12 (with a SOAP header class), JsonDocument, YamlDocument, MessagePackDocument and HttpRpc (GET), and a fixed '
        'interface on which every element position is retagged with every registered class key (including Array classes whose item '
        'types derive from one another only as Spyne classes: decimal/double/integer, string/uuid, dateTime/date), and SEQUENCES '
        'of requests on one long-lived application (two unrelated class trees, wrappers on; JSON/YAML/MessagePack and '
        'XmlDocument/Soap11/Soap12; ServerBase and WSGI); a battery of XmlAttribute / XmlData members around all fifteen leaf kinds x '
        'eleven wrong document kinds x argument / nested / array-item positions; an Iterable(U) class in the retag interface.')
    check.trusted = list(lib.COMMON_TRUSTED) + [
        'the oracle predicate native_ok (harness/c04.py): isinstance / value-space membership against the declared Spyne classes; '
        'an int where Double or Decimal is declared is accepted (numeric tower), a bool is an int; integer width is demanded only '
        'when a validator is set',
        'the translators xsitype.py (from_element xsi:type block and _get_xsi_target -> decision table over five tests) and '
        'dictleaf.py (_ret_bool, _ret_number, integer_from_bytes, the ComplexModelBase branch of _from_dict_value, handler '
        'registrations): semantic recognisers (symbolic execution of the source to decision tables, compared with reference '
        'variants / enumerated into the Gallina table; harness/translate/symexec.py), fail closed',
        'lxml (parsing, element.nsmap, validator=lxml), json, PyYAML, msgpack: the documents the models start from are what these '
        'libraries hand to Spyne (printed from the parsed objects), not bytes',
    ]
    check.assumptions = [
        'XML leaf readers return values of their own kind (hypothesis of C04_xml_typed / C04_xml_args_typed; discharged for '
        'Integer/Unicode/Boolean by C04_xml_typed_spyne over the C08 reader models)',
        'dict-document text readers (from_unicode on a str; ByteArray from bytes) return values of their own kind (hypothesis rd_kind '
        'of the dict theorems; observed for every string of every generated document: the reader tables of the correspondence); '
        'bytes.decode(utf8) of byte strings is an observed table too (any function in the theorems)',
        'universes are well formed: acyclic single inheritance (parents precede children), distinct flattened member names, '
        'single-valued XmlAttribute members',
        'modelled leaf set: XML Integer/Unicode/Boolean; dict Integer family with hardware bounds, Double, Boolean, Unicode, Date, '
        'ByteArray.  Decimal, DateTime, Time, Duration, Uuid, AnyUri, Enum, Any*, File, XmlData, Iterable are decided by the oracle only',
        'HttpRpc (SimpleDictDocument) and the SOAP envelope / header selection are not modelled in Coq: oracle only (headers go '
        'through the modelled from_element)',
        'MessagePack map keys are ASCII; YAML documents contain no native timestamps / sets / binary tags',
        'history independence: the theorems are about a stateless deserialiser (a function of configuration, universe, registry and '
        'document); that what a request delivers does not depend on the requests served before by the same application / protocol '
        'instance is NOT proved: it is covered by the sequence oracle (valid polymorphic requests, then every wrapper key / xsi:type '
        'seen so far at every position where another type is declared, twice, on one long-lived application, through ServerBase and '
        'WsgiApplication)',
        'validator=lxml: libxml2 schema validation runs first, then the same deserialiser as validator=None (the theorem covers all '
        'documents, hence those that pass the schema)',
    ]
    check.extra['level_note'] = (
        'proved: typing of XmlDocument.from_element (every document, registry, validator None/soft, parse_xsi_type on/off) and of '
        'HierDictDocument._from_dict_value/_doc_to_object (JSON, YAML, MessagePack, wrappers on/off, validator soft) over Gallina '
        'models, instantiated with decision tables regenerated from the source on every run; refusal of unrelated xsi:type values; '
        'refutations of the pre-repair code and of the MessagePack ByteArray case.  tied by correspondence on every run.  observed '
        'only: HttpRpc, SOAP envelopes and headers, validator=lxml, the rich leaf types.')
    check.regen(['xsitype', 'dictleaf', 'numtypes'])
    check.check_sources()
    check.prove('Props.C04', THEOREMS)
    oracle_witnesses(check, tier)
    oracle_wrapped_leaves(check, tier)
    corr_xml(check, tier)
    lib.flush_correspondences(check)
    oracle_xml(check, tier)
    oracle_xml_retag_all(check, tier)
    corr_dict(check, tier)
    lib.flush_correspondences(check)
    oracle_dict(check, tier)
    oracle_http(check, tier)
    oracle_sequences(check, tier)
    check.extra['oracle_requests'] = dict(sorted(STATS.items()))
    return check.finish()


def _eval_doc(text):
    return eval(text, {'__builtins__': {}}, {'nan': float('nan'), 'inf': float('inf')})


def _retuple(x):
    """JSON turned the tuples of the neutral forms into lists"""
    if isinstance(x, list):
        return tuple(_retuple(y) for y in x) if x and isinstance(x[0], str) and x[0] in ('prim', 'ref', 'arr') else [_retuple(y) for y in x]
    if isinstance(x, dict):
        return dict((k, _retuple(v)) for k, v in x.items())
    return x


def replay(check, path):
    """re-runs the recorded input against the implementation; exit status 1 iff the violation reproduces"""
    lib.ensure_repo_on_path()
    logging.disable(logging.CRITICAL)
    rec = json.load(open(path))
    r = rec.get('replay', {})
    print('key :', rec.get('key'))
    print('what:', rec.get('what'))
    kind = r.get('kind')
    if kind is None:
        print(json.dumps(r, indent=1)[:4000])
        return 1 if r.get('broken') else 0
    if kind == 'reader':
        prot = make_prot(r['protocol'], 'soft', False)
        print('reader:', observe(prot.from_unicode, prim_class(r['prim']), r['text']))
        return 1
    desc = _retuple(r['universe'])
    classes = build_spyne(desc)
    bad = None
    if kind in ('xml-request', 'dict-request', 'http-request'):
        params = _retuple(r['params'])
        val = r.get('validator')
        if kind == 'xml-request':
            from spyne.protocol.xml import XmlDocument
            from spyne.protocol.soap import Soap11, Soap12
            pcls = {'XmlDocument': XmlDocument, 'Soap11': Soap11, 'Soap12': Soap12}[r['protocol']]
            app, cap, in_msg = build_app(classes, params, pcls(validator=val), pcls(),
                                         header=classes[r['header']] if r.get('header') is not None else None)
            res = drive(app, r['body'].encode(), cap)
            if res[0] == 'called' and r.get('header') is not None and cap.headers:
                print('header:', recv_name(cap.headers[-1]) + ':' + repr(cap.headers[-1])[:120])
                bad = native_ok(classes[r['header']], cap.headers[-1], 'header', width=val is not None)
        elif kind == 'dict-request':
            prot = make_prot(r['protocol'], val, r['wrappers'])
            app, cap, in_msg = build_app(classes, params, prot, type(prot)())
            res = drive(app, encode_body(r['protocol'], _eval_doc(r['document'])), cap)
        else:
            from spyne.protocol.http import HttpRpc
            from spyne.protocol.json import JsonDocument
            from spyne.server.wsgi import WsgiApplication
            app, cap, in_msg = build_app(classes, params, HttpRpc(validator=val), JsonDocument())
            try:
                st = wsgi_get(WsgiApplication(app), '/f', r['query'])
            except Exception as e:
                st = ('exception', type(e).__name__)
            res = ('called', cap.calls[-1]) if cap.calls else ('not called', st)
        print('result:', res[0], [recv_name(a) + ':' + repr(a)[:80] for a in res[1]] if res[0] == 'called' else res[1:])
        if res[0] == 'called':
            for i, (pc, a) in enumerate(zip(in_msg._type_info.values(), res[1])):
                bad = bad or native_ok(pc, a, 'p%d' % i, width=val is not None)
    elif kind in ('sequence-dict', 'sequence-xml'):
        # the whole history on ONE application: the valid requests that preceded, then the recorded one
        from spyne.server.wsgi import WsgiApplication
        params = _retuple(r['params'])
        val = r.get('validator')
        if kind == 'sequence-dict':
            prot = make_prot(r['protocol'], val, True)
            app, cap, in_msg = build_app(classes, params, prot, type(prot)())
            def body_of(x):
                d = _eval_doc(x)
                return encode_body(r['protocol'], {b'f': d['f']} if r['protocol'] == 'msgpack' else d)
            bodies = [body_of(x) for x in r['before']] + [body_of(r['document'])]
            ctype = 'application/json'
        else:
            from spyne.protocol.xml import XmlDocument
            from spyne.protocol.soap import Soap11, Soap12
            pcls = {'XmlDocument': XmlDocument, 'Soap11': Soap11, 'Soap12': Soap12}[r['protocol']]
            app, cap, in_msg = build_app(classes, params, pcls(validator=val), pcls())
            bodies = [x.encode() for x in r['before']] + [r['body'].encode()]
            ctype = 'text/xml; charset=utf-8'
        wsgi = WsgiApplication(app) if r.get('driver') == 'wsgi' else None
        res = None
        for i, b in enumerate(bodies):
            if wsgi is None:
                res = drive(app, b, cap)
            else:
                del cap.calls[:]
                try:
                    wsgi_post(wsgi, b, ctype)
                except Exception as e:
                    pass
                res = ('called', cap.calls[-1]) if cap.calls else ('not called',)
            print('request %d/%d: %s' % (i + 1, len(bodies), res[0]))
        print('last result:', res[0], [recv_name(a) + ':' + repr(a)[:80] for a in res[1]] if res[0] == 'called' else res[1:])
        if res[0] == 'called':
            for i, (pc, a) in enumerate(zip(in_msg._type_info.values(), res[1])):
                bad = bad or native_ok(pc, a, 'p%d' % i, width=val is not None)
    elif kind == 'xml-object':
        from lxml import etree
        from spyne.protocol.xml import XmlDocument
        params = _retuple(r['params'])
        prot = XmlDocument(validator='soft' if r['soft'] else None, parse_xsi_type=r['parse'])
        app, cap, in_msg = build_app(classes, params, prot)
        cls = (classes + [in_msg])[r['cid']]
        o = observe(prot.from_element, types.SimpleNamespace(app=app), cls, etree.fromstring(r['document'].encode()))
        print('result:', o[0], (recv_name(o[1]) + ':' + repr(o[1])[:200]) if o[0] == 'ok' else o[1:])
        if o[0] == 'ok':
            bad = native_ok(cls, o[1], width=r['soft'])
    elif kind == 'dict-object':
        ty = _retuple(r['type'])
        prot = make_prot(r['protocol'], 'soft', r['wrappers'])
        app, cap, in_msg = build_app(classes, [('ref', i) for i in range(len(classes))], prot, type(prot)())
        cls = ty_class(classes, ty)
        o = observe(prot._from_dict_value, None, 'k', cls, _eval_doc(r['document']), prot.validator)
        print('result:', o[0], (recv_name(o[1]) + ':' + repr(o[1])[:200]) if o[0] == 'ok' else o[1:])
        if o[0] == 'ok':
            bad = native_ok(cls, o[1])
    if bad:
        print('VIOLATION reproduced: received %s where %s is declared (at %s)' % (bad[2], bad[1], bad[0]))
        return 1
    print('not reproduced: every value delivered has its declared type (or the request was refused)')
    return 0
