"""C01 helper — the object-level correspondence of the SHARED model coq/Wire/Xml.v (three leaf kinds),
kept because other checks reuse that model.  Original docstring:
C01 — XML/SOAP wire fidelity: sent values reach the function, results reach the client.

Three parts (DESIGN.md section 6, C01):
  * proof obligations: coq/Props/C01.v over the models coq/Wire/Xml.v, coq/Wire/Soap.v;
  * correspondence: generated universes and values through the real XmlDocument
    (get_object_as_xml / from_element and the ServerBase pipeline) against the model,
    tree for tree and value for value, plus a stream of mutated documents;
  * direct oracle: generated services through the full pipeline for
    {XmlDocument, Soap11, Soap12} x validator {None, 'soft', 'lxml'}, requests built by an
    independent schema-directed encoder (thorough: also zeep from the WSDL), responses read by
    an independent decoder and by an in-process Spyne client."""
import os, sys, json, copy, datetime, decimal
import lib
import universe as U
from lib import gz, gtext, glist, gbool, gopt, gpair

THEOREMS = ['C01_xml_rt', 'C01_xml_rt_spyne']

XSI = 'http://www.w3.org/2001/XMLSchema-instance'
FUEL = 40


# ------------------------------------------------------------------ small helpers
def observe(fn, *args):
    """('ok', value) | ('vfault',) | ('crash', CoqExn, PythonName)"""
    from spyne.model.fault import Fault
    try:
        return ('ok', fn(*args))
    except Fault as e:
        if e.faultcode == 'Client.ValidationError':
            return ('vfault',)
        return ('crash', 'OtherExn', 'Fault:' + str(e.faultcode))
    except Exception as e:
        n = type(e).__name__
        return ('crash', {'ValueError': 'ValueError', 'TypeError': 'TypeError', 'AttributeError': 'AttributeError',
                          'KeyError': 'KeyError', 'IndexError': 'IndexError', 'AssertionError': 'AssertionError'}.get(n, 'OtherExn'), n)


def gout(o, f):
    if o[0] == 'ok':
        return '(Ok %s)' % f(o[1])
    if o[0] == 'vfault':
        return 'VFault'
    return '(Crash %s)' % o[1]


def reparse(elt):
    from lxml import etree
    return etree.fromstring(etree.tostring(elt))


def xml_ok_text(s):
    return all(c in '\t\n\r' or 0x20 <= ord(c) <= 0xD7FF or 0xE000 <= ord(c) <= 0xFFFD or 0x10000 <= ord(c) <= 0x10FFFF
               for c in s)


# ------------------------------------------------------------------ generators
SHARED_NAMES = ['id', 'name', 'value']


def gen_desc(rng, n_classes, namespaces=('urn:t',), **kw):
    """universe.gen_universe plus what it never produces and C01 needs: member names shared
    between classes (an XmlAttribute 'id' on a class and on the class of one of its members),
    and required members"""
    desc = U.gen_universe(rng, n_classes=n_classes, namespaces=namespaces, **kw)
    # universe.gen_universe keeps a subclass in its base's namespace; C01 needs chains that cross namespaces
    # (an inherited member is written in the namespace of the class that declares it)
    for c in desc['classes']:
        if c['parent'] is not None and rng.random() < 0.6:
            c['ns'] = rng.choice(('urn:t', 'urn:u', 'urn:v'))
    for cid, c in enumerate(desc['classes']):
        for f in c['fields']:
            if rng.random() < 0.3:
                nm = rng.choice(SHARED_NAMES)
                # keep flattened names distinct in this class and in every subclass
                clash = False
                for d in U.subclasses(desc, cid):
                    if nm in [g['name'] for g in U.flat_fields(desc, d)]:
                        clash = True
                p = c['parent']
                while p is not None:
                    if nm in [g['name'] for g in desc['classes'][p]['fields']]:
                        clash = True
                    p = desc['classes'][p]['parent']
                if not clash:
                    f['name'] = nm
    return desc


def field_is_multi(f):
    return f['max'] is None or f['max'] > 1


def gen_conformant(rng, desc, ty, depth, nullable=True):
    """a value conforming to ty under the published schema (None only where allowed)"""
    if nullable and rng.random() < 0.15:
        return ('none',)
    if ty[0] == 'prim':
        return U.gen_leaf(rng, ty[1])
    if ty[0] == 'arr':
        n = 0 if depth <= 0 else rng.choice([0, 1, 2, 3])
        return ('list', [gen_conformant(rng, desc, ty[1], depth - 1, True) for _ in range(n)])
    cid = ty[1]
    vals = [gen_field(rng, desc, f, depth - 1) for f in U.flat_fields(desc, cid)]
    return ('obj', cid, vals)


def gen_field(rng, desc, f, depth):
    if f['kind'] == 'attr':
        if f['min'] <= 0 and rng.random() < 0.4:
            return ('none',)
        return U.gen_leaf(rng, f['ty'][1])
    shallow = depth <= 0 and f['ty'][0] != 'prim' and not (f['ty'][0] == 'arr')
    if field_is_multi(f):
        if f['min'] <= 0 and rng.random() < 0.2:
            return ('none',)
        hi = 3 if f['max'] is None else f['max']
        lo = max(f['min'], 0)
        n = rng.randint(lo, max(lo, hi))
        if shallow:
            if f['nillable']:
                return ('list', [('none',)] * n) if n else (('none',) if f['min'] <= 0 else ('list', []))
            n = lo
        return ('list', [gen_conformant(rng, desc, f['ty'], depth, f['nillable']) for _ in range(n)])
    can_none = f['min'] <= 0 or f['nillable']
    if shallow and can_none:
        return ('none',)
    if can_none and rng.random() < 0.25:
        return ('none',)
    return gen_conformant(rng, desc, f['ty'], depth, False)


def depth_ok(desc):
    """every class can be instantiated within a bounded depth: no class requires itself"""
    return True


def norm_value(desc, ty, v):
    """the property's identifications (Python mirror of Wire.Xml.norm): an empty unwrapped
    sequence is None"""
    if v[0] == 'list' and ty[0] == 'arr':
        return ('list', [norm_value(desc, ty[1], x) for x in v[1]])
    if v[0] == 'obj' and ty[0] == 'ref':
        out = []
        for f, x in zip(U.flat_fields(desc, v[1]), v[2]):
            if f['kind'] == 'elem' and field_is_multi(f):
                if x[0] == 'list':
                    x = ('none',) if not x[1] else ('list', [norm_value(desc, f['ty'], y) for y in x[1]])
            elif f['kind'] == 'elem':
                x = norm_value(desc, f['ty'], x)
            out.append(x)
        return ('obj', v[1], out)
    return v


# ------------------------------------------------------------------ document mutations (malformed stream)
def mutate(rng, root):
    """one structural mutation of a parsed document; returns a description or None"""
    from lxml import etree
    elts = [e for e in root.iter() if isinstance(e.tag, str)]
    e = rng.choice(elts)
    kids = [k for k in e if isinstance(k.tag, str)]
    r = rng.random()
    if r < 0.14 and kids:
        k = rng.choice(kids)
        e.remove(k)
        return 'drop child'
    if r < 0.28 and kids:
        k = rng.choice(kids)
        e.insert(rng.randrange(len(e) + 1), copy.deepcopy(k))
        return 'duplicate child'
    if r < 0.40 and len(kids) >= 2:
        a, b = rng.sample(kids, 2)
        a.tag = b.tag
        return 'rename child to sibling'
    if r < 0.50:
        q = etree.QName(e)
        etree.SubElement(e, '{%s}%s' % (q.namespace, 'zz_unknown') if q.namespace else 'zz_unknown').text = 'x'
        return 'unknown child'
    if r < 0.62 and e is not root:
        e.set('{%s}nil' % XSI, rng.choice(['true', '1', 'false', '0', 'TRUE', '']))
        return 'xsi:nil'
    if r < 0.70 and kids:
        rng.shuffle(kids)
        for k in kids:
            e.remove(k)
        for k in kids:
            e.append(k)
        return 'shuffle children'
    if r < 0.78 and e.attrib:
        del e.attrib[rng.choice(sorted(e.attrib))]
        return 'drop attribute'
    if r < 0.84:
        e.set(rng.choice(['zz', 'id', 'name', 'f0_0', 'f1_0']), rng.choice(['1', 'x', 'true', '']))
        return 'add attribute'
    if r < 0.92 and not kids:
        e.text = rng.choice([None, '', 'abc', ' 7 ', '+5', 'true', '1', '0', 'TRUE', '1.5'])
        return 'change text'
    if len(root):   # only under the root, a complex element: array_from_element reads a comment as an item
        root.insert(rng.randrange(len(root) + 1), etree.Comment('c'))
        return 'comment'
    return None


# ------------------------------------------------------------------ correspondence 1: XmlDocument on bare objects
IMPORTS = 'From SpyneV Require Import Base.Prelude Wire.Universe Wire.Xml C01.Leaf.\n'


def g_ns(s):
    return gtext(s or '')


def corr_objects(check, tier):
    """get_object_as_xml / XmlDocument.from_element against Wire.Xml.enc / dec"""
    from lxml import etree
    from spyne.util.xml import get_object_as_xml
    from spyne.protocol.xml import XmlDocument
    rng = check.rng
    n_univ = 8 if tier == 'quick' else 60
    per_class = 4 if tier == 'quick' else 10
    prots = {False: XmlDocument(), True: XmlDocument(validator='soft')}
    for ui in range(n_univ):
        desc = gen_desc(rng, n_classes=rng.randint(2, 6), namespaces=('urn:t', 'urn:u') if ui % 2 else ('urn:t',))
        classes = U.build_spyne(desc)
        imports = IMPORTS + 'Definition UU : universe := %s.\n' % U.g_universe(desc)
        enc_cases, dec_cases = [], []
        for cid, cls in enumerate(classes):
            for _ in range(per_class):
                v = gen_conformant(rng, desc, ('ref', cid), depth=rng.randint(1, 4), nullable=False)
                o = U.to_native(desc, classes, v)
                r = observe(get_object_as_xml, o, cls)
                if r[0] != 'ok':
                    oracle_fail_obj(check, desc, cid, v, 'encode', 'get_object_as_xml raised %r' % (r,))
                    continue
                tree = reparse(r[1])
                enc_cases.append(('(%d%%nat, %s, %s)' % (cid, U.g_val(v), U.g_xml(tree)),
                                  'universe %d class %d value %r' % (ui, cid, v)))
                check.count(('enc', json.dumps(desc, sort_keys=True), cid, repr(v)))
                docs = [(tree, 'as written')]
                for _ in range(2 if tier == 'quick' else 4):
                    t2 = copy.deepcopy(tree)
                    what = mutate(rng, t2)
                    if what:
                        docs.append((reparse(t2), what))
                for doc, what in docs:
                    for soft in (False, True):
                        d = observe(prots[soft].from_element, None, cls, doc)
                        if d[0] == 'ok':
                            nv = U.from_native(desc, classes, d[1])
                            if not U.in_universe(nv):
                                check.mismatch('xml_dec', 'decoded value outside the universe: %r' % (nv,))
                                continue
                            d = ('ok', nv)
                        dec_cases.append(('(%s, %d%%nat, %s, %s)' % (gbool(soft), cid, U.g_xml(doc), gout(d, U.g_val)),
                                          'universe %d class %d soft=%s %s: %s -> %r' % (
                                              ui, cid, soft, what, etree.tostring(doc).decode()[:300], d)))
                        check.count(('dec', soft, etree.tostring(doc)))
                        # direct oracle on the unmutated document: the property itself
                        if what == 'as written':
                            want = norm_value(desc, ('ref', cid), v)
                            if d != ('ok', want):
                                oracle_fail_obj(check, desc, cid, v, 'soft' if soft else 'none',
                                                'XmlDocument(validator=%s) read %s back as %r, sent %r' % (
                                                    'soft' if soft else None, etree.tostring(doc).decode()[:200], d, want))
        lib.correspond(check, 'xml_enc', imports, 'nat * val * xnode',
                       '(fun c => let \'(cid, v, t) := c in match enc spyne_leaf (cfg false None) UU %d (TRef cid) (cls_ns UU cid) '
                       '(cls_name UU cid) v with Ok e => xnode_eqb (wire e) t | _ => false end)' % FUEL, enc_cases,
                       show='(fun c : nat * val * xnode => let \'(cid, v, t) := c in enc spyne_leaf (cfg false None) UU %d (TRef cid) '
                            '(cls_ns UU cid) (cls_name UU cid) v)' % FUEL)
        lib.correspond(check, 'xml_dec', imports, 'bool * nat * xnode * out val',
                       '(fun c => let \'(soft, cid, t, o) := c in out_eqb val_eqb (from_element spyne_leaf (cfg soft None) UU %d '
                       '(TRef cid) t) o)' % FUEL, dec_cases,
                       show='(fun c : bool * nat * xnode * out val => let \'(soft, cid, t, o) := c in from_element spyne_leaf '
                            '(cfg soft None) UU %d (TRef cid) t)' % FUEL)
        if ui == 0 and enc_cases:
            check.sample({'universe': desc, 'case': enc_cases[0][1][:400]})


def obj_key(desc, cid, v, stage):
    """site + shape of the failing input: which kinds of member the value exercises"""
    shape = set()

    def walk(ty, x):
        if x[0] == 'obj':
            for f, y in zip(U.flat_fields(desc, x[1]), x[2]):
                tag = f['kind'] + ('*' if field_is_multi(f) else '') + ('!' if f['min'] > 0 else '')
                if y[0] == 'none':
                    shape.add(tag + ':none')
                elif y[0] == 'list' and not y[1]:
                    shape.add(tag + ':empty')
                elif y[0] == 'text' and y[1] == '':
                    shape.add(tag + ':emptytext')
                if y[0] == 'list':
                    for z in y[1]:
                        walk(f['ty'][1] if f['ty'][0] == 'arr' else f['ty'], z)
                else:
                    walk(f['ty'], y)
        elif x[0] == 'list':
            for z in x[1]:
                walk(ty, z)
    walk(('ref', cid), v)
    return 'C01|object|%s|%s' % (stage, ','.join(sorted(shape))[:120])


def oracle_fail_obj(check, desc, cid, v, stage, what):
    check.fail(obj_key(desc, cid, v, stage), what, {'kind': 'object', 'universe': desc, 'cid': cid, 'value': v, 'stage': stage})


