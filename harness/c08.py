"""C08 — primitive text forms are lossless and lie in the XSD lexical space."""
import os, sys, re, json, decimal
import lib
from lib import gz, gtext, glist, gbool, gopt, gpair
import c08_ext

THEOREMS = ['C08_int_text_roundtrip', 'C08_int_out_lex', 'C08_bounded_native_exact',
            'C08_bounded_roundtrip', 'C08_integer_roundtrip', 'C08_integer_in_lex']

THEOREMS_DT = ['C08_dt_offset_roundtrip', 'C08_dt_usec_six_digits', 'C08_dt_usec_exact', 'C08_dt_usec_digits', 'C08_dt_datetime_roundtrip', 'C08_dt_time_roundtrip', 'C08_dt_date_roundtrip', 'C08_dt_datetime_out_lex_partial', 'C08_dt_datetime_out_lex_refuted', 'C08_dt_datetime_out_lex_iff', 'C08_dt_time_out_lex', 'C08_dt_date_out_lex', 'C08_dt_datetime_in_lex', 'C08_dt_time_in_lex', 'C08_dt_date_in_lex', 'C08_dt_datetime_reader_shape', 'C08_dt_datetime_never_crashes', 'C08_dt_datetime_vfault_iff', 'C08_dt_datetime_no_trailing_junk', 'C08_dt_time_never_crashes', 'C08_dt_time_vfault_iff', 'C08_dt_date_never_crashes', 'C08_dt_date_vfault_iff']
THEOREMS_DUR = ['C08_duration_roundtrip', 'C08_duration_out_lex', 'C08_duration_out_lex_all', 'C08_duration_in_lex', 'C08_duration_range_abs', 'C08_duration_in_lex_strong', 'C08_duration_reader_total', 'C08_duration_out_of_range', 'C08_dur_no_trailing_junk', 'C08_dur_suffix_rejected', 'C08_boolean_roundtrip', 'C08_boolean_out_lex', 'C08_boolean_in_lex']
THEOREMS_BIN = ['C08_base64_roundtrip', 'C08_hex_roundtrip', 'C08_base64_out_lex', 'C08_hex_out_lex', 'C08_base64_reader_total', 'C08_hex_reader_total', 'C08_hex_reader_bytes', 'C08_base64_reader_bytes', 'C08_base64_in_lex', 'C08_hex_in_lex']

THEOREMS_RE = c08_ext.THEOREMS_RE
THEOREMS_DEC = ['C08_dec_roundtrip', 'C08_dec_in_lex', 'C08_dec_out_lex_partial', 'C08_dec_out_lex_refuted',
                'C08_dec_out_lex_scientific', 'C08_dec_out_lex_iff', 'C08_dec_reader_total', 'C08_dec_reader_finite']
THEOREMS_UUID = ['C08_uuid_roundtrip', 'C08_uuid_out_lex', 'C08_uuid_in_lex', 'C08_uuid_reader_total', 'C08_uuid_reader_range']

INT_TYPES = ['Integer', 'UnsignedInteger', 'PositiveInteger', 'Integer8', 'Integer16', 'Integer32',
             'Integer64', 'UnsignedInteger8', 'UnsignedInteger16', 'UnsignedInteger32', 'UnsignedInteger64']


def gout(o, f):
    """implementation observation -> Coq `out` term"""
    kind = o[0]
    if kind == 'ok':
        return '(Ok %s)' % f(o[1])
    if kind == 'vfault':
        return 'VFault'
    return '(Crash %s)' % o[1]

EXN = {'ValueError': 'ValueError', 'TypeError': 'TypeError', 'AttributeError': 'AttributeError',
       'KeyError': 'KeyError', 'IndexError': 'IndexError', 'OverflowError': 'OverflowError',
       'Error': 'BinasciiError', 'InvalidOperation': 'InvalidOperation',
       'UnicodeDecodeError': 'UnicodeError', 'UnicodeEncodeError': 'UnicodeError',
       'AssertionError': 'AssertionError'}

def observe(fn, *args):
    from spyne.error import ValidationError
    from spyne.model.fault import Fault
    try:
        return ('ok', fn(*args))
    except ValidationError:
        return ('vfault',)
    except Fault as e:
        return ('crash', 'OtherExn')
    except Exception as e:
        return ('crash', EXN.get(type(e).__name__, 'OtherExn'), type(e).__name__)


# ------------------------------------------------------------------ integer family
def int_values(check, tier):
    vals = set([0, 1, -1, 7, 9, 10, 11, 99, 100, 101, -9, -10, -99, -100])
    for k in (7, 8, 15, 16, 31, 32, 63, 64, 100, 128):
        for d in (-2, -1, 0, 1, 2):
            vals.add(2 ** k + d)
            vals.add(-(2 ** k) + d)
    for k in range(1, 40):
        vals.add(10 ** k)
        vals.add(10 ** k - 1)
        vals.add(-(10 ** k))
        vals.add(-(10 ** k) + 1)
    n = 300 if tier == 'quick' else 6000
    for _ in range(n):
        bits = check.rng.choice([4, 8, 9, 16, 17, 32, 33, 64, 65, 200])
        vals.add(check.rng.randint(-(2 ** bits), 2 ** bits))
    return sorted(vals)

def int_literals(check, tier):
    rng = check.rng
    lits = ['0', '-0', '+0', '00', '007', '+7', '-7', ' 7', '7 ', '\t7\n', '', ' ', '+', '-', '--1', '+-1',
            '1_0', '1__0', '_1', '1_', '1.0', '1e3', '0x10', 'abc', '1 2', '\x001', '12a', 'a12', '١٢'[:0] + 'x',
            '127', '128', '-128', '-129', '255', '256', '+255', '0255', '-32768', '-32769', '32767', '32768',
            '65535', '65536', '2147483647', '2147483648', '-2147483648', '-2147483649', '4294967295',
            '4294967296', '9223372036854775807', '9223372036854775808', '-9223372036854775808',
            '-9223372036854775809', '18446744073709551615', '18446744073709551616', '+18446744073709551615',
            '000000000000000000000000000001', '\x0b5', '5\x0c', '\x1c5', '\x855', '\xa05', '5 ', '5　',
            '-', '+ 5', '- 5', '5-', '5+', '0_0', '-0_1', '9' * 30, '-' + '9' * 30, '1' * 1023, '1' * 1024, '1' * 1025]
    n = 300 if tier == 'quick' else 5000
    alphabet = '0123456789' * 4 + '+-_ \t.eaZ'
    for _ in range(n):
        k = rng.randint(1, 24)
        r = rng.random()
        if r < 0.55:
            s = rng.choice(['', '', '-', '+']) + ''.join(rng.choice('0123456789') for _ in range(k))
        elif r < 0.7:
            s = rng.choice(['', ' ', '\n']) + rng.choice(['', '-', '+']) + \
                ''.join(rng.choice('0123456789_') for _ in range(k)) + rng.choice(['', ' ', '\r\n'])
        else:
            s = ''.join(rng.choice(alphabet) for _ in range(k))
        lits.append(s)
    return lits

def family_int(check, tier):
    from spyne.protocol import ProtocolBase
    from spyne.protocol.xml import XmlDocument
    from spyne.model.primitive import number as P
    from lxml import etree
    prot = ProtocolBase()
    xsoft = XmlDocument(validator='soft')
    imports = ('From SpyneV Require Import Base.Prelude Base.Digits Base.Ext C08.IntModel Gen.NumTypes.\n'
               'Definition zout_eqb := out_eqb Z.eqb.')
    vals = int_values(check, tier)
    lits = int_literals(check, tier)
    # 1. printer
    cases = []
    for z in vals:
        o = observe(prot.to_unicode, P.Integer, z)
        if o[0] != 'ok':
            check.fail('C08|Integer|print|crash', 'to_unicode(Integer, %d) raised %r' % (z, o), {'value': z})
            continue
        cases.append(('(%s, %s)' % (gz(z), gtext(o[1])), 'to_unicode(Integer,%d)=%r' % (z, o[1])))
        check.count(('p', z))
    lib.correspond(check, 'int_print', imports, 'Z * text',
                   '(fun c => text_eqb (integer_to_unicode (fst c)) (snd c))', cases,
                   show='(fun c : Z * text => integer_to_unicode (fst c))')
    # 2. reader and validate_native per type
    rcases, ncases = {}, {}
    for tn in INT_TYPES:
        T = getattr(P, tn)
        rc = []
        for s in lits:
            o = observe(prot.from_unicode, T, s)
            rc.append(('(%s, %s)' % (gtext(s), gout(o, gz)), 'from_unicode(%s,%r)->%r' % (tn, s, o)))
            check.count(('r', tn, s), nontrivial=True)
        lib.correspond(check, 'int_read_' + tn, imports, 'text * out Z',
                       '(fun c => zout_eqb (integer_from_unicode attrs_%s (fst c)) (snd c))' % tn, rc,
                       show='(fun c : text * out Z => integer_from_unicode attrs_%s (fst c))' % tn)
        nc = []
        for z in vals:
            o = bool(T.validate_native(T, z))
            nc.append(('(%s, %s)' % (gz(z), gbool(o)), '%s.validate_native(%d)=%r' % (tn, z, o)))
            check.count(('n', tn, z))
        lib.correspond(check, 'int_native_' + tn, imports, 'Z * bool',
                       '(fun c => Bool.eqb (validate_native_%s attrs_%s (fst c)) (snd c))' % (tn, tn), nc)
    check.sample({'family': 'integer', 'print': [str(v) for v in vals[:3]], 'read': lits[:6]})
    # 3. direct oracle on the implementation: round trip + acceptance + XSD lexical validity
    schema_cache = {}
    def xsd_ok(tname, lit):
        if tname not in schema_cache:
            xsd = ('<xs:schema xmlns:xs="http://www.w3.org/2001/XMLSchema"><xs:element name="v" type="xs:%s"/></xs:schema>' % tname)
            schema_cache[tname] = etree.XMLSchema(etree.fromstring(xsd))
        el = etree.Element('v')
        el.text = lit
        return schema_cache[tname].validate(el)
    for tn in INT_TYPES:
        T = getattr(P, tn)
        mb, xb = T.Attributes.min_bound, T.Attributes.max_bound
        if tn == 'UnsignedInteger':
            mb = 0
        if tn == 'PositiveInteger':
            mb = 1
        for z in vals:
            if (mb is not None and z < mb) or (xb is not None and z > xb):
                continue
            s = prot.to_unicode(T, z)
            if len(s) > 1024:
                continue
            key = None
            o = observe(xsoft.from_unicode, T, s)
            if o != ('ok', z):
                key = 'C08|%s|roundtrip|%s' % (tn, 'min' if z == mb else 'max' if z == xb else 'value')
                what = '%s: from_unicode(to_unicode(%d)) gives %r' % (tn, z, o)
            elif not T.validate_native(T, z):
                key = 'C08|%s|validate_native|%s' % (tn, 'min' if z == mb else 'max' if z == xb else 'value')
                what = '%s.validate_native rejects %d, a value of its value space' % (tn, z)
            elif not xsd_ok(T.__type_name__, s):
                key = 'C08|%s|out_lex' % tn
                what = '%s: text %r is not a valid xs:%s literal' % (tn, s, T.__type_name__)
            check.count(('o', tn, z))
            if key:
                check.fail(key, what, {'type': tn, 'value': z, 'text': s})


# ------------------------------------------------------------------ date/time family
def g_date(d):
    return '(mkdate %d %d %d)' % (d.year, d.month, d.day)

def g_tod(t):
    return '(mktod %d %d %d %d)' % (t.hour, t.minute, t.second, t.microsecond)

def off_minutes(v):
    o = v.utcoffset()
    if o is None:
        return None
    us = (o.days * 86400 + o.seconds) * 1000000 + o.microseconds
    if us % 60000000:
        raise ValueError('offset with seconds')
    return us // 60000000

def g_dt(v):
    return '(mkdt %s %s %s)' % (g_date(v), g_tod(v), gopt(off_minutes(v), gz))

DT_IMPORTS = ('From SpyneV Require Import Base.Prelude Base.Digits C08.DtModel C08.DurModel C08.BinModel.\n'
              'Definition dtout_eqb := out_eqb datetime_eqb.\nDefinition dout_eqb := out_eqb date_eqb.\n'
              'Definition tout_eqb := out_eqb tod_eqb.\nDefinition zout_eqb := out_eqb Z.eqb.\n'
              'Definition bout_eqb := out_eqb bytes_eqb.')

US_EDGE = [0, 1, 5, 9, 10, 99, 100, 999, 1000, 9999, 10000, 99999, 100000, 123456, 500000, 999999, 249, 248, 250000]

def all_offsets():
    return list(range(-14 * 60, 14 * 60 + 1))

def dt_values(check, tier):
    import datetime as D, pytz
    rng = check.rng
    vals = []
    offs = [None, 0, 1, -1, 30, -30, 59, -59, 60, -60, 61, -61, 289, -289, 330, -330, 345, 570, -570,
            839, -839, 840, -840, 1439, -1439, 720, -720]
    n_off = 60 if tier == 'quick' else 1681
    offs += rng.sample(all_offsets(), n_off) if n_off < 1681 else all_offsets()
    dates = [(1, 1, 1), (9999, 12, 31), (2000, 2, 29), (1900, 2, 28), (2024, 2, 29), (2023, 12, 31), (1970, 1, 1),
             (999, 9, 9), (10, 10, 10), (2020, 1, 31), (2021, 11, 30)]
    times = [(0, 0, 0), (23, 59, 59), (12, 0, 0), (1, 2, 3), (9, 59, 0)]
    for o in offs:
        y, m, d = rng.choice(dates)
        hh, mm, ss = rng.choice(times)
        us = rng.choice(US_EDGE + [rng.randint(0, 999999)])
        tz = None if o is None else (pytz.utc if (o == 0 and rng.random() < .5) else D.timezone(D.timedelta(minutes=o)))
        vals.append(D.datetime(y, m, d, hh, mm, ss, us, tz))
    for (y, m, d) in dates:
        for (hh, mm, ss) in times:
            vals.append(D.datetime(y, m, d, hh, mm, ss, rng.choice(US_EDGE), pytz.utc))
    for us in US_EDGE:
        vals.append(D.datetime(2020, 5, 17, 10, 20, 30, us))
    n = 150 if tier == 'quick' else 4000
    for _ in range(n):
        y = rng.choice([rng.randint(1, 9999), rng.randint(1900, 2100)])
        m = rng.randint(1, 12)
        d = rng.randint(1, 28)
        o = rng.choice([None, rng.randint(-1439, 1439), rng.randint(-840, 840)])
        tz = None if o is None else D.timezone(D.timedelta(minutes=o))
        vals.append(D.datetime(y, m, d, rng.randint(0, 23), rng.randint(0, 59), rng.randint(0, 59),
                               rng.choice([0, rng.randint(0, 999999), rng.choice(US_EDGE)]), tz))
    return vals

def dt_literals(check, tier):
    rng = check.rng
    lits = ['2020-01-01T00:00:00', '2020-01-01 00:00:00', '2020-01-01T00:00:00Z', '2020-01-01T00:00:00z',
            '2020-01-01T00:00:00+00:00', '2020-01-01T00:00:00-00:00', '2020-01-01T00:00:00-00:30',
            '2020-01-01T00:00:00-04:49', '2020-01-01T00:00:00+04:49', '2020-01-01T00:00:00+14:00',
            '2020-01-01T00:00:00-14:00', '2020-01-01T00:00:00+23:59', '2020-01-01T00:00:00-23:59',
            '2020-01-01T00:00:00+24:00', '2020-01-01T00:00:00-24:00', '2020-01-01T00:00:00+99:59',
            '2020-01-01T00:00:00+05:60', '2020-01-01T00:00:00+05:99',
            '2020-01-01T00:00:00Zjunk', '2020-01-01T00:00:00+02:00junk', '2020-01-01T00:00:00junk',
            '2020-01-01T00:00:00+0200', '2020-01-01T00:00:00.', '2020-01-01T00:00:00.Z', '2020-01-01T00:00:00.5',
            '2020-01-01T00:00:00.5Z', '2020-01-01T00:00:00.000001Z', '2020-01-01T00:00:00.0000005Z',
            '2020-01-01T00:00:00.9999995Z', '2020-01-01T00:00:00.999999Z', '2020-01-01T00:00:00.9999994Z',
            '2020-01-01T00:00:00.000249Z', '2020-01-01T00:00:00.123456789Z', '2020-01-01T00:00:00.1234565',
            '2020-13-01T00:00:00Z', '2020-00-01T00:00:00Z', '2020-01-32T00:00:00Z', '2020-02-30T00:00:00Z',
            '2021-02-29T00:00:00Z', '2020-02-29T00:00:00Z', '1900-02-29T00:00:00Z', '2000-02-29T00:00:00Z',
            '0000-01-01T00:00:00Z', '0001-01-01T00:00:00Z', '9999-12-31T23:59:59.999999Z',
            '2020-01-01T24:00:00Z', '2020-01-01T23:60:00Z', '2020-01-01T23:59:60Z', '2020-01-01T23:59:59Z',
            '20200-01-01T00:00:00Z', '-2020-01-01T00:00:00Z', '202-01-01T00:00:00Z', '2020-1-01T00:00:00Z',
            '2020-01-01T0:00:00Z', '2020-01-01', '2020-01-01T', '2020-01-01T00:00', '', ' ', 'abc',
            ' 2020-01-01T00:00:00Z', '2020-01-01T00:00:00 Z', '2020-01-01t00:00:00Z', '2020/01/01T00:00:00Z',
            '2020-01-01T00-00-00Z', '2020-01-01T00:00:00,5Z']
    n = 200 if tier == 'quick' else 4000
    for _ in range(n):
        y, m, d = rng.randint(1, 9999), rng.randint(1, 12), rng.randint(1, 28)
        if rng.random() < .1:
            m = rng.randint(0, 19)
        if rng.random() < .1:
            d = rng.randint(0, 39)
        hh, mm, ss = rng.randint(0, 23), rng.randint(0, 59), rng.randint(0, 59)
        if rng.random() < .1:
            hh = rng.randint(0, 30)
        if rng.random() < .1:
            ss = rng.randint(0, 70)
        s = '%04d-%02d-%02d%s%02d:%02d:%02d' % (y, m, d, rng.choice('TTT '), hh, mm, ss)
        r = rng.random()
        if r < .6:
            k = rng.randint(1, 9) if rng.random() < .8 else rng.randint(10, 15)
            s += '.' + ''.join(rng.choice('0123456789') for _ in range(k))
        r = rng.random()
        if r < .3:
            s += 'Z'
        elif r < .75:
            s += '%s%02d:%02d' % (rng.choice('+-'), rng.choice([rng.randint(0, 14), rng.randint(0, 25)]),
                                  rng.choice([0, 30, 45, rng.randint(0, 59)]))
        if rng.random() < .05:
            s += rng.choice(['x', ' ', 'Z', '+'])
        if rng.random() < .05:
            k = rng.randrange(len(s))
            s = s[:k] + rng.choice('0123456789:-TZ. x') + s[k + 1:]
        lits.append(s)
    return lits

def family_datetime(check, tier):
    import datetime as D
    from spyne.protocol import ProtocolBase
    from spyne.protocol.soap import Soap11
    from spyne.model.primitive import DateTime, Date, Time
    prot = ProtocolBase()
    soap = Soap11()
    vals = dt_values(check, tier)
    # printers
    pc, dc, tc = [], [], []
    for v in vals:
        o = observe(prot.to_unicode, DateTime, v)
        pc.append(('(%s, %s)' % (g_dt(v), gtext(o[1]) if o[0] == 'ok' else '[]'), 'to_unicode(DateTime,%r)=%r' % (v, o)))
        o = observe(prot.to_unicode, Date, v.date())
        dc.append(('(%s, %s)' % (g_date(v), gtext(o[1]) if o[0] == 'ok' else '[]'), 'to_unicode(Date,%r)=%r' % (v.date(), o)))
        o = observe(prot.to_unicode, Time, v.time())
        tc.append(('(%s, %s)' % (g_tod(v), gtext(o[1]) if o[0] == 'ok' else '[]'), 'to_unicode(Time,%r)=%r' % (v.time(), o)))
        check.count(('dtp', repr(v)))
    lib.correspond(check, 'datetime_print', DT_IMPORTS, 'datetime * text',
                   '(fun c => text_eqb (datetime_iso (fst c)) (snd c))', pc, show='(fun c : datetime * text => datetime_iso (fst c))')
    lib.correspond(check, 'date_print', DT_IMPORTS, 'date * text',
                   '(fun c => text_eqb (date_iso (fst c)) (snd c))', dc, show='(fun c : date * text => date_iso (fst c))')
    lib.correspond(check, 'time_print', DT_IMPORTS, 'tod * text',
                   '(fun c => text_eqb (time_iso (fst c)) (snd c))', tc, show='(fun c : tod * text => time_iso (fst c))')
    # readers
    lits = dt_literals(check, tier)
    def obs_dt(pr, s):
        o = observe(pr.from_unicode, DateTime, s)
        if o[0] == 'ok':
            try:
                return gout(o, g_dt)
            except ValueError:
                return None
        return gout(o, None)
    for nm, pr in (('base', prot), ('soap', soap)):
        rc = []
        for s in lits:
            g = obs_dt(pr, s)
            if g is None:
                continue
            rc.append(('(%s, %s)' % (gtext(s), g), 'from_unicode[%s](DateTime,%r)->%s' % (nm, s, g)))
            check.count(('dtr', nm, s))
        lib.correspond(check, 'datetime_read_' + nm, DT_IMPORTS, 'text * out datetime',
                       '(fun c => dtout_eqb (datetime_from_unicode_iso (fst c)) (snd c))', rc,
                       show='(fun c : text * out datetime => datetime_from_unicode_iso (fst c))')
    # date / time literals: derived from the datetime stream plus specials
    dlits = ['2020-01-05', '2020-1-5', '2020-01-5', '2020-1-05', '2020-01- 5', '2020-01-05Z', '2020-01-05+02:00',
             '2020-01-05-14:00', '2020-01-05z', '2020-01-05Zjunk', '2020-01-05junk', '2020-01-05 ', ' 2020-01-05',
             '2020-02-30', '2020-02-30Z', '2020-13-01', '2020-13-01Z', '2020-00-10', '2020-10-00', '2020-10-32',
             '2020-10-31', '2020-10-3', '2020-10-30', '2020-10-39', '2020-10-40', '2020-10-1x', '2020-10-0', '2020-0-1',
             '0000-01-01', '0001-01-01', '9999-12-31', '10000-01-01', '999-01-01', '', 'abc', '2020-01', '2020-01-05T00:00:00',
             '2020-01-05+2:00', '2020-01-05+02:0', '2020-01-05+24:00', '2020-12-31', '2020-11-31', '2021-02-29', '2024-02-29',
             '2020-10-12', '2020-11-11', '2020-12-12', '2020-9-9', '2020-09-09', '2020-19-09', '2020-1-', '2020--1']
    tlits = ['00:00:00', '23:59:59', '24:00:00', '12:60:00', '12:00:60', '12:00:00.5', '12:00:00.000001', '12:00:00.9999995',
             '12:00:00.0000005', '12:00:00junk', '12:00:00Z', '12:00:00+02:00', '1:00:00', '12:0:00', '', 'abc', '12:00',
             ' 12:00:00', '12:00:00.', '12:00:00.x', '25:00:00', '99:99:99', '12:00:00.123456789']
    for s in lits:
        if len(s) >= 19 and check.rng.random() < .5:
            dlits.append(s[:10] + s[19:] if check.rng.random() < .7 else s[:10])
            tlits.append(s[11:])
    rc = []
    for s in dlits:
        for nm, pr in (('base', prot),):
            o = observe(pr.from_unicode, Date, s)
            rc.append(('(%s, %s)' % (gtext(s), gout(o, g_date)), 'from_unicode(Date,%r)->%r' % (s, o)))
            check.count(('dr', s))
    lib.correspond(check, 'date_read', DT_IMPORTS, 'text * out date',
                   '(fun c => dout_eqb (date_from_unicode (fst c)) (snd c))', rc,
                   show='(fun c : text * out date => date_from_unicode (fst c))')
    rc = []
    for s in tlits:
        o = observe(prot.from_unicode, Time, s)
        rc.append(('(%s, %s)' % (gtext(s), gout(o, g_tod)), 'from_unicode(Time,%r)->%r' % (s, o)))
        check.count(('tr', s))
    lib.correspond(check, 'time_read', DT_IMPORTS, 'text * out tod',
                   '(fun c => tout_eqb (time_from_unicode (fst c)) (snd c))', rc,
                   show='(fun c : text * out tod => time_from_unicode (fst c))')
    check.sample({'family': 'datetime', 'values': [repr(v) for v in vals[:3]], 'literals': lits[70:76]})
    # direct oracle: round trip (same fields, same UTC offset), exhaustively over all 1681 offsets, and XSD validity
    import pytz
    ovals = list(vals)
    for o in all_offsets():
        ovals.append(D.datetime(2020, 6, 15, 12, 30, 45, check.rng.choice(US_EDGE), D.timezone(D.timedelta(minutes=o))))
    for us in (US_EDGE if tier == 'quick' else range(0, 1000000, 997)):
        ovals.append(D.datetime(2021, 3, 4, 5, 6, 7, us, pytz.utc))
    for v in ovals:
        for nm, pr in (('base', prot), ('soap', soap)):
            s = pr.to_unicode(DateTime, v)
            o = observe(pr.from_unicode, DateTime, s)
            check.count(('dto', nm, repr(v)))
            om = off_minutes(v)
            bad = o[0] != 'ok' or o[1].replace(tzinfo=None) != v.replace(tzinfo=None) or \
                (o[1].utcoffset() != v.utcoffset())
            if bad:
                shape = 'naive' if om is None else ('neg-offset-with-minutes' if om < 0 and om % 60 else 'offset')
                if o[0] == 'ok' and o[1].microsecond != v.microsecond:
                    shape = 'microseconds'
                check.fail('C08|DateTime|roundtrip|%s' % shape, 'DateTime %r written %r read back as %r' % (v, s, o),
                           {'type': 'DateTime', 'value': repr(v), 'text': s, 'protocol': nm})
            if (om is None or abs(om) <= 840) and not xsd_ok('dateTime', s):
                check.fail('C08|DateTime|out_lex', 'DateTime text %r is not a valid xs:dateTime' % s, {'value': repr(v)})
    for v in vals:
        s = prot.to_unicode(Date, v.date())
        o = observe(prot.from_unicode, Date, s)
        if o != ('ok', v.date()):
            check.fail('C08|Date|roundtrip', 'Date %r written %r read back as %r' % (v.date(), s, o), {'value': repr(v.date())})
        if not xsd_ok('date', s):
            check.fail('C08|Date|out_lex', 'Date text %r is not a valid xs:date' % s, {'value': repr(v.date())})
        s = prot.to_unicode(Time, v.time())
        o = observe(prot.from_unicode, Time, s)
        if o != ('ok', v.time()):
            check.fail('C08|Time|roundtrip', 'Time %r written %r read back as %r' % (v.time(), s, o), {'value': repr(v.time())})
        if not xsd_ok('time', s):
            check.fail('C08|Time|out_lex', 'Time text %r is not a valid xs:time' % s, {'value': repr(v.time())})
        check.count(('do', repr(v)))


_SCHEMAS = {}
def xsd_ok(tname, lit):
    from lxml import etree
    if tname not in _SCHEMAS:
        xsd = ('<xs:schema xmlns:xs="http://www.w3.org/2001/XMLSchema"><xs:element name="v" type="xs:%s"/></xs:schema>' % tname)
        _SCHEMAS[tname] = etree.XMLSchema(etree.fromstring(xsd))
    el = etree.Element('v')
    el.text = lit
    return _SCHEMAS[tname].validate(el)


# ------------------------------------------------------------------ duration / boolean family
def td_us(td):
    return (td.days * 86400 + td.seconds) * 1000000 + td.microseconds

def dur_values(check, tier):
    import datetime as D
    rng = check.rng
    vals = [0, 1, 5, 10, 99999, 100000, 999999, 1000000, 1000001, 59000000, 60000000, 61000000, 3599000000, 3600000000,
            3661000001, 86399999999, 86400000000, 86400000001, 2 * 86400000000, 86400000000 + 3600000000,
            86400000000 + 5, 999999999 * 86400000000, 999999999 * 86400000000 + 86399999999, 249, 248,
            90061000001, 31 * 86400000000, 365 * 86400000000]
    vals += [-v for v in vals]
    n = 200 if tier == 'quick' else 5000
    for _ in range(n):
        d = rng.choice([0, 0, rng.randint(0, 400), rng.randint(0, 999999999)])
        sec = rng.choice([0, rng.randint(0, 86399), rng.choice([60, 3600, 59, 3599, 3601])])
        us = rng.choice([0, rng.randint(0, 999999), rng.choice(US_EDGE)])
        v = (d * 86400 + sec) * 1000000 + us
        vals.append(v if rng.random() < .7 else -v)
    out = []
    for v in vals:
        try:
            out.append(D.timedelta(microseconds=v))
        except OverflowError:
            pass
    return out

def dur_literals(check, tier):
    rng = check.rng
    lits = ['P', 'PT', 'PT0S', 'P0D', 'P1D', 'P1DT', 'PT1H', 'PT1M', 'PT1S', 'PT1.5S', 'PT0.000001S', 'PT0.000249S',
            'PT0.0000005S', 'PT0.9999999S', 'PT1.S', 'PT.5S', 'PT1x5S', 'P1Y', 'P1M', 'P1Y2M3DT4H5M6.7S', '-P1D', '-PT0S',
            '--P1D', '+P1D', 'P-1D', 'PT-1S', 'P1DT1H1M1S', 'P1D1H', 'P1H', 'PT1D', 'P1S', 'PT1M1H', 'PT1S1M', 'P1D2Y',
            'xyz', '', ' P1D', 'P1D ', 'p1d', 'P 1D', 'P1,5D', 'P1.5D', 'PT1.5H', 'P999999999D', 'P1000000000D',
            '-P999999999DT1S', '-P999999999D', 'P999999999DT23H59M59.999999S', 'P999999999DT24H', 'P99999999999D',
            'PT36H', 'PT90M', 'PT3600S', 'PT86400S', 'PT100000000000S', 'P0Y0M0DT0H0M0S', 'PT0.1234567S', 'PT59.999999S',
            'PT60S', 'P10D', 'P01D', 'PT007S', 'PT1H1S', 'P1DT1S', 'PT1M1S', 'P1M1D', 'P1Y1D', 'PT1S junk', 'P1Djunk']
    n = 200 if tier == 'quick' else 5000
    for _ in range(n):
        s = rng.choice(['', '', '-']) + 'P'
        for u in 'YMD':
            if rng.random() < (.15 if u != 'D' else .5):
                s += '%d%s' % (rng.choice([0, 1, rng.randint(0, 400), rng.randint(0, 10 ** 9)]), u)
        if rng.random() < .7:
            s += 'T'
            for u in 'HM':
                if rng.random() < .4:
                    s += '%d%s' % (rng.choice([0, 1, rng.randint(0, 100), rng.randint(0, 10 ** 6)]), u)
            if rng.random() < .6:
                s += '%d' % rng.choice([0, 1, rng.randint(0, 59), rng.randint(0, 10 ** 6)])
                if rng.random() < .6:
                    s += '.' + ''.join(rng.choice('0123456789') for _ in range(rng.randint(1, 9)))
                s += 'S'
        if rng.random() < .06:
            k = rng.randrange(len(s))
            s = s[:k] + rng.choice('0123456789PTDHMS.-x ') + s[k + 1:]
        lits.append(s)
    return lits

def family_duration(check, tier):
    import datetime as D
    from spyne.protocol import ProtocolBase
    from spyne.model.primitive import Duration, Boolean
    prot = ProtocolBase()
    vals = dur_values(check, tier)
    pc = []
    for v in vals:
        o = observe(prot.to_unicode, Duration, v)
        pc.append(('(%s, %s)' % (gz(td_us(v)), gtext(o[1]) if o[0] == 'ok' else '[]'), 'to_unicode(Duration,%r)=%r' % (v, o)))
        check.count(('durp', td_us(v)))
    lib.correspond(check, 'duration_print', DT_IMPORTS, 'Z * text',
                   '(fun c => text_eqb (duration_to_unicode (fst c)) (snd c))', pc,
                   show='(fun c : Z * text => duration_to_unicode (fst c))')
    lits = dur_literals(check, tier)
    rc = []
    for s in lits:
        o = observe(prot.from_unicode, Duration, s)
        rc.append(('(%s, %s)' % (gtext(s), gout(o, lambda t: gz(td_us(t)))), 'from_unicode(Duration,%r)->%r' % (s, o)))
        check.count(('durr', s))
    lib.correspond(check, 'duration_read', DT_IMPORTS, 'text * out Z',
                   '(fun c => zout_eqb (duration_from_unicode (fst c)) (snd c))', rc,
                   show='(fun c : text * out Z => duration_from_unicode (fst c))')
    check.sample({'family': 'duration', 'values': [repr(v) for v in vals[:4]], 'literals': lits[:8]})
    for v in vals:
        s = prot.to_unicode(Duration, v)
        o = observe(prot.from_unicode, Duration, s)
        check.count(('duro', td_us(v)))
        if o != ('ok', v):
            us = abs(td_us(v)) % 1000000
            shape = 'us<100000' if 0 < us < 100000 else 'value'
            check.fail('C08|Duration|roundtrip|%s' % shape, 'Duration %r written %r read back as %r' % (v, s, o),
                       {'type': 'Duration', 'microseconds': td_us(v), 'text': s})
        elif not xsd_ok('duration', s):
            check.fail('C08|Duration|out_lex', 'Duration text %r is not a valid xs:duration' % s, {'microseconds': td_us(v)})
    # every D/H/M/S xs:duration literal with <= 6 fraction digits is read as its value (to the microsecond)
    for s in lits:
        import re
        m = re.fullmatch(r'(-?)P(?:(\d+)D)?(?:T(?:(\d+)H)?(?:(\d+)M)?(?:(\d+)(?:\.(\d{1,6}))?S)?)?', s)
        if not m or not xsd_ok('duration', s):
            continue
        sg, d, h, mi, sec, fr = m.groups()
        us = (int(d or 0) * 86400 + int(h or 0) * 3600 + int(mi or 0) * 60 + int(sec or 0)) * 1000000 + \
            int(((fr or '') + '000000')[:6])
        us = -us if sg else us
        try:
            want = D.timedelta(microseconds=us)
        except OverflowError:
            continue
        o = observe(prot.from_unicode, Duration, s)
        check.count(('durl', s))
        if o != ('ok', want):
            check.fail('C08|Duration|in_lex', 'xs:duration literal %r read as %r, denotes %r' % (s, o, want), {'text': s})
    # boolean
    bl = ['true', 'false', '1', '0', 'TRUE', 'True', 'FALSE', 'tRuE', '', ' true', 'true ', 'maybe', 'yes', 'no', '2', '01', '00',
          't', 'f', 'truee', '１']
    bc = [('(%s, %s)' % (gtext(s), gbool(prot.from_unicode(Boolean, s)) if s else 'false'), 'from_unicode(Boolean,%r)' % s)
          for s in bl if s]
    lib.correspond(check, 'boolean_read', DT_IMPORTS, 'text * bool',
                   '(fun c => Bool.eqb (boolean_from_unicode (fst c)) (snd c))', bc)
    bp = [('(%s, %s)' % (gbool(b), gtext(prot.to_unicode(Boolean, b))), 'to_unicode(Boolean,%r)' % b) for b in (True, False)]
    lib.correspond(check, 'boolean_print', DT_IMPORTS, 'bool * text',
                   '(fun c => text_eqb (boolean_to_unicode (fst c)) (snd c))', bp)
    for b in (True, False):
        s = prot.to_unicode(Boolean, b)
        check.count(('bool', b))
        if prot.from_unicode(Boolean, s) is not b or not xsd_ok('boolean', s):
            check.fail('C08|Boolean|roundtrip', 'Boolean %r written %r' % (b, s), {'value': b})
    for s, want in (('true', True), ('false', False), ('1', True), ('0', False)):
        if prot.from_unicode(Boolean, s) is not want:
            check.fail('C08|Boolean|in_lex', 'xs:boolean literal %r read as %r' % (s, prot.from_unicode(Boolean, s)), {'text': s})


# ------------------------------------------------------------------ binary family
def family_binary(check, tier):
    from spyne.protocol import ProtocolBase
    from spyne.model.binary import ByteArray, BINARY_ENCODING_BASE64, BINARY_ENCODING_HEX, BINARY_ENCODING_URLSAFE_BASE64
    prot = ProtocolBase()
    rng = check.rng
    blobs = [b'', b'a', b'ab', b'abc', b'abcd', b'\x00', b'\xff', b'\x00\x00\x00', b'\xff\xff\xff', b'\xfb\xff\xbf',
             b'\xfb', b'\xfb\xf0', bytes(range(256)), b'\x3e\x3f', b'\xf8', b'\xfc']
    n = 150 if tier == 'quick' else 3000
    for _ in range(n):
        blobs.append(bytes(rng.randrange(256) for _ in range(rng.choice([1, 2, 3, 4, 5, 6, 7, 30, 31, 32]))))
    encs = (('base64', BINARY_ENCODING_BASE64, 'b64encode false', 'b64decode false', 'base64Binary'),
            ('urlsafe', BINARY_ENCODING_URLSAFE_BASE64, 'b64encode true', 'b64decode true', None),
            ('hex', BINARY_ENCODING_HEX, 'hexlify', 'unhexlify', 'hexBinary'))
    mal = ['YQ', 'Y', 'YQ=', 'YQ==', 'YQ===', 'YQ==YQ==', 'Y Q = =', '*YQ==', 'YQ\n==', '=YQ==', 'Y=Q==', 'YWI=', 'YWJj', 'YWJjZA',
           '====', '=', '', 'YQ=a', 'YWI=x', 'é', 'YQ==é', 'zz', '0', '0g', 'ABCDEF', 'abcdef', '0a 0b', ' 0a', 'a', 'abc',
           '+/+/', '-_-_', '+-/_', 'YW-_', 'YW+/']
    for _ in range(n):
        k = rng.randint(0, 12)
        mal.append(''.join(rng.choice('ABCDabcd0129+/-_= \n*') for _ in range(k)))
    for nm, enc, cenc, cdec, xs in encs:
        pc, rc = [], []
        for b in blobs:
            o = observe(prot.to_unicode, ByteArray, [b], enc)
            pc.append(('(%s, %s)' % (gtext(b), gtext(o[1]) if o[0] == 'ok' else '[0]'), 'to_unicode(ByteArray[%s],%r)=%r' % (nm, b[:8], o)))
            check.count(('binp', nm, b))
            if o[0] == 'ok':
                r = observe(prot.from_unicode, ByteArray, o[1], enc)
                if r[0] != 'ok' or b''.join(r[1]) != b:
                    check.fail('C08|ByteArray|roundtrip|%s' % nm, '%s: %r written %r read back %r' % (nm, b[:16], o[1][:24], r), {'bytes': list(b), 'encoding': nm})
                if xs and not xsd_ok(xs, o[1]):
                    check.fail('C08|ByteArray|out_lex|%s' % nm, '%s text %r is not a valid xs:%s' % (nm, o[1][:24], xs), {'bytes': list(b)})
        lib.correspond(check, 'bin_print_' + nm, DT_IMPORTS, 'list Z * text',
                       '(fun c => text_eqb (%s (fst c)) (snd c))' % cenc, pc, show='(fun c : list Z * text => %s (fst c))' % cenc)
        for s in mal + [prot.to_unicode(ByteArray, [b], enc) for b in blobs[:40]]:
            o = observe(prot.from_unicode, ByteArray, s, enc)
            g = gout(o, lambda t: gtext(b''.join(t)))
            rc.append(('(%s, %s)' % (gtext(s), g), 'from_unicode(ByteArray[%s],%r)->%r' % (nm, s, o)))
            check.count(('binr', nm, s))
        lib.correspond(check, 'bin_read_' + nm, DT_IMPORTS, 'text * out (list Z)',
                       '(fun c => bout_eqb (%s (fst c)) (snd c))' % cdec, rc, show='(fun c : text * out (list Z) => %s (fst c))' % cdec)
    # a ByteArray value is a SEQUENCE of chunks: its text form is that of the concatenation, whatever the
    # chunk boundaries (a non-final chunk whose length is not a multiple of 3 must not be padded on its own)
    for nm, enc, _, _, xs in encs:
        for _ in range(40 if tier == 'quick' else 600):
            chunks = tuple(bytes(rng.randrange(256) for _ in range(rng.choice([0, 1, 2, 2, 4, 5, 7, 8])))
                           for _ in range(rng.randint(2, 4)))
            whole = b''.join(chunks)
            o = observe(prot.to_unicode, ByteArray, chunks, enc)
            w = observe(prot.to_unicode, ByteArray, [whole], enc)
            check.count(('binchunks', nm, chunks))
            if o != w:
                check.fail('C08|ByteArray|chunks|%s' % nm,
                           '%s: chunks %r written %r, their concatenation %r' % (nm, chunks, o, w),
                           {'chunks': [list(c) for c in chunks], 'encoding': nm})
            elif o[0] == 'ok' and xs and not xsd_ok(xs, o[1]):
                check.fail('C08|ByteArray|out_lex|%s' % nm, '%s text %r is not a valid xs:%s' % (nm, o[1][:24], xs),
                           {'chunks': [list(c) for c in chunks]})
    # in-lex oracle: every literal lxml accepts as xs:base64Binary (line-wrapped MIME/PEM style, blanks
    # between the groups) must be read as the bytes it denotes
    import base64 as _b64
    for b in blobs[:60]:
        t = _b64.b64encode(b).decode('ascii')
        variants = set()
        for w in (4, 64, 76):
            variants.add('\n'.join(t[i:i + w] for i in range(0, len(t), w)))
            variants.add('\r\n'.join(t[i:i + w] for i in range(0, len(t), w)))
        variants.add(' '.join(t[i:i + 4] for i in range(0, len(t), 4)))
        variants.add(' ' + t + '\n')
        variants.add('\t' + t)
        for v in sorted(variants):
            if v == t or not xsd_ok('base64Binary', v):
                continue
            o = observe(prot.from_unicode, ByteArray, v, BINARY_ENCODING_BASE64)
            check.count(('binlex', v))
            if o[0] != 'ok' or b''.join(o[1]) != b:
                check.fail('C08|ByteArray|in_lex|base64-whitespace',
                           'xs:base64Binary literal %r (valid per XSD) read as %r instead of %r' % (v[:40], o, b[:16]),
                           {'text': v, 'bytes': list(b)})
    check.sample({'family': 'binary', 'blobs': [list(b) for b in blobs[1:4]], 'malformed': mal[:8]})


# ------------------------------------------------------------------ decimal / double / uuid / unicode (oracle only)
def family_other(check, tier):
    """Double, Unicode, AnyUri: decided by the direct oracle only (round trip + lxml lexical
    validity); these leaf codecs delegate to float() / repr() / str of the standard library and are
    not modelled in Coq (stated in the evidence).  Decimal and Uuid are modelled: c08_ext.py."""
    import decimal, uuid, struct, math
    from spyne.protocol import ProtocolBase
    from spyne.model.primitive import Double, Unicode, AnyUri
    prot = ProtocolBase()
    rng = check.rng
    n = 200 if tier == 'quick' else 4000
    dbls = [0.0, -0.0, 1.0, -1.0, 0.1, 1e22, 1e-5, 1e21, 1e16, 123456789.123456789, 5e-324, 1.7976931348623157e308,
            2.2250738585072014e-308, float('inf'), float('-inf'), float('nan'), 1 / 3.0, 2 ** 53 + 0.0, 1e-7]
    for _ in range(n):
        dbls.append(struct.unpack('<d', struct.pack('<Q', rng.getrandbits(64)))[0])
    for f in dbls:
        s = prot.to_unicode(Double, f)
        o = observe(prot.from_unicode, Double, s)
        check.count(('dbl', repr(f)))
        same = o[0] == 'ok' and ((math.isnan(f) and math.isnan(o[1])) or
                                 (o[1] == f and math.copysign(1, o[1]) == math.copysign(1, f)))
        if not same:
            check.fail('C08|Double|roundtrip', 'Double %r written %r read back %r' % (f, s, o), {'value': repr(f)})
        elif not xsd_ok('double', s):
            shape = 'special-value' if (math.isnan(f) or math.isinf(f)) else 'finite'
            check.fail('C08|Double|out_lex|%s' % shape, 'Double text %r is not a valid xs:double' % s, {'value': repr(f)})
    for lit, want in [('INF', float('inf')), ('-INF', float('-inf')), ('1e3', 1000.0), ('1E3', 1000.0), ('-0', -0.0), ('+1.5', 1.5), ('.5', .5)]:
        o = observe(prot.from_unicode, Double, lit)
        check.count(('dbll', lit))
        if xsd_ok('double', lit) and o != ('ok', want):
            check.fail('C08|Double|in_lex', 'xs:double literal %r read as %r' % (lit, o), {'text': lit})
    texts = ['', 'a', ' lead', 'trail ', 'a\tb', 'ünï', '中文', '\U0001f600', '<&>', 'x' * 300, '\u0000'[:0] + 'q']
    for _ in range(50 if tier == 'quick' else 1000):
        texts.append(''.join(chr(rng.choice([rng.randint(32, 126), rng.randint(0xa0, 0xd7ff), rng.randint(0x10000, 0x10ffff)]))
                             for _ in range(rng.randint(1, 10))))
    for T in (Unicode, AnyUri):
        for t in texts:
            s = prot.to_unicode(T, t)
            o = observe(prot.from_unicode, T, s)
            check.count(('txt', T.__name__, t))
            if t != '' and o != ('ok', t):
                check.fail('C08|%s|roundtrip' % T.__name__, '%s %r written %r read back %r' % (T.__name__, t, s, o), {'value': t})
    check.sample({'family': 'double/unicode (oracle only)', 'doubles': [repr(f) for f in dbls[:6]]})


def run(check):
    tier = check.tier
    check.rule = ('per primitive family: boundary values (all 2^k, 10^k neighbours, fixed-width bounds), '
                  'seeded random values, valid XSD literals from the grammar and a malformed stream; a case is '
                  'distinct by (operation, type, input); for the regular expressions: generated patterns of the '
                  'translated fragment x generated strings (generic matcher vs Python re), and every Spyne pattern x '
                  'the literal streams of its family')
    check.trusted = list(lib.COMMON_TRUSTED) + [
        'translator harness/translate/numtypes.py (validate_native / validate_string / Attributes of number models -> Gen/NumTypes.v)',
        'translator harness/translate/tokens.py (decisive tokens - constants, operators, called methods, except clauses - of the '
        'modelled *_to_unicode / *_from_unicode / ByteArray codec functions -> Gen/Tokens.v, pinned by the Examples of '
        'coq/C08/Pins.v to what the hand-written models transcribe)',
        'translator harness/translate/c08sem.py (symbolic execution of datetime_from_unicode_iso and duration_to_unicode over the '
        'vocabulary of the models -> Gen/C08Sem.v, proved equal to the models in coq/C08/SemTie.v; as_timezone is None by assumption)',
        'translator harness/translate/regexes.py (Python\'s own parse, re._parser.parse, of the date/time/duration/uuid pattern strings '
        'the imported modules compute -> regex ASTs in Gen/Regexes.v; fail closed outside the fragment)',
        'the generic backtracking matcher coq/C08/Regex.v is faithful to Python\'s re on the translated fragment: TRUSTED, sampled on '
        'every run by the correspondence regex_generic (generated patterns x strings) and regex_rx_* (Spyne\'s patterns x literal '
        'streams); \\d is modelled as ASCII [0-9]',
        'modelled, not verified: CPython int()/str() on text, decimal.Decimal str()/constructor (libmpdec), uuid.UUID str()/constructor, '
        'lxml XMLSchema simple-type validation (used as the XSD oracle)',
    ]
    check.assumptions = ['Double (finite values: CPython shortest-repr round trip), Unicode and AnyUri are decided by the direct oracle only (standard-library codecs, not modelled in Coq)',
                         'Unicode decimal digits other than ASCII are outside the modelled universe: int(), Decimal(), int(.,16) and the \\d of a str pattern accept them, the models do not',
                         'str_format/format customisations are opaque (default formats only); Uuid: default serialize_as only; Decimal: default decimal context (capitals=1)',
                         'Decimal values are within the maximal decimal context (dec_in_limits), as every decimal.Decimal object is',
                         'strptime(s, \'%Y-%m-%d\') inside date_from_unicode is CPython\'s own pattern: modelled by the hand-written scan_month / scan_day of DtModel.v (tied by correspondence), not translated']
    check.regen(['numtypes', 'tokens', 'regexes', 'c08sem'])
    check.check_sources()
    check.prove('Props.C08', THEOREMS)
    check.prove('Props.C08_int', ['C08_bounded_plus_sign'])
    check.prove('Props.C08_dt', THEOREMS_DT)
    check.prove('Props.C08_dur', THEOREMS_DUR)
    check.prove('Props.C08_bin', THEOREMS_BIN)
    check.prove('Props.C08_re', THEOREMS_RE)
    check.prove('Props.C08_dec', THEOREMS_DEC)
    check.prove('Props.C08_sem', ['C08_sem_datetime_reader', 'C08_sem_duration_printer'])
    check.prove('Props.C08_uuid', THEOREMS_UUID)
    # decisive tokens of the modelled codec functions, regenerated from the source on every run
    # (Gen/Tokens.v), pinned to what the models transcribe (C08/Pins.v)
    pins = re.findall(r'^Example (pin_\w+)', open(os.path.join(lib.COQ, 'C08', 'Pins.v')).read(), re.M)
    check.prove('C08.Pins', pins)
    family_int(check, tier)
    family_datetime(check, tier)
    family_duration(check, tier)
    family_binary(check, tier)
    c08_ext.family_decimal(check, tier, observe, xsd_ok)
    c08_ext.family_uuid(check, tier, observe, xsd_ok)
    c08_ext.family_regex(check, tier)
    c08_ext.oracle_fraction_in_lex(check, tier, observe, xsd_ok)
    c08_ext.oracle_custom_binary_encoding(check, tier, observe, xsd_ok)
    c08_ext.oracle_plus_sign_integers(check, tier, observe, xsd_ok, INT_TYPES)
    family_other(check, tier)
    lib.flush_correspondences(check)
    return check.finish()


def replay(check, path):
    r = json.load(open(path))
    print(json.dumps(r, indent=1))
    return 0
