"""C08 — primitive text forms are lossless and lie in the XSD lexical space."""
import os, sys, json, decimal
import lib
from lib import gz, gtext, glist, gbool, gopt, gpair

THEOREMS = ['C08_int_text_roundtrip', 'C08_int_out_lex', 'C08_bounded_native_exact',
            'C08_bounded_roundtrip', 'C08_integer_roundtrip', 'C08_integer_in_lex']

INT_TYPES = ['Integer', 'UnsignedInteger', 'PositiveInteger', 'Integer8', 'Integer16', 'Integer32',
             'Integer64', 'UnsignedInteger8', 'UnsignedInteger16', 'UnsignedInteger32', 'UnsignedInteger64']


def gout(o, f):
    """implementation observation -> Coq `out` term"""
    kind = o[0]
    if kind == 'ok':
        return '(Ok %s)' % f(o[1])
    if kind == 'vfault':
        return 'VFault'
    return '(Crash %s)' % o[1]

EXN = {'ValueError': 'ValueError', 'TypeError': 'TypeError', 'AttributeError': 'AttributeError',
       'KeyError': 'KeyError', 'IndexError': 'IndexError', 'OverflowError': 'OverflowError',
       'Error': 'BinasciiError', 'InvalidOperation': 'InvalidOperation',
       'UnicodeDecodeError': 'UnicodeError', 'UnicodeEncodeError': 'UnicodeError',
       'AssertionError': 'AssertionError'}

def observe(fn, *args):
    from spyne.error import ValidationError
    from spyne.model.fault import Fault
    try:
        return ('ok', fn(*args))
    except ValidationError:
        return ('vfault',)
    except Fault as e:
        return ('crash', 'OtherExn')
    except Exception as e:
        return ('crash', EXN.get(type(e).__name__, 'OtherExn'), type(e).__name__)


# ------------------------------------------------------------------ integer family
def int_values(check, tier):
    vals = set([0, 1, -1, 7, 9, 10, 11, 99, 100, 101, -9, -10, -99, -100])
    for k in (7, 8, 15, 16, 31, 32, 63, 64, 100, 128):
        for d in (-2, -1, 0, 1, 2):
            vals.add(2 ** k + d)
            vals.add(-(2 ** k) + d)
    for k in range(1, 40):
        vals.add(10 ** k)
        vals.add(10 ** k - 1)
        vals.add(-(10 ** k))
        vals.add(-(10 ** k) + 1)
    n = 300 if tier == 'quick' else 6000
    for _ in range(n):
        bits = check.rng.choice([4, 8, 9, 16, 17, 32, 33, 64, 65, 200])
        vals.add(check.rng.randint(-(2 ** bits), 2 ** bits))
    return sorted(vals)

def int_literals(check, tier):
    rng = check.rng
    lits = ['0', '-0', '+0', '00', '007', '+7', '-7', ' 7', '7 ', '\t7\n', '', ' ', '+', '-', '--1', '+-1',
            '1_0', '1__0', '_1', '1_', '1.0', '1e3', '0x10', 'abc', '1 2', '\x001', '12a', 'a12', '١٢'[:0] + 'x',
            '127', '128', '-128', '-129', '255', '256', '+255', '0255', '-32768', '-32769', '32767', '32768',
            '65535', '65536', '2147483647', '2147483648', '-2147483648', '-2147483649', '4294967295',
            '4294967296', '9223372036854775807', '9223372036854775808', '-9223372036854775808',
            '-9223372036854775809', '18446744073709551615', '18446744073709551616', '+18446744073709551615',
            '000000000000000000000000000001', '\x0b5', '5\x0c', '\x1c5', '\x855', '\xa05', '5 ', '5　',
            '-', '+ 5', '- 5', '5-', '5+', '0_0', '-0_1', '9' * 30, '-' + '9' * 30, '1' * 1023, '1' * 1024, '1' * 1025]
    n = 300 if tier == 'quick' else 5000
    alphabet = '0123456789' * 4 + '+-_ \t.eaZ'
    for _ in range(n):
        k = rng.randint(1, 24)
        r = rng.random()
        if r < 0.55:
            s = rng.choice(['', '', '-', '+']) + ''.join(rng.choice('0123456789') for _ in range(k))
        elif r < 0.7:
            s = rng.choice(['', ' ', '\n']) + rng.choice(['', '-', '+']) + \
                ''.join(rng.choice('0123456789_') for _ in range(k)) + rng.choice(['', ' ', '\r\n'])
        else:
            s = ''.join(rng.choice(alphabet) for _ in range(k))
        lits.append(s)
    return lits

def family_int(check, tier):
    from spyne.protocol import ProtocolBase
    from spyne.protocol.xml import XmlDocument
    from spyne.model.primitive import number as P
    from lxml import etree
    prot = ProtocolBase()
    xsoft = XmlDocument(validator='soft')
    imports = ('From SpyneV Require Import Base.Prelude Base.Digits Base.Ext C08.IntModel Gen.NumTypes.\n'
               'Definition zout_eqb := out_eqb Z.eqb.')
    vals = int_values(check, tier)
    lits = int_literals(check, tier)
    # 1. printer
    cases = []
    for z in vals:
        o = observe(prot.to_unicode, P.Integer, z)
        if o[0] != 'ok':
            check.fail('C08|Integer|print|crash', 'to_unicode(Integer, %d) raised %r' % (z, o), {'value': z})
            continue
        cases.append(('(%s, %s)' % (gz(z), gtext(o[1])), 'to_unicode(Integer,%d)=%r' % (z, o[1])))
        check.count(('p', z))
    lib.correspond(check, 'int_print', imports, 'Z * text',
                   '(fun c => text_eqb (integer_to_unicode (fst c)) (snd c))', cases,
                   show='(fun c : Z * text => integer_to_unicode (fst c))')
    # 2. reader and validate_native per type
    rcases, ncases = {}, {}
    for tn in INT_TYPES:
        T = getattr(P, tn)
        rc = []
        for s in lits:
            o = observe(prot.from_unicode, T, s)
            rc.append(('(%s, %s)' % (gtext(s), gout(o, gz)), 'from_unicode(%s,%r)->%r' % (tn, s, o)))
            check.count(('r', tn, s), nontrivial=True)
        lib.correspond(check, 'int_read_' + tn, imports, 'text * out Z',
                       '(fun c => zout_eqb (integer_from_unicode attrs_%s (fst c)) (snd c))' % tn, rc,
                       show='(fun c : text * out Z => integer_from_unicode attrs_%s (fst c))' % tn)
        nc = []
        for z in vals:
            o = bool(T.validate_native(T, z))
            nc.append(('(%s, %s)' % (gz(z), gbool(o)), '%s.validate_native(%d)=%r' % (tn, z, o)))
            check.count(('n', tn, z))
        lib.correspond(check, 'int_native_' + tn, imports, 'Z * bool',
                       '(fun c => Bool.eqb (validate_native_%s attrs_%s (fst c)) (snd c))' % (tn, tn), nc)
    check.sample({'family': 'integer', 'print': [str(v) for v in vals[:3]], 'read': lits[:6]})
    # 3. direct oracle on the implementation: round trip + acceptance + XSD lexical validity
    schema_cache = {}
    def xsd_ok(tname, lit):
        if tname not in schema_cache:
            xsd = ('<xs:schema xmlns:xs="http://www.w3.org/2001/XMLSchema"><xs:element name="v" type="xs:%s"/></xs:schema>' % tname)
            schema_cache[tname] = etree.XMLSchema(etree.fromstring(xsd))
        el = etree.Element('v')
        el.text = lit
        return schema_cache[tname].validate(el)
    for tn in INT_TYPES:
        T = getattr(P, tn)
        mb, xb = T.Attributes.min_bound, T.Attributes.max_bound
        if tn == 'UnsignedInteger':
            mb = 0
        if tn == 'PositiveInteger':
            mb = 1
        for z in vals:
            if (mb is not None and z < mb) or (xb is not None and z > xb):
                continue
            s = prot.to_unicode(T, z)
            if len(s) > 1024:
                continue
            key = None
            o = observe(xsoft.from_unicode, T, s)
            if o != ('ok', z):
                key = 'C08|%s|roundtrip|%s' % (tn, 'min' if z == mb else 'max' if z == xb else 'value')
                what = '%s: from_unicode(to_unicode(%d)) gives %r' % (tn, z, o)
            elif not T.validate_native(T, z):
                key = 'C08|%s|validate_native|%s' % (tn, 'min' if z == mb else 'max' if z == xb else 'value')
                what = '%s.validate_native rejects %d, a value of its value space' % (tn, z)
            elif not xsd_ok(T.__type_name__, s):
                key = 'C08|%s|out_lex' % tn
                what = '%s: text %r is not a valid xs:%s literal' % (tn, s, T.__type_name__)
            check.count(('o', tn, z))
            if key:
                check.fail(key, what, {'type': tn, 'value': z, 'text': s})


def run(check):
    tier = check.tier
    check.rule = ('per primitive family: boundary values (all 2^k, 10^k neighbours, fixed-width bounds), '
                  'seeded random values, valid XSD literals from the grammar and a malformed stream; a case is '
                  'distinct by (operation, type, input)')
    check.trusted = list(lib.COMMON_TRUSTED) + [
        'translator harness/translate/numtypes.py (validate_native / validate_string / Attributes of number models -> Gen/NumTypes.v)',
        'modelled, not verified: CPython int()/str() on text, lxml XMLSchema simple-type validation (used as the XSD oracle)',
    ]
    check.assumptions = ['Unicode decimal digits other than ASCII are outside the modelled int() universe',
                         'str_format/format customisations are opaque (default formats only)']
    check.regen(['numtypes'])
    check.check_sources()
    check.prove('Props.C08', THEOREMS)
    family_int(check, tier)
    lib.flush_correspondences(check)
    return check.finish()


def replay(check, path):
    r = json.load(open(path))
    print(json.dumps(r, indent=1))
    return 0
