"""C10 — request generators.  Every random choice comes from the rng passed in.

Two streams:
  * structured: a valid request for a random method of the service description, with 0..3
    structure-aware mutations (leaf corruption, deletion, duplication, unknown members, wrong
    value kinds, wrong nesting, empty bodies, xsi:nil / xsi:type / id / href attributes,
    entity references), rendered for every protocol;
  * malformed: truncations and byte corruption of valid requests, random bytes, and a fixed
    corpus of inputs that defeat parsers (bad UTF-8, deep nesting, duplicate keys, huge
    numbers, wrong container kinds at the top, unknown methods, YAML tags, msgpack extension
    types) plus the transport-level variations for WSGI (Content-Type, charset, method, path,
    Content-Length).
"""
import copy, json

S11 = 'http://schemas.xmlsoap.org/soap/envelope/'
S12 = 'http://www.w3.org/2003/05/soap-envelope'
XSI = 'http://www.w3.org/2001/XMLSchema-instance'
XS = 'http://www.w3.org/2001/XMLSchema'
TNS = 'tns'

VALID_LEAF = {
    'int': [5, 0, -7, 2 ** 70], 'int32': [5, -2147483648], 'u8': [0, 255], 'text': ['x', 'hello', 'ünï', ''],
    'text10': ['hello'], 'pattern': ['abc'], 'bool': [True, False],
    'datetime': ['2020-01-02T03:04:05', '2020-01-02T03:04:05Z', '2020-01-02T03:04:05.25+02:00', '0001-01-01T00:00:00Z'],
    'date': ['2020-01-02', '2020-01-02Z'], 'time': ['03:04:05', '23:59:59.999999'],
    'duration': ['P1D', 'PT0.5S', '-P1DT2H'], 'bytes': ['YWJj', ''], 'hex': ['6162'], 'urlsafe': ['YWJj', 'Pz8_-w==', ''], 'b64': ['YWJj', 'Pz8/+w=='],
    'file': ['YWJj'], 'fileurl': ['YWJj'], 'filehex': ['6162'], 'decimal': ['1.5', '-0'],
    'double': [2.5, 1e300], 'uuid': ['12345678-1234-5678-1234-567812345678'], 'enum': ['red', 'green'],
    'anydict': [{'a': 1}], 'anyxml': ['<a/>'],
}

JUNK = ['\x00', '\x0b', '\ud800x', None, True, False, 0, 1, -1, 2 ** 70, -2 ** 70, 1.5, 1.0, float('inf'), float('-inf'), float('nan'), '', 'abc', '13',
        '2020-13-45', '2020-01-02T25:61:61', '25:00:00', '2020-01-02T03:04:05+99:00', '2020-01-02T03:04:05-24:00',
        'P99999999999D', '====', 'YQ', 'é', [], [1], [[1]], {}, {'a': 1}, {'x': {'y': {}}}, ['a', 'b'], [None], {'a': [1]},
        '1e400', 'NaN', '-0', '1_0', ' 5 ', '0x10', 'P', 'PT', '-', '9' * 1100, '2020-02-30', '0000-01-01', '99999-01-01',
        '2020-01-02+25:00', '12345678-1234-5678-1234-56781234567', '{', 'true', 'maybe', '2020-01-02T03:04:05.9999999',
        '24:00:00', '03:04:60', '12:00:00.', 'red', 'blue', '__class__', '%s%s', '%', '5%', '0001-01-01T00:00:00+14:00',
        '9999-12-31T23:59:59-14:00', b'abc', b'\xff', b'2020-01-02', b'12']


# hostile literals per primitive kind: the boundaries of each reader
_DT = ['2020-13-01T00:00:00', '2020-00-10T00:00:00', '2020-02-30T00:00:00', '2021-02-29T00:00:00Z', '2020-01-02T24:00:00',
       '2020-01-02T25:00:00Z', '2020-01-02T23:60:00', '2020-01-02T23:59:60', '2020-01-02T03:04:05+24:00',
       '2020-01-02T03:04:05-24:00', '2020-01-02T03:04:05+99:59', '2020-01-02T03:04:05+14:00', '0000-01-01T00:00:00',
       '0001-01-01T00:00:00+14:00', '9999-12-31T23:59:59-14:00', '2020-01-02T03:04:05.9999999', '2020-01-02T03:04:05Zjunk',
       '2020-01-02', 'abc', '', '2020-01-02T03:04', '20200102T030405']
KIND_JUNK = {
    'datetime': _DT,
    'date': ['2020-13-01', '2020-02-30', '2020-02-30Z', '2021-02-29+01:00', '0000-01-01', '2020-00-00Z', '2020-1-5', 'abc', '',
             '2020-01-02T00:00:00', '2020-01-02+25:00'],
    'time': ['24:00:00', '25:00:00', '23:60:00', '23:59:60', '12:00:00.', '12:00', 'abc', '', '99:99:99', '23:59:59.9999999'],
    'duration': ['P99999999999D', '-P999999999DT1S', 'PT1x5S', 'P', 'PT', 'xyz', '', 'P1S', 'P1Y2M3DT4H5M6.7S', 'PT1e3S'],
    'int': ['', 'abc', '1.0', '1e3', '0x10', '1_0', ' 5', '+5', '-', '9' * 1100, '9' * 5000, 'NaN', 'Infinity'],
    'int32': ['2147483648', '-2147483649', 'abc', '', '1.5'], 'u8': ['256', '-1', 'abc', ''],
    'decimal': ['NaN', 'sNaN', 'Infinity', '-Infinity', 'abc', '', '1e999999999', '1' * 2000, '1.5.5', '%s', '0x1'],
    'double': ['NaN', 'inf', '-inf', '1e999', 'abc', '', '0x1p3', '1_0', '%'],
    'bool': ['maybe', '', 'TRUE', '2', 'yes'], 'bytes': ['====', 'YQ', 'Y', 'YQ=', '\u00e9', '%%%', ''],
    'hex': ['6', 'zz', '61 62', '', '6é', 'YWJj'], 'urlsafe': ['====', 'YQ', 'Y', 'YQ=', 'é', '%%%', 'Pz8/+w==', 'A' * 101],
    'b64': ['====', 'YQ', 'Y', 'é', 'Pz8_-w=='], 'file': ['====', 'YQ', 'Y', 'é', '', 'A' * 101],
    'fileurl': ['====', 'YQ', 'Y', 'é', '', 'A' * 101], 'filehex': ['6', 'zz', ''], 'uuid': ['12345678-1234-5678-1234-56781234567', 'abc', '', '{' * 40, 'urn:uuid:zz'],
    'enum': ['blue', '', '__class__', '__init__', 'RED', 'red '], 'text': ['', '\x00' if False else 'x' * 5000],
    'text10': ['x' * 11, ''], 'pattern': ['ABC', '', 'abc1'], 'anydict': ['abc', '', '{'], 'anyxml': ['<a', '', 'abc', '<a/><b/>'],
}
# length as a dimension: malformed / hostile literals of 1, 99, 100, 101, 1000 and 70000 characters.  Readers
# abbreviate, truncate or pre-check long values (max_str_len, value[:100] + "(...)", fault strings) on paths
# that short literals never reach.
LENGTHS = (1, 99, 100, 101, 1000, 70000)
_UNITS = {
    # unit strings repeated (and cut) to the length; every one is malformed for some reader at some length
    'all': ['A', '=', '9', '%s', ' ', 'é', '-', '{'],
    'binary': ['A', '=', 'A=', '_-', '+/', 'zz', '0', '6', 'Yé', '%', '\n', 'AAAA='],
    'number': ['9', '-9', '9.', '1e', '0x', '9_', '٣'],
    'date': ['2020-01-02T03:04:05.', '2020-', '0', '9', 'Z', '+00:00', 'P1D', 'PT', '1S', ':'],
    'text': ['a', 'A', 'é', '😀', ']]>', '&amp;', 'a b'],
}
_UNIT_CLASSES = {'bytes': 'binary', 'hex': 'binary', 'urlsafe': 'binary', 'b64': 'binary', 'file': 'binary', 'fileurl': 'binary', 'filehex': 'binary',
                 'int': 'number', 'int32': 'number', 'u8': 'number', 'decimal': 'number', 'double': 'number',
                 'datetime': 'date', 'date': 'date', 'time': 'date', 'duration': 'date',
                 'text': 'text', 'text10': 'text', 'pattern': 'text', 'enum': 'text', 'uuid': 'binary', 'bool': 'text',
                 'anydict': 'text', 'anyxml': 'text'}
_PREFIXES = {'datetime': ['', '2020-01-02T03:04:05.', '2020-01-02T03:04:05+'], 'date': ['', '2020-01-02'], 'time': ['', '03:04:05.'],
             'duration': ['', 'P', 'PT', 'PT0.'], 'decimal': ['', '1.', '1e'], 'double': ['', '1.', '1e'], 'int': ['', '-'],
             'uuid': ['', '12345678-1234-5678-1234-5678'], 'enum': ['', 'red']}


def is_binary_kind(kind):
    return _UNIT_CLASSES.get(kind) == 'binary' and kind != 'uuid'


_BINARY_CORE = ['A', '=', 'zz', '0', 'Yé']      # 4n+1 data characters / padding only / not hex / odd hex / non-ASCII


def long_literals(rng, kind, every=False):
    """hostile literals of each length in LENGTHS for the leaf kind.  The binary kinds always get the core units
    at every length (their decoders have length-dependent error paths) and two more drawn by rng; the others get
    every length with one unit of their class and one general unit drawn by rng.  All units when [every]."""
    cls_units = list(_UNITS[_UNIT_CLASSES.get(kind, 'text')])
    rest = [u for u in cls_units + _UNITS['all'] if u not in _BINARY_CORE]
    out = []
    for n in LENGTHS:
        if every:
            units = cls_units + [u for u in _UNITS['all'] if u not in cls_units]
        elif is_binary_kind(kind):
            units = (_BINARY_CORE if n < 70000 else _BINARY_CORE[:2]) + rng.sample(rest, 2 if n < 70000 else 1)
        else:
            units = [rng.choice(cls_units), rng.choice(_UNITS['all'])]
        for u in units:
            pre = rng.choice(_PREFIXES.get(kind, [''])) if not is_binary_kind(kind) else ''
            lit = pre + (u * (n // len(u) + 1))[:max(0, n - len(pre))]
            if lit not in out:
                out.append(lit)
    return out


GENERAL_JUNK = ['\x00', 'a\x01b', '\ud800', '\ufffe', '&#1;', None, True, 0, -1, 2 ** 70, 1.5, float('inf'), float('nan'), [], [1], {}, {'a': 1}, ['a', 'b'], [None], b'abc',
                b'\xff', b'2020-01-02', '%s%s', '5%']


def gen_value_for_method(rng, desc, method, path):
    """valid arguments of the method in which the path exists"""
    params = dict(desc['methods'])[method]
    for _ in range(50):
        args = dict((pn, gen_value(rng, desc, ty)) for pn, ty in params)
        try:
            d = args
            for x in path[:-1]:
                d = d[x]
            if isinstance(d, dict):
                return args
        except (KeyError, IndexError, TypeError):
            continue
    # build the spine by hand
    args = dict((pn, gen_value(rng, desc, ty)) for pn, ty in params)
    d = args
    for i, x in enumerate(path[:-1]):
        nxt = path[i + 1]
        want = [{}] if nxt == 0 else {}
        if isinstance(x, int):
            while len(d) <= x:
                d.append({})
            if not isinstance(d[x], (dict, list)):
                d[x] = want
            d = d[x]
        else:
            if not isinstance(d.get(x), (dict, list)):
                d[x] = want
            d = d[x]
    return args


def put_at(args, path, value):
    d = args
    for x in path[:-1]:
        d = d[x]
    d[path[-1]] = value
    return args


def classes_of(desc):
    return dict(desc['classes'])


def gen_leaf(rng, kind):
    return copy.deepcopy(rng.choice(VALID_LEAF[kind]))


def gen_value(rng, desc, ty, depth=3):
    if ty[0] == 'leaf':
        return gen_leaf(rng, ty[1])
    if ty[0] == 'enum':
        return gen_leaf(rng, 'enum')
    if ty[0] == 'arr':
        return [gen_value(rng, desc, ty[1], depth - 1) for _ in range(rng.randint(0, 2))]
    fields = classes_of(desc)[ty[1]]
    out = {}
    for fn, fty, kw, kind in fields:
        mx = kw.get('max_occurs', 1)
        mn = kw.get('min_occurs', 0)
        if mn == 0 and rng.random() < 0.3:
            continue
        if mx != 1:
            out[fn] = [gen_value(rng, desc, fty, depth - 1) for _ in range(rng.randint(max(mn, 0), 2))]
        else:
            out[fn] = gen_value(rng, desc, fty, depth - 1)
    return out


class Bare(object):
    """the single argument of a bare method"""
    def __init__(self, value, ty):
        self.value, self.ty = value, ty


def gen_request(rng, desc):
    """-> (method name, {param: value})  or  (method name, Bare(value, ty)) for a bare method"""
    bare = desc.get('bare', [])
    if bare and rng.random() < len(bare) / float(len(bare) + 2 * len(desc['methods'])):
        m, ty = rng.choice(bare)
        return m, Bare(gen_value(rng, desc, ty), ty)
    m, params = rng.choice(desc['methods'])
    return m, dict((pn, gen_value(rng, desc, ty)) for pn, ty in params)


def doc_of(m, args):
    return {m: copy.deepcopy(args.value if isinstance(args, Bare) else args)}


def field_index(desc):
    """(class or method name, field) -> (ty, kw, kind)"""
    idx = {}
    for cn, fields in desc['classes']:
        for fn, fty, kw, kind in fields:
            idx[cn, fn] = (fty, kw, kind)
    for m, params in desc['methods']:
        for pn, ty in params:
            idx[m, pn] = (ty, {}, 'elem')
    return idx


# ------------------------------------------------------------------ dict documents
def paths(d, pre=()):
    out = [pre]
    if isinstance(d, dict):
        for k, v in d.items():
            out += paths(v, pre + (k,))
    elif isinstance(d, list):
        for i, v in enumerate(d):
            out += paths(v, pre + (i,))
    return out

def getp(d, p):
    for x in p:
        d = d[x]
    return d

def setp(d, p, v):
    if not p:
        return v
    d[p[0]] = setp(d[p[0]], p[1:], v)
    return d

def delp(d, p):
    if len(p) == 1:
        del d[p[0]]
        return d
    delp(d[p[0]], p[1:])
    return d


def mutate_doc(rng, d):
    ps = paths(d)
    k = rng.random()
    p = rng.choice(ps)
    if k < .55:
        return setp(d, p, copy.deepcopy(rng.choice(JUNK)))
    if k < .68 and p:
        return delp(d, p)
    if k < .80:
        q = [x for x in ps if isinstance(getp(d, x), dict)]
        if q:
            t = getp(d, rng.choice(q))
            t[rng.choice(['zz', 5, '', 'a', 'o', None, True, b'i', b'\xff', 1.5])] = copy.deepcopy(rng.choice(JUNK))
        return d
    if k < .86:
        return [d]
    if k < .92:
        return setp(d, p, {'w': copy.deepcopy(getp(d, p))})
    v = getp(d, p)
    return setp(d, p, [copy.deepcopy(v), copy.deepcopy(v)])


def norm_keys(d, to_bytes=False):
    """msgpack: the method key and class-name lookups want bytes keys at the top"""
    return d


def render_dict(proto, doc, rng=None):
    """-> bytes, or None when the document cannot be written in this protocol"""
    import math
    try:
        if proto == 'json':
            def conv(x):
                if isinstance(x, bytes):
                    return x.decode('latin-1')
                if isinstance(x, dict):
                    return dict((k if isinstance(k, str) else (k.decode('latin-1') if isinstance(k, bytes) else json.dumps(k)), conv(v))
                                for k, v in x.items())
                if isinstance(x, list):
                    return [conv(v) for v in x]
                return x
            return json.dumps(conv(doc)).encode('utf8')
        if proto == 'yaml':
            import yaml
            return yaml.safe_dump(doc, allow_unicode=True).encode('utf8')
        import msgpack
        def big(x):
            if isinstance(x, dict):
                return dict((k, big(v)) for k, v in x.items())
            if isinstance(x, list):
                return [big(v) for v in x]
            if isinstance(x, int) and not isinstance(x, bool) and not (-2 ** 63 <= x < 2 ** 64):
                return str(x)
            return x
        return msgpack.packb(big(doc), use_bin_type=True)
    except Exception:
        return None


def msgpack_top(doc):
    """the documented request form of MessagePackDocument: the method key is a bin"""
    if isinstance(doc, dict) and len(doc) == 1:
        (k, v), = doc.items()
        if isinstance(k, str):
            return {k.encode('utf8'): v}
    return doc


# ------------------------------------------------------------------ XML
def xml_text(v):
    if v is True:
        return 'true'
    if v is False:
        return 'false'
    if isinstance(v, bytes):
        return v.decode('latin-1')
    if isinstance(v, float):
        return repr(v)
    return str(v)


def _clean(s):
    return ''.join(c for c in s if c in '\t\n\r' or (ord(c) >= 0x20 and not 0xD800 <= ord(c) < 0xE000 and ord(c) not in (0xFFFE, 0xFFFF)))


def render_xml(desc, method, args, soap_ns=None):
    """a valid request as an lxml tree"""
    from lxml import etree
    idx = field_index(desc)
    ns = '{%s}' % TNS
    root = etree.Element(ns + method, nsmap={None: TNS, 'xsi': XSI, 'xs': XS, 't': TNS})

    def fill(e, owner, v):
        if isinstance(v, dict):
            for k, x in v.items():
                fty, kw, kind = idx.get((owner, k), (('leaf', 'text'), {}, 'elem'))
                if kind == 'attr':
                    e.set(k, _clean(xml_text(x)))
                    continue
                multi = kw.get('max_occurs', 1) != 1
                items = x if (multi and isinstance(x, list)) else [x]
                for it in items:
                    c = etree.SubElement(e, ns + k)
                    put(c, fty, it)
        elif v is not None:
            e.text = _clean(xml_text(v))

    def put(c, ty, v):
        if ty[0] == 'arr' and isinstance(v, list):
            tag = {'leaf': {'int': 'integer', 'text': 'string'}.get(ty[1][1] if ty[1][0] == 'leaf' else '', 'item'),
                   'ref': ty[1][1] if ty[1][0] == 'ref' else 'item', 'enum': 'Color', 'arr': 'item'}[ty[1][0]]
            for it in v:
                put(etree.SubElement(c, ns + tag), ty[1], it)
        elif ty[0] == 'ref' and isinstance(v, dict):
            fill(c, ty[1], v)
        elif isinstance(v, (dict, list)):
            c.text = _clean(json.dumps(v, default=repr))
        elif v is None:
            c.set('{%s}nil' % XSI, 'true')
        else:
            c.text = _clean(xml_text(v))
    if isinstance(args, Bare):
        if args.value is not None:
            put(root, args.ty, args.value)
    else:
        fill(root, method, args)
    if soap_ns:
        env = etree.Element('{%s}Envelope' % soap_ns, nsmap={'e': soap_ns})
        if False:
            etree.SubElement(env, '{%s}Header' % soap_ns)
        b = etree.SubElement(env, '{%s}Body' % soap_ns)
        b.append(root)
        root = env
    return root


XML_JUNK_TEXT = ['&#1;', '&#0;', '&#xD800;', '&#11;x', None, '', 'abc', '13', '2020-13-45', '2020-01-02T25:61:61', '25:00:00', '2020-01-02T03:04:05+99:00',
                 'P99999999999D', '====', 'YQ', 'é', '1e400', 'NaN', '-0', '1_0', ' 5 ', '0x10', 'P', 'PT', '9' * 1100,
                 '2020-02-30', '0000-01-01', '2020-01-02+25:00', 'true', 'maybe', '24:00:00', '03:04:60', '12:00:00.',
                 'blue', '__class__', '%s%s', '5%', '0001-01-01T00:00:00+14:00', '9999-12-31T23:59:59-14:00', 'red',
                 '2020-01-02T03:04:05', '5', 'P1D', '03:04:05', '2020-01-02']
XSI_TYPES = ['t:Inner', 't:Outer', 'xs:integer', 'xs:string', 'xs:dateTime', 'xs:date', 'Inner', 'zz:Inner', ':Inner',
             't:integerArray', 't:InnerArray', 't:stringArray', 't:XmlAttribute', 't:f', 't:g', 't:h', 't:fResponse',
             't:Color', 'xs:boolean', 'xs:base64Binary', 'xs:duration', 'xs:time', 't:Nope', 'xsi:nil', '', ':']


def mutate_xml(rng, root, desc):
    """one structure-aware mutation of an lxml tree, in place; returns the (possibly new) root"""
    from lxml import etree
    els = [e for e in root.iter() if isinstance(e.tag, str)]
    e = rng.choice(els)
    names = sorted(set(fn for (_, fn) in field_index(desc)))
    k = rng.random()
    if k < .38:
        e.text = rng.choice(XML_JUNK_TEXT)
        if rng.random() < .25:
            for c in list(e):
                e.remove(c)
    elif k < .46:
        if e.getparent() is not None:
            e.getparent().remove(e)
    elif k < .54:
        if e.getparent() is not None:
            e.getparent().append(copy.deepcopy(e))
    elif k < .60:
        e.tag = rng.choice(['zz', '{other}' + etree.QName(e).localname, '{%s}Fault' % S11, '{%s}Header' % S11,
                            '{%s}Body' % S11, '{%s}Envelope' % S11, '{%s}%s' % (TNS, rng.choice(names)),
                            etree.QName(e).localname])
    elif k < .70:
        e.set('{%s}type' % XSI, rng.choice(XSI_TYPES))
    elif k < .76:
        e.set('{%s}nil' % XSI, rng.choice(['true', '1', 'false', '0', 'TRUE', 'x', '']))
    elif k < .84:
        e.set(rng.choice(names + ['zz', 'id', 'href', '{%s}at' % TNS]), rng.choice(['1', 'abc', 'true', '#a', 'a', '', '9' * 1100]))
    elif k < .92:
        c = etree.SubElement(e, '{%s}%s' % (TNS, rng.choice(names + ['zz'])))
        c.text = rng.choice(XML_JUNK_TEXT)
    else:
        e.text = 'x'
        for c in e:
            c.tail = 'junk'
    return root


def with_entity(body, where_tag):
    """an internal subset declaring an entity and a reference to it in front of the children of the
    first element named where_tag (resolve_entities=False leaves the reference as a node)"""
    marker = ('<%s' % where_tag).encode()
    i = body.find(marker)
    if i < 0:
        return None
    j = body.find(b'>', i)
    if j < 0 or body[j - 1:j] == b'/':
        return None
    return b'<!DOCTYPE x [<!ENTITY ent "y">]>' + body[:j + 1] + b'&ent;' + body[j + 1:]


# ------------------------------------------------------------------ HttpRpc
def render_qs(method, args):
    from urllib.parse import quote
    pairs = []
    def walk(prefix, v):
        if isinstance(v, dict):
            for k, x in v.items():
                walk('%s.%s' % (prefix, k) if prefix else str(k), x)
        elif isinstance(v, list):
            for i, x in enumerate(v):
                if isinstance(x, (dict, list)):
                    walk('%s[%d]' % (prefix, i), x)
                else:
                    walk(prefix, x)
        elif v is not None:
            pairs.append('%s=%s' % (quote(prefix), quote(xml_text(v))))
    walk('', args)
    return '&'.join(pairs)


QS_JUNK = ['', 'i', '=', '&&&', 'i=%ff', '%', 'i=1;s=2', 'i=+', 'i.x=1', 'i[0]=1', 'i[abc]=1', 'i[-1]=1',
           'i[99999999999999999999]=1', 's[1]=a&s[0]=b', 'o=1', 'o.inner=5', 'o.arr[0].x=1', 'o[0].i=1', 'o.i.=1',
           'o..i=1', '.=1', 'o.=1', 'o.minner[1].a=1', 'o.minner[0]=1', 'o.arr.integer=1', 'zz=1', 'o.zz=1']


# ------------------------------------------------------------------ byte level
def truncations(rng, body, n):
    if len(body) <= n:
        return [body[:i] for i in range(len(body))]
    return [body[:i] for i in sorted(rng.sample(range(len(body)), n))]


def corrupt(rng, body):
    if not body:
        return b'\x00'
    k = rng.random()
    i = rng.randrange(len(body))
    if k < .4:
        return body[:i] + bytes([rng.randrange(256)]) + body[i + 1:]
    if k < .6:
        return body[:i] + body[i + 1:]
    if k < .8:
        return body[:i] + bytes([rng.randrange(256)]) + body[i:]
    j = rng.randrange(len(body))
    i, j = min(i, j), max(i, j)
    return body[:i] + body[i:j] + body[i:j] + body[j:]


def random_bytes(rng, n):
    return bytes(rng.randrange(256) for _ in range(n))


def env11(inner):
    return ('<e:Envelope xmlns:e="%s"><e:Body>%s</e:Body></e:Envelope>' % (S11, inner)).encode()

def env12(inner):
    return ('<e:Envelope xmlns:e="%s"><e:Body>%s</e:Body></e:Envelope>' % (S12, inner)).encode()


CORPUS = {
    'xml': [b'', b'\x00', b'<', b'<a', b'<a/>', b'<a>&x;</a>', b'\xff\xfe<\x00a\x00/\x00>\x00',
            b'<?xml version="1.0" encoding="bogus"?><a/>', b'<a>' * 300 + b'</a>' * 300,
            b'<?xml version="1.0" encoding="utf-8"?><a>\xff</a>',
            b'<!DOCTYPE a [<!ENTITY x "y">]><f xmlns="tns"><o>&x;</o></f>',
            b'<!DOCTYPE a [<!ENTITY x "y">]><f xmlns="tns"><o>&x;<i>1</i></o></f>',
            b'<!DOCTYPE a [<!ENTITY x "y">]><f xmlns="tns"><o><arr>&x;<integer>1</integer></arr><inner>&x;</inner></o></f>',
            b'<!DOCTYPE a [<!ENTITY x "y">]><g xmlns="tns"><i>1&x;2</i></g>',
            b'<f xmlns="tns"><o><!--c--><i>1</i><?p x?></o></f>', b' <a/>', b'\xef\xbb\xbf<h xmlns="tns"/>',
            b'<a/><b/>', b'<a xmlns:x=""/>', b'<h xmlns="tns"/>', b'<h/>', b'<h xmlns="other"/>', b'<H xmlns="tns"/>',
            b'<h xmlns="tns">text<zz/></h>', b'<f xmlns="tns"><o><i x="1">5</i><inner s="" a="x"><a>1</a></inner></o></f>',
            b'<f xmlns="tns"><o at="abc"/></f>', b'<f xmlns="tns"><o><at>5</at></o></f>', b'<f xmlns="tns"><o><at>x</at></o></f>',
            b'<f xmlns="tns"><o at="5"><at>x</at><m>1</m></o></f>', b'<f xmlns="tns"><o at="5"><at>6</at><at/><m>1</m></o></f>',
            b'<f xmlns="tns" xmlns:xsi="http://www.w3.org/2001/XMLSchema-instance" xmlns:t="tns" xsi:type="t:Inner"><o/></f>',
            b'<g xmlns="tns" xmlns:xsi="http://www.w3.org/2001/XMLSchema-instance" xmlns:t="tns" xsi:type="t:XmlAttribute">5</g>',
            b'<g xmlns="tns" xmlns:xsi="http://www.w3.org/2001/XMLSchema-instance" xmlns:t="tns"><i xsi:type="t:Outer"><m>1</m></i></g>',
            b'<g xmlns="tns" xmlns:xsi="http://www.w3.org/2001/XMLSchema-instance" xsi:nil="true"/>',
            b'<g xmlns="tns"><dt>0001-01-01T00:00:00+14:00</dt></g>', b'<g xmlns="tns"><i>' + b'9' * 5000 + b'</i></g>',
            b'<bi xmlns="tns"/>', b'<bi xmlns="tns" xmlns:xsi="http://www.w3.org/2001/XMLSchema-instance" xsi:nil="true"/>',
            b'<bi xmlns="tns">x</bi>', b'<bi xmlns="tns"><zz/></bi>', b'<ba xmlns="tns"/>', b'<ba xmlns="tns"><integer>x</integer></ba>',
            b'<bc xmlns="tns"/>', b'<bc xmlns="tns" xmlns:xsi="http://www.w3.org/2001/XMLSchema-instance" xsi:nil="true"/>',
            b'<bd xmlns="tns">2020-13-45T00:00:00</bd>', b'<bt xmlns="tns"/>', b'<g xmlns="tns"><i>&amp;#1;<zz/></i></g>',
            b'<f xmlns="tns"><o><m/></o></f>', b'<f xmlns="tns"><o><e/></o></f>', b'<f xmlns="tns"><o><e>blue</e></o></f>'],
    'soap11': [b'', env11(''), env11('text'), env11('<e:Fault><faultcode>x</faultcode><faultstring>y</faultstring></e:Fault>'),
               env11('<e:Fault/>'), ('<e:Envelope xmlns:e="%s"><e:Header/></e:Envelope>' % S11).encode(),
               ('<e:Envelope xmlns:e="%s"/>' % S11).encode(), b'<Envelope><Body><h xmlns="tns"/></Body></Envelope>',
               ('<e:Envelope xmlns:e="%s"><e:Body><h xmlns="tns"/></e:Body></e:Envelope>' % S12).encode(),
               ('<e:Envelope xmlns:e="%s"><e:Header><x/></e:Header><e:Body><h xmlns="tns"/></e:Body></e:Envelope>' % S11).encode(),
               ('<e:Envelope xmlns:e="%s"><e:Body/><e:Body><h xmlns="tns"/></e:Body></e:Envelope>' % S11).encode(),
               ('<!DOCTYPE a [<!ENTITY x "y">]><e:Envelope xmlns:e="%s"><e:Body>&x;<h xmlns="tns"/></e:Body></e:Envelope>' % S11).encode(),
               ('<!DOCTYPE a [<!ENTITY x "y">]><e:Envelope xmlns:e="%s"><e:Body>&x;</e:Body></e:Envelope>' % S11).encode(),
               env11('<h xmlns="tns" href="#zz"/><a href="#q"/>'),
               env11('<g xmlns="tns"><i href="#a"/></g><x id="a" href="#a"><y href="#a"/></x>'),
               env11('<g xmlns="tns"><i href="#a"/><x id="a"><y href="#a"/></x></g>'),
               env11('<g xmlns="tns" id="a"><i href="#a"/></g>'), env11('<g xmlns="tns"><i href="#zz"/><s id="q">x</s></g>'),
               env11('<g xmlns="tns"><i href="#b"/></g><multiRef id="b">5</multiRef>'),
               env11('<g xmlns="tns"><i href="#b"/></g>' + ''.join('<m id="%s" ><c href="#%s"/></m>' % (chr(98 + i), chr(99 + i)) for i in range(20))),
               env11('<zz/>'), env11('<h/>'), b'<h xmlns="tns"/>'],
    'json': [b'', b'{', b'\xff', b'[' * 100000, b'[' * 3000 + b']' * 3000, b'{"a":' * 100000, b'nul', b'NaN', b'1e999',
             b'"\\ud800"', b'{"f":1,"f":2}', b'{"f":{"o":{"i":1,"i":"x"}}}', b'\xef\xbb\xbf{}', b'{"h":{}} x', b'1' * 5000,
             b'[1,2', b'"abc', b'{"h": {}}\x00', b'{}', b'[]', b'null', b'true', b'5', b'"h"', b'{"h":{},"g":{}}',
             b'{"bi": null}', b'{"bi": 5}', b'{"bi": [1]}', b'{"bi": "x"}', b'{"bi": {"bi": 5}}', b'{"ba": null}', b'{"ba": 5}',
             b'{"ba": [1, "x"]}', b'{"bc": null}', b'{"bc": 5}', b'{"bc": {"a": "x"}}', b'{"bd": "\\u0000"}', b'{"bt": 5}',
             b'{"g": {"dt": "\\u0000"}}', b'{"g": {"s": "\\ud800"}}',
             b'{"\\u0000": {}}', b'{"\\ud800": {}}', b'{"h\\u0001": {}}', b'{"f": {"o": {"\\u0000": 1, "e": "\\u0000", "u": "\\u0001"}}}',
             b'{"zz":{}}', b'{"":{}}', b'{"H":{}}', b'{"g": null}', b'{"f": null}', b'{"h": null}', b'{"h": 5}', b'{"h": [1]}',
             b'{"f": 5}', b'{"f": "x"}', b'{"f": [1,2,3]}', b'{"f": {"o": 5}}', b'{"f": {"o": "abc"}}', b'{"f": {"o": [1,2,3]}}',
             b'{"f": {"o": {"i": NaN}}}', b'{"f": {"o": {"i": Infinity}}}', b'{"f": {"o": {"i": 1e400}}}',
             b'{"f": {"o": {"i": 2.5}}}', b'{"f": {"o": {"i": 99999999999999999999}}}', b'{"f": {"o": {"multi": 5}}}',
             b'{"f": {"o": {"multi": null}}}', b'{"f": {"o": {"multi": "12"}}}', b'{"f": {"o": {"multi": {"a": 1}}}}',
             b'{"f": {"o": {"arr": 5}}}', b'{"f": {"o": {"arr": {"a": 1}}}}', b'{"f": {"o": {"arr": "12"}}}',
             b'{"f": {"o": {"inner": 5}}}', b'{"f": {"o": {"inner": [1,2,3]}}}', b'{"f": {"o": {"inner": "ab"}}}',
             b'{"f": {"o": {"minner": {"a": 1}}}}', b'{"f": {"o": {"b": "true"}}}', b'{"f": {"o": {"b": 1}}}',
             b'{"f": {"o": {"b": 2}}}', b'{"f": {"o": {"b": []}}}', b'{"f": {"o": {"s": 5}}}', b'{"f": {"o": {"ba": 5}}}',
             b'{"f": {"o": {"ba": ["YQ=="]}}}', b'{"f": {"o": {"e": "__init__"}}}', b'{"f": {"o": {"e": 5}}}',
             b'{"f": {"o": {"e": ["red"]}}}', b'{"f": {"o": {"at": [1]}}}', b'{"f": {"o": {"at": Infinity}}}',
             b'{"f": {"o": {"at": "x"}}}', b'{"g": {"dt": null}}', b'{"g": {"dt": false}}', b'{"g": {"dt": 5}}',
             b'{"g": {"dt": "2020-13-45T00:00:00"}}', b'{"f": {"o": {"du": 1180591620717411303424}}}',
             b'{"f": {"o": {"t": {"w": "03:04:05"}}}}', b'{"f": {"o": {"da": ["a", "b"]}}}', b'{"f": {"o": {"m": null}}}',
             b'{"f": {"o": {"nn": null}}}', b'{"f": {"o": {"d": 1.5}}}', b'{"f": {"o": {"d": true}}}',
             b'{"f": {"o": {"d": [1]}}}', b'{"f": {"o": {"d": NaN}}}', b'{"f": {"o": {"u": 5}}}', b'{"f": {"o": {"f": NaN}}}'],
    'yaml': [b'', b'{', b'\xff', b'[' * 10000, b'[' * 3000 + b']' * 3000, b'[' * 5000 + b']' * 5000,
             # a value nested deeper than the interpreter's recursion limit, where a leaf / an array / an object belongs
             b'g: {i: ' + b'[' * 2000 + b']' * 2000 + b'}', b'g: {i: ' + b'[' * 5000 + b']' * 5000 + b'}',
             b'g: {s: ' + b'{a: ' * 2000 + b'1' + b'}' * 2000 + b'}', b'f: {o: {inner: ' + b'[' * 5000 + b']' * 5000 + b'}}',
             b'f: ' + b'[' * 5000 + b']' * 5000, b'bi: ' + b'[' * 5000 + b']' * 5000, b'h: ' + b'{h: ' * 3000 + b'1' + b'}' * 3000,
             b'k: {d: ' + b'[' * 5000 + b']' * 5000 + b'}', b'a: b: c', b'!!python/object:os.system x',
             b'a: &x [*x]', b'a: &x [*x, *x]\nb: [*x,*x,*x]', b'f: {o: {da: 2020-13-45}}', b'f: {o: {da: 2020-01-02}}',
             b'f: {o: {dt: 2020-01-02 03:04:05}}', b'f: {o: {i: 2020-01-02}}', b'? [a]\n: b', b'a: !!binary x',
             b'f: {o: {ba: !!binary YWJj}}', b'f: {o: {s: !!binary /w==}}', b'"\\x', b'\x00', b'- a\nb', b'%YAML 9.9\n---\na',
             b'!!set {a}', b'f: {o: {arr: !!set {1, 2}}}', b'? {a: b}\n: c', b'h: {}\n--- \nh: {}', b'a: 0o9', b'a: 1_0',
             b'f: !!float x', b'\t', b'*x', b'!!int abc', b'!!timestamp abc', b'!!bool abc', b'h: {}', b'h:', b'h', b'5: {}', b'null: {}',
             b'true: {}', b'1.5: {}', b'g:\n ', b'g: {i: .inf}', b'g: {i: .nan}', b'g: {i: 1_000}', b'g: {i: 0x1F}',
             b'g: {s: 5}', b'g: {s: [a]}', b'g: {dt: false}', b'f: {o: {multi: 0}}', b'f: {o: {b: yes}}', b'f: {o: {b: 1}}',
             b'f: {o: {e: [null]}}', b'f: {o: {du: 1180591620717411303424}}', b'f: {o: {t: 03:04:05}}', b'f: {o: {t: 12:30}}'],
    'msgpack': [b'', b'\x81', b'\xc1', b'\x81\x01\x02', b'\x81\x91\x01\x02', b'\x91' * 2000, b'\x81\xa1\xff\x01',
                b'\x81\xa1h\x80\x00', b'\xd9', b'\xc7\x00\x01', b'\xd4\x01\x00', b'\x81\xc4\x01h\x80', b'\x81\xa1h\x80',
                b'\xdf\xff\xff\xff\xff', b'\x81\x80\x01', b'\xd6\xff\x00\x00\x00\x00', b'\x80', b'\x90', b'\xc0', b'\x01',
                b'\x81\xc4\x01\xff\x80', b'\x81\xc4\x01h\xc0', b'\x81\xc4\x01h\x05', b'\x81\xc4\x01h\x91\x01',
                b'\x82\xc4\x01h\x80\xc4\x01g\x80', b'\x81\xc4\x02zz\x80', b'\x81\xc4\x00\x80', b'\x81\xc0\x80', b'\x81\xc3\x80',
                b'\x81\x05\x80', b'\x81\xcb\x3f\xf8\x00\x00\x00\x00\x00\x00\x80'],
    'mprpc': [b'', b'\x94\x00\x01\xa1h\x90', b'\x93\x00\x01\xa1h', b'\x01', b'\xa3abc', b'\x94\x02\x01\xa1h\x90',
              b'\x94\x05\x01\xa1h\x90', b'\x94\x00\x01\x01\x90', b'\x94\x00\x01\x81\xa1a\x01\x90', b'\x94\x00\x01\xa1h\x01',
              b'\x94\x00\x01\xa1h\xc0', b'\x94\x00\x01\xc0\x90', b'\x94\x01\x01\xa1h\x90', b'\x84\x00\x01\x01\x02\x02\x03\x03\x04',
              b'\x94\x00\x01\x90\x90', b'\x94\x00\x01\xc4\x01\xff\x90', b'\x94\x00\x01\xa1g\x91\x01', b'\x94\x03\x01\xa1h\x90',
              b'\x94\xa1a\x01\xa1h\x90', b'\x94\xc0\xc0\xc0\xc0', b'\x95\x00\x01\xa1h\x90\x01', b'\x92\x00\x01',
              b'\x94\x00\x01\xa1g\x93\x01\xa3abc\xb92020-01-02T03:04:05+99:00', b'\x94\x00\x01\xa1g\x91\x91\x01',
              b'\x94\x00\x01\xa1g\x81\xa1i\x01', b'\x94\x00\x01\xa1g\x81\xc4\x01i\x01', b'\x94\x00\x01\xa1g\x05',
              b'\x94\x00\x01\xa1g\xa3abc', b'\x94\x00\x01\x81\xa9faultcode\xa1x\x90', b'\x94\x00\x01\xa1g\xc0'],
}
CORPUS['soap12'] = [b.replace(S11.encode(), S12.encode()) for b in CORPUS['soap11']]


WSGI_VARIANTS = [
    dict(ctype='text/xml; charset=bogus'), dict(ctype='text/xml; charset=utf-16'), dict(ctype='text/xml; charset="'),
    dict(ctype='\xff;;;=='), dict(ctype=None), dict(ctype='text/xml'), dict(ctype='application/json; charset=latin-1'),
    dict(ctype='multipart/related; boundary=x'), dict(ctype='multipart/related; boundary=x; type="text/xml"; start="<a>"'),
    dict(method='GET'), dict(method='PUT'), dict(method='get'), dict(extra={'CONTENT_LENGTH': 'abc'}),
    dict(extra={'CONTENT_LENGTH': '-5'}), dict(extra={'CONTENT_LENGTH': '99999999999'}), dict(extra={'CONTENT_LENGTH': ''}),
    dict(extra={'CONTENT_LENGTH': '3'}), dict(clen=False), dict(path='/a/b/%ff/'), dict(path=''), dict(path='/\xff'),
    dict(qs='wsdl'), dict(qs='a=%ff&b'), dict(extra={'HTTP_SOAPACTION': '"zz"'}), dict(extra={'HTTP_HOST': 'x:y:z'}),
]


# ------------------------------------------------------------------ Content-Type grammar
MIME = {'xml': 'text/xml', 'soap11': 'text/xml', 'soap12': 'application/soap+xml', 'json': 'application/json',
        'yaml': 'text/yaml', 'msgpack': 'application/x-msgpack', 'mprpc': 'application/x-msgpack'}
# text encodings, non-text codecs (bytes.decode refuses them with LookupError), codecs whose decoder
# raises a plain UnicodeError, platform-dependent and unknown names
CODECS = ['utf-8', 'UTF-8', 'utf8', 'u8', 'latin-1', 'ascii', 'utf-16', 'utf-16-le', 'utf-32', 'utf-7', 'utf_8_sig', 'cp037',
          'cp1252', 'big5', 'shift_jis', 'iso2022_jp', 'idna', 'punycode', 'undefined', 'unicode_escape',
          'raw_unicode_escape', 'charmap', 'hex', 'hex_codec', 'rot13', 'rot_13', 'base64', 'base_64', 'bz2', 'zlib', 'uu',
          'quopri', 'mbcs', 'oem', 'string_escape', 'bogus', 'none', 'None', '0', 'utf-8 ', ' utf-8', 'utf-8\t', 'utf–8',
          'ütf-8', 'utf-8\x00', 'a\x00b', 'u' * 20000, '../../etc/passwd', 'encodings', 'aliases', '__init__', 'utf_8.py']


def charset_forms(v):
    """the ways a parameter value can be spelt (RFC 2045 token / quoted-string, RFC 2231 extended
    and continued parameters, duplicates, case, stray quotes)"""
    h = max(1, len(v) // 2)
    return ['charset=%s' % v, 'charset="%s"' % v, 'CHARSET=%s' % v, 'Charset = %s' % v, ' charset=%s ;' % v,
            "charset*=utf-8''%s" % v, "charset*=''%s" % v, "charset*=utf-8'en'%s" % v, "charset*=%s" % v,
            'charset*0=%s; charset*1=%s' % (v[:h], v[h:]), "charset*0*=utf-8''%s; charset*1*=%s" % (v[:h], v[h:]),
            'charset*1=%s' % v, 'charset=%s; charset=bogus' % v, 'charset=bogus; charset=%s' % v,
            "charset='%s'" % v, 'charset="%s' % v, 'charset=%s"' % v, 'charset=\\%s' % v, 'charset=%s; charset*=utf-8\'\'hex' % v,
            'x=1; charset=%s; y="a;b"' % v, 'charset=(comment)%s' % v, 'charset=%s,utf-8' % v]


CONTENT_TYPE_JUNK = ['', ' ', ';', ';;;', '/', 'text', 'text/', '/xml', '%(m)s;', '; charset=utf-8', '%(m)s; =utf-8', '%(m)s; charset',
                     '%(m)s; charset=', '%(m)s; charset==', '%(m)s;charset', '%(m)s; charset="', '%(m)s; charset=""',
                     '%(m)s; ' + 'x' * 20000, '%(m)s' + '; a=b' * 3000, 'TEXT/XML; CHARSET=UTF-8', '%(m)s, text/plain; charset=hex',
                     '%(m)s; charset=utf-8; q=0.5; version=1.1; action="x"', '\xff\xfe', '%(m)s\r\nX-Injected: y',
                     '%(m)s; charset=utf-8\n', '\x00', '%(m)s\x00; charset=utf-8', '*/*', '%(m)s; charset*', '%(m)s; charset**=x',
                     '%(m)s; charset*0*=', "%(m)s; charset*=utf-8''", "%(m)s; charset*='", '%(m)s; *=utf-8', '%(m)s; *0*=x',
                     'application/x-www-form-urlencoded', 'application/x-www-form-urlencoded; charset=hex',
                     'multipart/form-data; boundary=x', 'multipart/form-data', 'multipart/related', 'multipart/related; boundary=',
                     'multipart/related; boundary="x"', "multipart/related; boundary*=utf-8''x", 'multipart/related; boundary*0=x',
                     'multipart/related; boundary*0*=utf-8\'\'x; boundary*1*=y', 'multipart/related; boundary=x; boundary=y',
                     'multipart/related; type="text/xml"; start="<a>"; boundary=x; charset=hex',
                     'multipart/related; type="text/xml"; start="<a>"; boundary=x; charset*=utf-8\'\'utf-8',
                     'multipart/related; type=text/xml; start=a; boundary=x', 'multipart/related; boundary=' + 'b' * 300,
                     'multipart/related; boundary=\xfc', 'multipart/mixed; boundary=x', 'MULTIPART/RELATED; BOUNDARY=x']


def content_types(rng, proto, quick):
    m = MIME[proto]
    out = [j % {'m': m} if '%(m)s' in j else j for j in CONTENT_TYPE_JUNK]
    codecs = CODECS if not quick else CODECS[:40]
    for v in codecs:
        forms = charset_forms(v)
        picked = forms[:3] + (rng.sample(forms[3:], 3 if quick else len(forms) - 3))
        if v in ('utf-8', 'hex', 'punycode', 'bogus', 'utf-16'):
            picked = forms
        out.extend('%s; %s' % (m, f) for f in picked)
    return out


def multipart_bodies(soap_body):
    """multipart/related wrappings of a SOAP request (SwA): well-formed and broken"""
    p = b'Content-Type: text/xml; charset=utf-8\r\nContent-Id: <a>\r\n\r\n'
    return [b'--x\r\n' + p + soap_body + b'\r\n--x--', b'--x\r\n' + p + soap_body, b'--y\r\n' + p + soap_body + b'\r\n--y--',
            b'--x\r\n\r\n' + soap_body + b'\r\n--x--', b'--x--', b'--x\r\n--x\r\n--x--', soap_body,
            b'--x\r\nContent-Type: text/xml; charset=hex\r\nContent-Id: <a>\r\n\r\n' + soap_body + b'\r\n--x--',
            b'--x\r\nContent-Type: text/xml; charset*=utf-8\'\'utf-8\r\nContent-Location: a\r\n\r\n' + soap_body + b'\r\n--x--',
            b'--x\r\nContent-Type: \xff\r\nContent-Id: <\x00>\r\n\r\n' + soap_body + b'\r\n--x--',
            b'--x\r\n' + p + soap_body + b'\r\n--x\r\nContent-Type: application/octet-stream\r\nContent-Id: <b>\r\n\r\n\x00\xff\r\n--x--',
            b'--x\r\nContent-Type: multipart/related; boundary=x\r\n\r\n--x\r\n' + p + soap_body + b'\r\n--x--\r\n--x--'] \
        + _attachments(soap_body)


def _attachments(soap_body):
    """a SOAP part followed by one attachment: the envelope has no message element (empty Body, only a Fault,
    no Body), and the Content-ID / Content-Location of the attachment are hostile (quotes, which used to end up
    inside an XPath string literal; non-ASCII bytes, which the email package returns as a Header object)"""
    ns = (S12 if S12.encode() in soap_body else S11).encode()
    p = b'Content-Type: text/xml; charset=utf-8\r\nContent-Id: <a>\r\n\r\n'
    envs = [soap_body,
            b'<e:Envelope xmlns:e="' + ns + b'"><e:Body/></e:Envelope>',
            b'<e:Envelope xmlns:e="' + ns + b'"><e:Body><e:Fault/></e:Body></e:Envelope>',
            b'<e:Envelope xmlns:e="' + ns + b'"><e:Body><!-- c --></e:Body></e:Envelope>',
            b'<e:Envelope xmlns:e="' + ns + b'"/>', b'<a', b'']
    ids = [b'Content-Id: <b>', b'Content-Id: <b"c>', b"Content-Id: <b'c>", b'Content-Id: <b\'"c>', b'Content-Id: <\xff>',
           b'Content-Id: <\xc3\xa9>', b'Content-Id: =?utf-8?b?w6k=?=', b'Content-Id: ', b'Content-Id: <>',
           b'Content-Location: b', b'Content-Location: b"c', b"Content-Location: b'\"c", b'Content-Location: \xff',
           b'Content-Id: <b>\r\nContent-Location: "', b'Content-Id: ' + b'a' * 20000]
    out = []
    for i, env in enumerate(envs):
        for j, cid in enumerate(ids):
            if i == 0 or j in (0, 1, 9) or (i + j) % 5 == 0:
                out.append(b'--x\r\n' + p + env + b'\r\n--x\r\nContent-Type: application/octet-stream\r\n' + cid
                           + b'\r\n\r\n\x00\xff\r\n--x--')
    return out

# msgpack-rpc requests to bare methods (MessagePackRpc does not support them: known finding)
CORPUS_MPRPC_BARE = [b'\x94\x00\x01\xa3bdu\xc0', b'\x94\x00\x01\xa2bi\x91\x05', b'\x94\x00\x01\xa2bi\xc0', b'\x94\x00\x01\xa2bc\x91\x81\xa1a\x01',
                     b'\x93\x00\x01\xa2ba']
