"""C02 — dict-document wire fidelity (JSON, YAML, MessagePack).

Proof obligations: Props.C02 (the serializer writes exactly the conventional document of every
conformant value; the structural reader reads every conventional document back; requests
enter the user function with the sent arguments; responses decode to the returned values;
integers and decimals of any magnitude; UTF-8 on all scalar values).
Tie: seeded model-vs-implementation correspondences on _object_to_doc, _from_dict_value and
the ServerBase pipeline (valid documents, mutants, all 48 configurations), and a direct
oracle that builds requests by the documented conventions with a reference codec written
independently of both Spyne and the Coq text."""
import os, sys, json, copy, time, traceback, random
import lib
from lib import gz, gtext, glist, gbool, gopt
import dictdoc as D

THEOREMS = ['C02_utf8_roundtrip', 'C02_utf8_total', 'C02_decimal_text_roundtrip', 'C02_leaf_writer', 'C02_leaf_reader',
            'C02_leaf_reference_reader', 'C02_integers_any_magnitude', 'C02_decimals_any_magnitude',
            'C02_serializer_writes_conventions', 'C02_reader_reads_conventions', 'C02_request_fidelity',
            'C02_response_fidelity_partial', 'C02_call_fidelity', 'C02_rpc_request_fidelity',
            'C02_rpc_response_fidelity', 'C02_response_positional_without_wrappers_refuted',
            'C02_subclass_without_wrappers_refuted', 'C02_source_tables', 'C02_empty_is_none_only_empty_text']

FUEL = 40
IMPORTS = ('From SpyneV Require Import Base.Prelude Base.Ext Wire.Dict.\n'
           'Definition jout_eqb := out_eqb jv_eqb.\n'
           'Definition vout_eqb := out_eqb dval_eqb.\n'
           'Definition sres_eqb (a b : sres) : bool :=\n'
           '  match a, b with\n'
           '  | SCall x, SCall y => dval_eqb (DList x) (DList y)\n'
           '  | SBadCall _, SBadCall _ => true\n'
           '  | SInvalid, SInvalid => true\n'
           '  | SNotFound, SNotFound => true\n'
           '  | SCrash e, SCrash f => exn_eqb e f\n'
           '  | _, _ => false\n'
           '  end.\n')


# ------------------------------------------------------------------ document mutations (malformed stream)
def scalar_pool(c):
    pool = [None, True, False, 0, 1, 7, -1, 2 ** 70, 1.5, 1.0, 0.0, 'x', '12', '', '1.5', ' 7 ', [], {}, [1], ['a'],
            {'a': 1}, '-0', '1e3', 'AP8=', 'A']
    if c['proto'] != 'json':
        pool += [b'ab', b'12', b'', b'\xff\xfe']
    return pool


def paths(d, p=()):
    yield p
    if isinstance(d, dict):
        for k in d:
            yield from paths(d[k], p + (('k', k),))
    elif isinstance(d, list):
        for i, x in enumerate(d):
            yield from paths(x, p + (('i', i),))


def get_at(d, p):
    for kind, k in p:
        d = d[k]
    return d


def set_at(d, p, v):
    if not p:
        return v
    d = copy.deepcopy(d)
    cur = d
    for kind, k in p[:-1]:
        cur = cur[k]
    cur[p[-1][1]] = v
    return d


def mutate(rng, c, doc):
    """one random structural or type mutation of a document"""
    ps = list(paths(doc))
    p = rng.choice(ps)
    node = get_at(doc, p)
    r = rng.random()
    if r < 0.45:
        return set_at(doc, p, copy.deepcopy(rng.choice(scalar_pool(c))))
    if isinstance(node, dict):
        node = dict(node)
        keys = list(node)
        if r < 0.6 and keys:
            del node[rng.choice(keys)]
        elif r < 0.7:
            node['zz'] = copy.deepcopy(rng.choice(scalar_pool(c)))
        elif r < 0.8 and keys:
            k = rng.choice(keys)
            node = dict([(('K9' if kk == k else kk), vv) for kk, vv in node.items()])
        elif r < 0.9 and keys and c['proto'] == 'msgpack':
            k = rng.choice(keys)
            k2 = k.decode('utf8', 'replace') if isinstance(k, bytes) else (k.encode('utf8') if isinstance(k, str) else k)
            node = dict([((k2 if kk == k else kk), vv) for kk, vv in node.items()])
        else:
            node = list(node.values())
        return set_at(doc, p, node)
    if isinstance(node, list):
        node = list(node)
        if r < 0.6 and node:
            del node[rng.randrange(len(node))]
        elif r < 0.75:
            node.insert(rng.randint(0, len(node)), copy.deepcopy(rng.choice(scalar_pool(c))))
        elif r < 0.85 and node:
            node.append(copy.deepcopy(rng.choice(node)))
        else:
            node = {'K0': node}
        return set_at(doc, p, node)
    if r < 0.7:
        return set_at(doc, p, [node])
    return set_at(doc, p, {'K0': node})


def modelled_doc(d):
    """documents the model covers: no nan / inf floats (a float in a Decimal slot is excluded where it is
    read: dictdoc.unmodelled)"""
    if isinstance(d, float):
        return d == d and d not in (float('inf'), float('-inf'))
    if isinstance(d, (list, tuple)):
        return all(modelled_doc(x) for x in d)
    if isinstance(d, dict):
        return all(modelled_doc(k) and modelled_doc(v) for k, v in d.items())
    return True


def short(x, n=300):
    s = repr(x)
    return s if len(s) <= n else s[:n] + '...'


def _has_bytes(d):
    if isinstance(d, (bytes, bytearray)):
        return True
    if isinstance(d, (list, tuple)):
        return any(_has_bytes(x) for x in d)
    if isinstance(d, dict):
        return any(_has_bytes(k) or _has_bytes(v) for k, v in d.items())
    return False


# ------------------------------------------------------------------ worlds
class World(object):
    """one universe rendered both ways, with a few method signatures over it"""

    def __init__(self, rng, idx, desc=None, sigs=None, n_sigs=3):
        self.idx = idx
        self.desc = desc or D.gen_universe(rng, n_classes=rng.randint(2, 5), max_fields=4)
        self.classes = D.build_spyne(self.desc)
        self.g_universe = D.g_universe(self.desc, self.classes)
        self.sigs = sigs or [D.gen_sig(rng, self.desc, 'm%d' % i) for i in range(n_sigs)]
        self.calls = []
        self.returns = {}
        self.service = D.build_service(self.desc, self.classes, self.sigs, self.calls, self.returns)
        self._apps = {}

    def app(self, c, rpc=False):
        from spyne.application import Application
        key = (D.cfg_name(c), rpc)
        if key not in self._apps:
            self._apps[key] = Application([self.service], D.TNS, in_protocol=D.make_protocol(c, rpc),
                                          out_protocol=D.make_protocol(c, rpc, validator=False))
        return self._apps[key]

    def g_sigs(self, app):
        out = []
        for s in self.sigs:
            im, om = D.message_classes(app, s)
            out.append(D.g_sig(s, im, om))
        return glist(out)

    def out_name(self, app, s):
        return D.message_classes(app, s)[1].get_type_name()

    def slots(self, rng, n):
        """member descriptions to exercise: members of the classes, and synthetic ones"""
        out = []
        for ci, c in enumerate(self.desc['classes']):
            for f in c['fields']:
                out.append((f, self.classes[ci]._type_info[f['name']]))
            f = {'name': 'o%d' % ci, 'ty': ('ref', ci), 'min': rng.choice([0, 1]), 'max': 1, 'nillable': rng.random() < 0.7}
            out.append((f, D.field_type(self.classes, f)))
        for i in range(n):
            s = D.gen_sig(rng, self.desc, 'm', 1, 0)['params'][0]
            out.append((s, D.field_type(self.classes, s)))
        return out


def g_slot(f, T):
    A = T.Attributes
    return (gbool(A.max_occurs > 1), D.g_dty(f['ty'], T), gbool(bool(A.nillable)))


def cfg_cycle(rng):
    cfgs = D.all_cfgs()
    rng.shuffle(cfgs)
    i = [0]

    def nxt():
        c = cfgs[i[0] % len(cfgs)]
        i[0] += 1
        return c
    return nxt


# ------------------------------------------------------------------ structural correspondence
def family_struct(check, tier, worlds, next_cfg):
    rng = check.rng
    per_world = 8 if tier == 'quick' else 48
    reps = 1 if tier == 'quick' else 3
    muts = 2 if tier == 'quick' else 5
    for w in worlds:
        wi = w.idx
        slots = w.slots(rng, 3)
        enc_cases, dec_cases = [], []
        for _ in range(per_world):
            c = next_cfg()
            prot = D.make_protocol(c)
            gc = D.g_cfg(c)
            for f, T in slots:
                multi, gty, gnil = g_slot(f, T)
                for rep in range(reps + 1):
                    v = D.gen_field_value(rng, w.desc, f, 2, c['poly'], full=(rep == 1))
                    nat = D.to_native(w.desc, w.classes, v, chunks=rng)    # ByteArray values as random chunk sequences
                    o = D.observe(prot._object_to_doc, T, nat)
                    if o[0] == 'ok' and not D.doc_in_universe(o[1]):
                        continue
                    enc_cases.append(('(%s, %s, %s, %s, %s)' % (gc, multi, gty, D.g_val(v), D.g_out(o, D.g_doc)),
                                      'w%d %s _object_to_doc %s %s -> %s' % (wi, D.cfg_name(c), f['name'], short(D.jsonable(v)), short(o))))
                    check.count(('enc', wi, D.cfg_name(c), f['name'], repr(D.jsonable(v))))
                    # the same value as a DAG: equal object values are ONE instance; the document is a function of
                    # the value, not of object identity
                    v2 = D.share_values(rng, [v])[0]
                    memo = {}
                    nat2 = D.to_native(w.desc, w.classes, v2, memo, chunks=rng)
                    if memo.get('hits'):
                        o2 = D.observe(prot._object_to_doc, T, nat2)
                        if not (o2[0] == 'ok' and not D.doc_in_universe(o2[1])):
                            enc_cases.append(('(%s, %s, %s, %s, %s)' % (gc, multi, gty, D.g_val(v2), D.g_out(o2, D.g_doc)),
                                              'w%d %s _object_to_doc %s (%d shared instances) %s -> %s'
                                              % (wi, D.cfg_name(c), f['name'], memo['hits'], short(D.jsonable(v2)), short(o2))))
                            check.count(('enc-shared', wi, D.cfg_name(c), f['name'], repr(D.jsonable(v2))))
                    if multi == 'true':
                        continue    # a repeated member is read item by item inside its parent (exercised through objects)
                    docs = []
                    for style in ({'key': 'str', 'text': 'str'}, {'key': 'bin', 'text': 'bin'}):
                        try:
                            docs.append(D.ref_member(c, w.desc, f, v, style))
                        except Exception:
                            pass
                        if c['proto'] != 'msgpack':
                            break
                    if o[0] == 'ok':
                        docs.append(o[1])
                    for d0 in list(docs):
                        for _m in range(muts):
                            try:
                                docs.append(mutate(rng, c, D._listify(d0)))
                            except Exception:
                                pass
                    for d in docs:
                        if not modelled_doc(d) or not D.doc_in_universe(d):
                            continue
                        od, out = D.unmodelled(D.observe, prot._from_dict_value, None, 'k', T, d, prot.validator)
                        if out:
                            check.count(('decimal-from-float',), nontrivial=False)
                            continue
                        if od[0] == 'ok':
                            nv = D.from_native(w.desc, w.classes, f, od[1], member=True)
                            if not D.in_universe(nv):
                                continue
                            od = ('ok', nv)
                        dec_cases.append(('(%s, %s, %s, %s, %s)' % (gc, gnil, gty, D.g_doc(d), D.g_out(od, D.g_val)),
                                          'w%d %s _from_dict_value %s %s -> %s' % (wi, D.cfg_name(c), f['name'], short(d),
                                                                                   short(od if od[0] != 'ok' else D.jsonable(od[1])))))
                        check.count(('dec', wi, D.cfg_name(c), f['name'], repr(d)))
        imports = IMPORTS + 'Definition U : duniverse := %s.\n' % w.g_universe
        lib.correspond(check, 'object_to_doc_w%d' % wi, imports, 'cfg * bool * dty * dval * out jv',
                       "(fun x => let '(c, m, t, v, o) := x in jout_eqb (o2d c U %d m t v) o)" % FUEL, enc_cases,
                       show="(fun x : cfg * bool * dty * dval * out jv => let '(c, m, t, v, o) := x in o2d c U %d m t v)" % FUEL)
        lib.correspond(check, 'from_dict_value_w%d' % wi, imports, 'cfg * bool * dty * jv * out dval',
                       "(fun x => let '(c, n, t, j, o) := x in vout_eqb (fdv c U %d n t j) o)" % FUEL, dec_cases,
                       show="(fun x : cfg * bool * dty * jv * out dval => let '(c, n, t, j, o) := x in fdv c U %d n t j)" % FUEL)


# ------------------------------------------------------------------ leaves: every kind x every node type
def family_leaf(check, tier):
    import decimal
    rng = check.rng
    from spyne.model.primitive import Integer, Unicode, Boolean, Double, Decimal
    from spyne.model.binary import ByteArray
    types = []
    for kind, T in (('int', Integer), ('text', Unicode), ('bool', Boolean), ('double', Double),
                    ('decimal', Decimal), ('bytes', ByteArray)):
        types.append((kind, T, True))
        types.append((kind, T.customize(nillable=False), False))   # only exercised under soft validation in the quick tier
        types.append((kind, T(empty_is_none=True), True))          # '' / b'' are read as None; 0, 0.0, False are not
        types.append((kind, T(empty_is_none=True, nillable=False), False))
    cases_e, cases_d = [], []
    for proto in D.PROTOS:
        for soft in (False, True):
            c = {'proto': proto, 'iw': True, 'list': False, 'poly': False, 'soft': soft}
            prot = D.make_protocol(c)
            gc = D.g_cfg(c)
            for kind, T, nil in types:
                if tier == 'quick' and not nil and not soft:
                    continue
                gk = D.g_prim(T, kind)
                vals = [D.gen_leaf(rng, kind) for _ in range(3 if tier == 'quick' else 30)]
                pool = {'int': [('int', z) for z in D.INT_POOL], 'text': [('text', s) for s in D.TEXT_POOL],
                        'bool': [('bool', True), ('bool', False)], 'double': [('double', x) for x in D.DOUBLE_POOL],
                        'decimal': [('decimal', decimal.Decimal(s)) for s in D.DEC_POOL], 'bytes': []}[kind]
                docs = list(scalar_pool(c))
                for v in vals + pool + [('none',)]:
                    o = D.observe(prot._object_to_doc, T, D.to_native(None, None, v, chunks=rng))
                    if o[0] == 'ok' and not D.doc_in_universe(o[1]):
                        continue
                    cases_e.append(('(%s, %s, %s, %s)' % (gc, gk, D.g_val(v), D.g_out(o, D.g_doc)),
                                    '%s %s to doc %s -> %s' % (D.cfg_name(c), kind, short(D.jsonable(v)), short(o))))
                    check.count(('leafenc', proto, soft, kind, repr(D.jsonable(v))))
                    if o[0] == 'ok':
                        docs.append(o[1])
                    if v[0] != 'none':
                        try:
                            docs.append(D.ref_leaf_enc(c, kind, v, {'text': 'str'}))
                            if proto == 'msgpack':
                                docs.append(D.ref_leaf_enc(c, kind, v, {'text': 'bin'}))
                        except Exception:
                            pass
                f = {'name': 'x', 'ty': ('prim', kind, True), 'min': 0, 'max': 1, 'nillable': nil}
                for d in docs:
                    if not modelled_doc(d) or not D.doc_in_universe(d):
                        continue
                    if proto == 'json' and _has_bytes(d):
                        continue
                    od, out = D.unmodelled(D.observe, prot._from_dict_value, None, 'k', T, d, prot.validator)
                    if out:
                        check.count(('decimal-from-float',), nontrivial=False)
                        continue
                    if od[0] == 'ok':
                        nv = D.from_native(None, [], f, od[1], member=True)
                        if not D.in_universe(nv):
                            continue
                        od = ('ok', nv)
                    cases_d.append(('(%s, %s, %s, %s, %s)' % (gc, gbool(nil), gk, D.g_doc(d), D.g_out(od, D.g_val)),
                                    '%s %s nillable=%s from doc %s -> %s' % (D.cfg_name(c), kind, nil, short(d),
                                                                            short(od if od[0] != 'ok' else D.jsonable(od[1])))))
                    check.count(('leafdec', proto, soft, kind, nil, repr(d)))
    lib.correspond(check, 'leaf_to_doc', IMPORTS, 'cfg * dty * dval * out jv',
                   "(fun x => let '(c, t, v, o) := x in jout_eqb (o2d c [] 3 false t v) o)", cases_e,
                   show="(fun x : cfg * dty * dval * out jv => let '(c, t, v, o) := x in o2d c [] 3 false t v)")
    lib.correspond(check, 'leaf_from_doc', IMPORTS, 'cfg * bool * dty * jv * out dval',
                   "(fun x => let '(c, n, t, j, o) := x in vout_eqb (fdv c [] 3 n t j) o)", cases_d,
                   show="(fun x : cfg * bool * dty * jv * out dval => let '(c, n, t, j, o) := x in fdv c [] 3 n t j)")


# ------------------------------------------------------------------ driving the real pipeline
def drive(w, app, body, rpc=False):
    """one request through ServerBase -> dict(res=..., in_doc=..., out_doc=..., out=...)
    res: ('call', (name, args natives)) | ('badcall',) | ('invalid',) | ('notfound',)
         | ('crash', coq exn, py class) | ('other', text)"""
    from spyne.server import ServerBase
    from spyne.context import MethodContext
    from spyne.model.fault import Fault
    srv = ServerBase(app)
    ctx = MethodContext(srv, MethodContext.SERVER)
    ctx.in_string = [body]
    del w.calls[:]
    r = {'in_doc': None, 'out_doc': None, 'out': None, 'ncalls': 0}

    def fault(e):
        code = getattr(e, 'faultcode', '')
        if code in ('Client.ValidationError', 'Client.MessagePackDecodeError'):
            return ('invalid',)
        if code == 'Client.ResourceNotFound':
            return ('notfound',)
        if code == 'Client' and rpc and 'not found' in str(getattr(e, 'faultstring', '')):
            return ('notfound',)
        return ('other', 'fault %s' % code)
    try:
        ctxs = srv.generate_contexts(ctx)
    except Exception as e:
        r['in_doc'] = getattr(ctx, 'in_document', None)
        r['res'] = ('crash', D.EXN.get(type(e).__name__, 'OtherExn'), type(e).__name__)
        return r
    p = ctxs[0]
    r['in_doc'] = p.in_document if p.in_document is not None else ctx.in_document
    if p.in_error is not None:
        r['res'] = fault(p.in_error)
        return r
    try:
        srv.get_in_object(p)
    except Exception as e:
        r['res'] = ('crash', D.EXN.get(type(e).__name__, 'OtherExn'), type(e).__name__)
        return r
    if p.in_error is not None:
        r['res'] = fault(p.in_error)
        return r
    try:
        srv.get_out_object(p)
    except Exception as e:
        r['res'] = ('other', 'get_out_object raised %s' % type(e).__name__)
        return r
    r['ncalls'] = len(w.calls)
    if p.out_error is not None:
        if not w.calls and getattr(p.out_error, 'faultcode', '') == 'Server':
            r['res'] = ('badcall',)
        else:
            r['res'] = ('other', 'out_error %s' % getattr(p.out_error, 'faultcode', ''))
        return r
    if len(w.calls) != 1:
        r['res'] = ('other', '%d calls' % len(w.calls))
        return r
    r['res'] = ('call', w.calls[0])
    try:
        srv.get_out_string(p)
        r['out'] = b''.join(p.out_string)
        r['out_doc'] = ('ok', p.out_document[0])
    except Fault as e:
        r['out_doc'] = ('vfault',) if getattr(e, 'faultcode', '') == 'Client.ValidationError' else ('crash', 'OtherExn', 'Fault')
    except Exception as e:
        r['out_doc'] = ('crash', D.EXN.get(type(e).__name__, 'OtherExn'), type(e).__name__)
    return r


def g_sres(w, s_by_name, res):
    k = res[0]
    if k == 'call':
        name, args = res[1]
        s = s_by_name[name]
        vals = [D.from_native(w.desc, w.classes, p, a, member=True) for p, a in zip(s['params'], args)]
        if not all(D.in_universe(v) for v in vals):
            return None
        return '(SCall %s)' % glist([D.g_val(v) for v in vals])
    if k == 'badcall':
        return '(SBadCall [])'
    if k == 'invalid':
        return 'SInvalid'
    if k == 'notfound':
        return 'SNotFound'
    if k == 'crash':
        return '(SCrash %s)' % res[1]
    return None


def gen_args(rng, w, s, c, full=False, poly=None):
    poly = (c['poly'] and not c['iw']) if poly is None else poly
    return [D.gen_field_value(rng, w.desc, p, 2, poly, full=full) for p in s['params']]


def gen_rets(rng, w, s, c, full=False, poly=None):
    poly = (c['poly'] and not c['iw']) if poly is None else poly
    return [D.gen_field_value(rng, w.desc, r, 2, poly, full=full) for r in s['results']]


def family_serve(check, tier, worlds, next_cfg):
    rng = check.rng
    per_world = 10 if tier == 'quick' else 48
    muts = 3 if tier == 'quick' else 8
    for w in worlds:
        wi = w.idx
        by_name = {s['name']: s for s in w.sigs}
        req_cases, resp_cases, rpc_req, rpc_resp = [], [], [], []
        gsigs = None
        for _ in range(per_world):
            c = next_cfg()
            for rpc in ((False, True) if c['proto'] == 'msgpack' and c['iw'] else (False,)):
                app = w.app(c, rpc)
                if gsigs is None:
                    gsigs = w.g_sigs(app)
                gc = D.g_cfg(c, rpc)
                for si, s in enumerate(w.sigs):
                    args = gen_args(rng, w, s, c, full=c['list'] or rpc)
                    rets = gen_rets(rng, w, s, c, full=c['list'])
                    memo = None
                    if rng.random() < 0.5:
                        rets, memo = D.share_values(rng, rets), {}      # instances shared inside and across the results
                    w.returns[s['name']] = tuple(D.to_native(w.desc, w.classes, v, memo, chunks=rng, iters=False) for v in rets)
                    docs = []
                    styles = [{'key': 'str', 'text': 'str'}, {'key': 'bin', 'text': 'bin'}] if c['proto'] == 'msgpack' else [{}]
                    for st in styles:
                        if rpc:
                            body = [D.ref_member(c, w.desc, f, x, st) for f, x in zip(s['params'], args)]
                            docs.append([0, rng.randint(0, 9), D.ref_key(c, s['name'], st), body])
                        else:
                            docs.append(D.ref_request(c, w.desc, s, args, st))
                    for d0 in list(docs):
                        for _m in range(muts):
                            try:
                                docs.append(mutate(rng, c, D._listify(d0)))
                            except Exception:
                                pass
                    for d in docs:
                        if not modelled_doc(d) or not D.doc_in_universe(d):
                            continue
                        try:
                            body = D.dumps(c, d)
                        except Exception:
                            continue
                        r, out = D.unmodelled(drive, w, app, body, rpc)
                        if out:
                            check.count(('decimal-from-float',), nontrivial=False)
                            continue
                        if r['in_doc'] is None or not D.doc_in_universe(r['in_doc']) or not modelled_doc(r['in_doc']):
                            continue
                        g = g_sres(w, by_name, r['res'])
                        if g is None:
                            check.count(('serve-unmodelled', r['res'][0]), nontrivial=False)
                            continue
                        (rpc_req if rpc else req_cases).append(
                            ('(%s, %s, %s)' % (gc, D.g_doc(r['in_doc']), g),
                             'w%d %s%s request %s -> %s' % (wi, D.cfg_name(c), ' rpc' if rpc else '', short(r['in_doc']), short(r['res']))))
                        check.count(('serve', wi, D.cfg_name(c), rpc, repr(r['in_doc'])))
                        if r['res'][0] == 'call' and r['out_doc'] is not None and r['res'][1][0] == s['name']:
                            od = r['out_doc']
                            if od[0] == 'ok' and not D.doc_in_universe(od[1]):
                                continue
                            (rpc_resp if rpc else resp_cases).append(
                                ('(%s, %d%%nat, %s, %s)' % (gc, si, glist([D.g_val(v) for v in rets]), D.g_out(od, D.g_doc)),
                                 'w%d %s%s response of %s for %s -> %s' % (wi, D.cfg_name(c), ' rpc' if rpc else '', s['name'],
                                                                          short([D.jsonable(v) for v in rets]), short(od))))
                            check.count(('resp', wi, D.cfg_name(c), rpc, s['name'], repr([D.jsonable(v) for v in rets])))
        imports = (IMPORTS + 'Definition U : duniverse := %s.\n' % w.g_universe +
                   'Definition SIGS : list dsig := %s.\n' % (gsigs or '[]') +
                   'Definition sig_at (i : nat) : dsig := nth i SIGS (mksig [] [] [] []).\n')
        lib.correspond(check, 'serve_request_w%d' % wi, imports, 'cfg * jv * sres',
                       "(fun x => let '(c, j, o) := x in sres_eqb (serve_request c U %d SIGS j) o)" % FUEL, req_cases,
                       show="(fun x : cfg * jv * sres => let '(c, j, o) := x in serve_request c U %d SIGS j)" % FUEL)
        lib.correspond(check, 'serve_response_w%d' % wi, imports, 'cfg * nat * list dval * out jv',
                       "(fun x => let '(c, i, r, o) := x in jout_eqb (serve_response c U %d (sig_at i) r) o)" % FUEL, resp_cases,
                       show="(fun x : cfg * nat * list dval * out jv => let '(c, i, r, o) := x in serve_response c U %d (sig_at i) r)" % FUEL)
        lib.correspond(check, 'rpc_request_w%d' % wi, imports, 'cfg * jv * sres',
                       "(fun x => let '(c, j, o) := x in sres_eqb (rpc_request c U %d SIGS j) o)" % FUEL, rpc_req,
                       show="(fun x : cfg * jv * sres => let '(c, j, o) := x in rpc_request c U %d SIGS j)" % FUEL)
        lib.correspond(check, 'rpc_response_w%d' % wi, imports, 'cfg * nat * list dval * out jv',
                       "(fun x => let '(c, i, r, o) := x in jout_eqb (rpc_response c U %d (sig_at i) r) o)" % FUEL, rpc_resp,
                       show="(fun x : cfg * nat * list dval * out jv => let '(c, i, r, o) := x in rpc_response c U %d (sig_at i) r)" % FUEL)


# ------------------------------------------------------------------ the direct oracle
def py_eq(a, b):
    """equality of neutral values as the property means it: Python equality of the native values
    (an int and a float holding the same number are equal, -0.0 == 0.0; booleans are not
    numbers here; Decimals by (sign, digits, exponent))"""
    ka, kb = a[0], b[0]
    if {ka, kb} <= {'int', 'double'}:
        return a[1] == b[1]
    if ka != kb:
        return False
    if ka == 'decimal':
        return a[1].as_tuple() == b[1].as_tuple()
    if ka == 'list':
        return len(a[1]) == len(b[1]) and all(py_eq(x, y) for x, y in zip(a[1], b[1]))
    if ka == 'obj':
        return a[1] == b[1] and len(a[2]) == len(b[2]) and all(py_eq(x, y) for x, y in zip(a[2], b[2]))
    if ka == 'raw':
        return D.doc_eq(a[1], b[1])
    return a == b


def py_diff(a, b, path='$'):
    if py_eq(a, b):
        return None
    if a[0] == b[0] == 'list' and len(a[1]) == len(b[1]):
        for x, y in zip(a[1], b[1]):
            d = py_diff(x, y, path + '[]')
            if d:
                return d
    if a[0] == b[0] == 'obj' and a[1] == b[1] and len(a[2]) == len(b[2]):
        for x, y in zip(a[2], b[2]):
            d = py_diff(x, y, path + '.m')
            if d:
                return d

    def kind(v):
        return 'list' if v[0] == 'list' else ('obj' if v[0] == 'obj' else v[0])
    return (path, kind(a), kind(b))


def member_shape(p):
    ty = p['ty']
    depth = 0
    while ty[0] == 'arr':
        depth += 1
        ty = ty[1]
    base = ty[1] if ty[0] == 'prim' else 'object'
    return ('array%d:' % depth if depth else '') + base + ('*' if D.is_multi(p) else '')


def request_features(fields, vals):
    """coarse shape of a value tuple: which kinds of member hold None, nested arrays"""
    feats = set()
    for p, v in zip(fields, vals):
        if v[0] == 'none':
            feats.add('none:' + member_shape(p))
        if p['ty'][0] == 'arr' and p['ty'][1][0] == 'arr':
            feats.add('nested-array')
    return ','.join(sorted(feats)) or '-'


def reason_key(e):
    s = str(e)
    for pat, k in (('class-name key', 'no-class-key'), ('message-name key', 'no-message-key'), ('unknown member', 'unknown-member'),
                   ('positional form', 'positional-arity'), ('leaf carried', 'leaf-form'), ('subclass', 'subclass'),
                   ('class name', 'class-name'), ('carried as', 'wrong-node')):
        if pat in s:
            return k
    return type(e).__name__


def oracle_case(check, w, c, s, args, rets, style, rpc=False, origin='generated', share=False, chunk_seed=None):
    """one call built by the documented conventions against the real implementation;
    returns True iff the property held.  share: equal object values of the returned values are ONE instance
    (inside a result and across the results of the call); what is expected does not change"""
    app = w.app(c, rpc)
    name = s['name']
    memo = {} if share else None
    if chunk_seed is None:
        chunk_seed = check.rng.getrandbits(32)
    # ByteArray values are returned as chunk sequences (lists / tuples / iterators, empty chunks, no chunk): the value
    # is the concatenation, whatever the chunking
    w.returns[name] = tuple(D.to_native(w.desc, w.classes, v, memo, chunks=random.Random(chunk_seed)) for v in rets)
    if share and not memo.get('hits'):
        share = False
    base = 'C02|%s%s|iw=%d|as=%s|poly=%d' % (c['proto'], '-rpc' if rpc else '', c['iw'], 'list' if c['list'] else 'dict', c['poly'])
    replay = {'cfg': c, 'rpc': rpc, 'desc': w.desc, 'sig': s, 'args': [D.jsonable(v) for v in args],
              'rets': [D.jsonable(v) for v in rets], 'style': style, 'origin': origin, 'share': bool(share), 'chunk_seed': chunk_seed,
              'shared_instances': (memo or {}).get('hits', 0)}
    shared = '|shared-instance' if share else ''
    snote = (' [equal objects in the returned values are one shared instance, %d reuses]' % memo['hits']) if share else ''
    if rpc:
        # msgpack-rpc: [type, msgid, method, params]; the parameters are positional, what is inside follows complex_as
        doc = [0, 7, D.ref_key(c, name, style), [D.ref_member(c, w.desc, f, x, style) for f, x in zip(s['params'], args)]]
    else:
        doc = D.ref_request(c, w.desc, s, args, style)
    if not D.wire_ok(c, doc):
        check.count(('oracle-wire-skip',), nontrivial=False)
        return True
    body = D.dumps(c, doc)
    replay['request_document'] = repr(doc)
    r = drive(w, app, body, rpc)
    check.count(('oracle', w.idx, D.cfg_name(c), rpc, name, repr(replay['args']), repr(style), bool(share),
                 repr(replay['rets']) if share else ''))
    res = r['res']
    kstyle = 'key=%s' % (style.get('key', 'str') if c['proto'] == 'msgpack' else 'str')
    if res[0] != 'call':
        what = ('%s request %s built by the documented conventions did not enter %s: %s'
                % (D.cfg_name(c), short(doc, 200), name, short(res)))
        how = res[0] if res[0] != 'crash' else 'crash-' + res[2]
        return not check.fail('%s|request|%s|not-called:%s|%s' % (base, kstyle, how, request_features(s['params'], args)),
                              what, dict(replay, observed=repr(res)))
    cname, cargs = res[1]
    got = [D.from_native(w.desc, w.classes, p, a, member=True) for p, a in zip(s['params'], cargs)]
    ok = True
    if cname != name or len(cargs) != len(args):
        ok = not check.fail('%s|request|%s|wrong-call' % (base, kstyle),
                            '%s: entered %s with %d arguments, expected %s with %d' % (D.cfg_name(c), cname, len(cargs), name, len(args)),
                            dict(replay, observed=repr(res)))
    else:
        for p, a, g in zip(s['params'], args, got):
            d = py_diff(a, g)
            if d:
                what = ('%s: argument %s of %s arrived as %s, sent %s (request %s)'
                        % (D.cfg_name(c), p['name'], name, short(D.jsonable(g), 160), short(D.jsonable(a), 160), short(doc, 200)))
                ok = not check.fail('%s|request|%s|arg:%s|%s->%s' % (base, kstyle, member_shape(p), d[1], d[2]), what,
                                    dict(replay, observed=[D.jsonable(x) for x in got])) and ok
                break
    od = r['out_doc']
    if od is None or od[0] != 'ok':
        return not check.fail('%s|response|serialize:%s|%s%s' % (base, 'none' if od is None else (od[2] if od[0] == 'crash' else od[0]),
                                                               request_features(s['results'], rets), shared),
                              '%s: the response of %s for return value %s could not be serialized: %s'
                              % (D.cfg_name(c), name, short([D.jsonable(v) for v in rets], 200), short(od)) + snote,
                              dict(replay, observed=repr(od))) and ok
    try:
        parsed = D.loads(c, r['out'])
    except Exception as e:
        return not check.fail('%s|response|unparseable' % base, '%s: response bytes do not parse: %r' % (D.cfg_name(c), e),
                              dict(replay, observed=repr(r['out'][:200]))) and ok
    try:
        if rpc:
            if not (isinstance(parsed, (list, tuple)) and len(parsed) == 4 and parsed[0] == 1 and parsed[2] is None):
                raise D.RefDecodeError('not a msgpack-rpc response [1, msgid, nil, result]: %r' % (parsed,))
            dec = D.ref_members_dec(c, w.desc, s['results'], parsed[3])
        else:
            dec = D.ref_response_dec(c, w.desc, s, parsed, w.out_name(app, s))
    except (D.RefDecodeError, ValueError, ArithmeticError) as e:
        return not check.fail('%s|response|undecodable:%s%s' % (base, reason_key(e),
                                                                  '' if reason_key(e) in ('no-message-key', 'unknown-member') else shared),
                              '%s: the response document %s of %s does not decode by the conventions of the request: %s'
                              % (D.cfg_name(c), short(parsed, 200), name, e) + snote,
                              dict(replay, observed=repr(parsed))) and ok
    for p, a, g in zip(s['results'], rets, dec):
        d = py_diff(a, g)
        if d:
            what = ('%s: result %s of %s decodes to %s, returned %s (response %s)'
                    % (D.cfg_name(c), p['name'], name, short(D.jsonable(g), 160), short(D.jsonable(a), 160), short(parsed, 200))
                    + snote)
            ok = not check.fail('%s|response|result:%s|%s->%s%s' % (base, member_shape(p), d[1], d[2], shared), what,
                                dict(replay, observed=[D.jsonable(x) for x in dec])) and ok
            break
    return ok


DIRECTED_DESC = {'classes': [
    {'name': 'A', 'parent': None, 'fields': [
        {'name': 'i', 'ty': ('prim', 'int', True), 'min': 0, 'max': 1, 'nillable': True},
        {'name': 's', 'ty': ('prim', 'text', True), 'min': 0, 'max': 1, 'nillable': True},
        {'name': 'b', 'ty': ('prim', 'bool', True), 'min': 0, 'max': 1, 'nillable': True}]},
    {'name': 'B', 'parent': 0, 'fields': [
        {'name': 'd', 'ty': ('prim', 'decimal', True), 'min': 0, 'max': 1, 'nillable': True},
        {'name': 'm', 'ty': ('prim', 'int', True), 'min': 0, 'max': None, 'nillable': True},
        {'name': 'aa', 'ty': ('arr', ('arr', ('prim', 'int', False))), 'min': 0, 'max': 1, 'nillable': True},
        {'name': 'o', 'ty': ('ref', 0), 'min': 1, 'max': 1, 'nillable': True},
        {'name': 'y', 'ty': ('prim', 'bytes', True), 'min': 0, 'max': 1, 'nillable': True}]},
    {'name': 'D', 'parent': None, 'fields': [
        {'name': 'p', 'ty': ('ref', 0), 'min': 0, 'max': 1, 'nillable': True},
        {'name': 'q', 'ty': ('ref', 0), 'min': 0, 'max': 1, 'nillable': True}]},
    {'name': 'C', 'parent': None, 'fields': [
        {'name': 'x', 'ty': ('ref', 0), 'min': 0, 'max': 1, 'nillable': True},
        {'name': 'y', 'ty': ('ref', 0), 'min': 0, 'max': 1, 'nillable': True},
        {'name': 'z', 'ty': ('arr', ('ref', 0)), 'min': 0, 'max': 1, 'nillable': True},
        {'name': 'm', 'ty': ('ref', 0), 'min': 0, 'max': None, 'nillable': True},
        {'name': 'd', 'ty': ('ref', 2), 'min': 0, 'max': 1, 'nillable': True},
        {'name': 'dd', 'ty': ('arr', ('ref', 2)), 'min': 0, 'max': 1, 'nillable': True}]},
    # every primitive with the documented option empty_is_none=True ('' / b'' are read as None; 0, 0.0, False are values)
    {'name': 'E', 'parent': None, 'fields': [
        {'name': 'ei', 'ty': ('prim', 'int', True, True), 'min': 0, 'max': 1, 'nillable': True},
        {'name': 'ed', 'ty': ('prim', 'double', True, True), 'min': 0, 'max': 1, 'nillable': True},
        {'name': 'eb', 'ty': ('prim', 'bool', True, True), 'min': 1, 'max': 1, 'nillable': False},
        {'name': 'ec', 'ty': ('prim', 'decimal', True, True), 'min': 0, 'max': 1, 'nillable': True},
        {'name': 'et', 'ty': ('prim', 'text', True, True), 'min': 0, 'max': 1, 'nillable': True},
        {'name': 'ey', 'ty': ('prim', 'bytes', True, True), 'min': 0, 'max': 1, 'nillable': True},
        {'name': 'ea', 'ty': ('arr', ('prim', 'int', False, True)), 'min': 0, 'max': 1, 'nillable': True},
        {'name': 'em', 'ty': ('prim', 'double', True, True), 'min': 0, 'max': None, 'nillable': True}]}]}


def directed_world():
    def P(n, ty, mn=0, mx=1, nil=True):
        return {'name': n, 'ty': ty, 'min': mn, 'max': mx, 'nillable': nil}
    sigs = [
        {'name': 'f', 'params': [P('i', ('prim', 'int', False)), P('s', ('prim', 'text', False)), P('a', ('ref', 0))],
         'results': [P('fResult', ('ref', 0))]},
        {'name': 'g', 'params': [P('b', ('ref', 1)), P('q', ('ref', 0), 1, 1, True)],
         'results': [P('gResult', ('ref', 1))]},
        {'name': 'h', 'params': [P('x', ('arr', ('arr', ('prim', 'decimal', False)))), P('z', ('arr', ('ref', 0)))],
         'results': [P('hResult', ('arr', ('arr', ('prim', 'decimal', False))))]},
        {'name': 'k', 'params': [P('n', ('prim', 'int', False)), P('d', ('prim', 'decimal', False)), P('u', ('prim', 'double', False)),
                                 P('y', ('prim', 'bytes', False)), P('t', ('prim', 'text', False))],
         'results': [P('kResult0', ('prim', 'int', False)), P('kResult1', ('prim', 'decimal', False)),
                     P('kResult2', ('prim', 'double', False)), P('kResult3', ('prim', 'bytes', False)),
                     P('kResult4', ('prim', 'text', False))]},
        {'name': 'e', 'params': [], 'results': []},
        {'name': 'p', 'params': [P('c', ('ref', 3))], 'results': [P('pResult', ('ref', 3))]},
        {'name': 'q', 'params': [], 'results': [P('qResult0', ('ref', 0)), P('qResult1', ('ref', 0)),
                                                 P('qResult2', ('arr', ('ref', 0))), P('qResult3', ('ref', 2))]},
        {'name': 'r', 'params': [], 'results': [P('rResult', ('arr', ('ref', 0)))]},
        {'name': 'u', 'params': [P('e', ('ref', 4)), P('z', ('prim', 'int', True, True)), P('t', ('prim', 'bool', True, True))],
         'results': [P('uResult0', ('ref', 4)), P('uResult1', ('prim', 'double', True, True)),
                     P('uResult2', ('prim', 'bytes', False))]},
    ]
    return World(None, 99, desc=DIRECTED_DESC, sigs=sigs)


def _has_none_multi(desc, p, v):
    """a None repeated member anywhere inside (not expressible in the positional form)"""
    if v[0] == 'none':
        return D.is_multi(p)
    if D.is_multi(p):
        return any(_val_none_multi(desc, p['ty'], x) for x in v[1])
    return _val_none_multi(desc, p['ty'], v)


def _val_none_multi(desc, ty, v):
    if v[0] == 'obj':
        return any(_has_none_multi(desc, f, x) for f, x in zip(D.flat_fields(desc, v[1]), v[2]))
    if v[0] == 'list' and ty[0] == 'arr':
        return any(_val_none_multi(desc, ty[1], x) for x in v[1])
    return False


def directed_cases(check, tier):
    """theorem witnesses and the shapes that used to fail, on a fixed universe, in every configuration"""
    import decimal
    Dd = decimal.Decimal
    w = directed_world()
    a1 = ('obj', 0, [('int', 1), ('text', 'q'), ('bool', True)])
    a0 = ('obj', 0, [('none',), ('none',), ('none',)])
    b1 = ('obj', 1, [('int', 2 ** 64), ('text', 'ü\U0001f600'), ('none',), ('decimal', Dd('1E+400')),
                     ('list', [('int', 1), ('int', -2 ** 63 - 1)]),
                     ('list', [('list', [('int', 1), ('int', 2)]), ('list', []), ('list', [('int', 3)])]), a1,
                     ('bytes', b'\x00\xff\xfb')])
    b_none = ('obj', 1, [('int', 5), ('none',), ('bool', False), ('none',), ('list', []), ('none',), ('none',), ('none',)])
    sig = {s['name']: s for s in w.sigs}
    scen = [
        ('f', [('int', 2 ** 63), ('text', 'x'), a1], [a1]),
        ('f', [('int', -2 ** 63 - 1), ('text', ''), a0], [a0]),
        ('f', [('none',), ('none',), ('none',)], [('none',)]),
        ('g', [b1, a1], [b1]),
        ('g', [b_none, ('none',)], [b_none]),
        ('h', [('list', [('list', [('decimal', Dd('1.10')), ('decimal', Dd('-0'))]), ('list', [])]), ('list', [a1, a0])],
         [('list', [('list', [('decimal', Dd('1E-7'))]), ('list', []), ('list', [('decimal', Dd('12345678901234567890.5'))])])]),
        ('k', [('int', 10 ** 300), ('decimal', Dd('-1.234567890123456789E+999')), ('double', 1.0), ('bytes', b''),
               ('text', '\U0010ffff퟿')],
         [('int', -(10 ** 300)), ('decimal', Dd('0.000001')), ('double', -0.0), ('bytes', bytes(range(256))), ('text', 'a\nb')]),
        ('e', [], []),
    ]
    # return values in which ONE instance occurs several times (a DAG, no cycle): at two sibling members, twice in an
    # array and in a repeated member, in a parent and inside its child's sibling, in two results of one call.  The
    # document is that of the unshared copy.
    dsh = ('obj', 2, [a1, a1])
    c_sh = ('obj', 3, [a1, a1, ('list', [a1, a1]), ('list', [a1, a1, a1]), dsh, ('list', [dsh, dsh])])
    c_mix = ('obj', 3, [a1, a0, ('list', [a0, a1, a0]), ('list', [a1]), ('obj', 2, [('none',), a1]), ('list', [])])
    shared_scen = [
        ('p', [c_sh], [c_sh]),
        ('p', [c_mix], [c_mix]),
        ('q', [], [a1, a1, ('list', [a1, a1]), dsh]),
        ('q', [], [a0, a1, ('list', [a1, a0]), ('obj', 2, [a0, a1])]),
        ('r', [], [('list', [a1, a1])]),
        ('r', [], [('list', [a1, a0, a1])]),
    ]
    # the falsy boundary value of every kind in members with empty_is_none=True, and ByteArray values that are returned
    # in several chunks (three chunk renderings each)
    e_zero = ('obj', 4, [('int', 0), ('double', 0.0), ('bool', False), ('decimal', Dd('0')), ('text', '0'), ('bytes', b'\x00'),
                         ('list', [('int', 0), ('int', 1), ('int', 0)]), ('list', [('double', -0.0), ('double', 0.0)])])
    e_mix = ('obj', 4, [('none',), ('double', 1.5), ('bool', True), ('decimal', Dd('0E+3')), ('none',), ('bytes', b'abcde'),
                        ('list', []), ('list', [])])
    ein_scen = [
        ('u', [e_zero, ('int', 0), ('bool', False)], [e_zero, ('double', 0.0), ('bytes', b'abcd' + bytes(range(7)))]),
        ('u', [e_mix, ('none',), ('none',)], [e_mix, ('double', -0.0), ('bytes', b'')]),
    ]
    for c in D.all_cfgs():
        styles = [{'key': 'str', 'text': 'str'}, {'key': 'bin', 'text': 'str'}, {'key': 'bin', 'text': 'bin'}] \
            if c['proto'] == 'msgpack' else [{}]
        for name, args, rets in ein_scen:
            if c['list'] and any(_has_none_multi(w.desc, p, v) for p, v in zip(sig[name]['params'], args)):
                continue
            for seed in (1, 2, 3, 4):      # 4 renders the empty value as no chunk at all
                oracle_case(check, w, c, sig[name], args, rets, styles[-1], origin='directed', chunk_seed=seed)
            if c['proto'] == 'msgpack' and c['iw']:
                oracle_case(check, w, c, sig[name], args, rets, {'key': 'str', 'text': 'str'}, rpc=True,
                            origin='directed', chunk_seed=4)
        for name, args, rets in shared_scen:
            for sh in (False, True):
                oracle_case(check, w, c, sig[name], args, rets, styles[-1], origin='directed', share=sh)
                if c['proto'] == 'msgpack' and c['iw']:
                    oracle_case(check, w, c, sig[name], args, rets, {'key': 'str', 'text': 'str'}, rpc=True,
                                origin='directed', share=sh)
        for name, args, rets in scen:
            none_multi = any(_has_none_multi(w.desc, p, v) for p, v in zip(sig[name]['params'], args)) or \
                any(_has_none_multi(w.desc, p, v) for p, v in zip(sig[name]['results'], rets))
            if c['list'] and none_multi:
                continue
            for st in styles:
                oracle_case(check, w, c, sig[name], args, rets, st, origin='directed')
            if c['proto'] == 'msgpack' and c['iw'] and not none_multi:
                oracle_case(check, w, c, sig[name], args, rets, {'key': 'str', 'text': 'str'}, rpc=True, origin='directed')
    return w


def family_oracle(check, tier, worlds, next_cfg):
    rng = check.rng
    per_world = 24 if tier == 'quick' else 96
    for w in worlds:
        for _ in range(per_world):
            c = next_cfg()
            for s in w.sigs:
                args = gen_args(rng, w, s, c, full=c['list'])
                rets = gen_rets(rng, w, s, c, full=c['list'])
                style = {'key': rng.choice(['str', 'bin']), 'text': rng.choice(['str', 'bin'])} if c['proto'] == 'msgpack' else {}
                oracle_case(check, w, c, s, args, rets, style)
                if any(r['ty'][0] != 'prim' for r in s['results']):
                    oracle_case(check, w, c, s, args, D.share_values(rng, gen_rets(rng, w, s, c, full=c['list'])), style, share=True)
                if c['proto'] == 'msgpack' and c['iw']:
                    oracle_case(check, w, c, s, gen_args(rng, w, s, c, full=True),
                                D.share_values(rng, gen_rets(rng, w, s, c, full=c['list'])),
                                {'key': rng.choice(['str', 'bin']), 'text': rng.choice(['str', 'bin'])}, rpc=True,
                                share=rng.random() < 0.5)


def probe_excluded(check):
    """the regions the theorems exclude, probed on purpose so that they stay visible as known findings:
    an instance of a subclass where wrappers are ignored; the positional form without wrapper keys"""
    w = directed_world()
    sig = {s['name']: s for s in w.sigs}
    a1 = ('obj', 0, [('int', 1), ('text', 'q'), ('bool', True)])
    bsub = ('obj', 1, [('int', 5), ('text', 'z'), ('bool', False), ('none',), ('list', [('int', 4)]), ('list', []), a1,
                       ('bytes', b'ab')])
    for proto in D.PROTOS:
        c = {'proto': proto, 'iw': True, 'list': False, 'poly': True, 'soft': False}
        oracle_case(check, w, c, sig['f'], [('int', 1), ('text', 'x'), a1], [bsub], {'key': 'bin', 'text': 'str'}, origin='probe')
        c = {'proto': proto, 'iw': False, 'list': True, 'poly': False, 'soft': False}
        oracle_case(check, w, c, sig['f'], [('int', 1), ('text', 'x'), a1], [a1], {'key': 'bin', 'text': 'str'}, origin='probe')


# ------------------------------------------------------------------ entry points
def D_ty(ty):
    if ty[0] == 'prim':
        return ty[1]
    if ty[0] == 'ref':
        return 'K%d' % ty[1]
    return 'Array(%s)' % D_ty(ty[1])


def run(check):
    tier = check.tier
    rng = check.rng
    t0 = time.time()
    check.rule = (
        'seeded type universes (2-5 ComplexModel classes with single inheritance; members Integer / Unicode / Boolean / '
        'Double / Decimal / ByteArray, class references, Array and Array(Array), repeated members, min_occurs / nillable) '
        'rendered as real Spyne classes and as Gallina terms; method signatures with 0-4 parameters and 0-3 results; '
        'conformant values (2^63 / 2^64 boundaries, 10^300, Decimals to E+-400, every UTF-8 length class, empty containers, None '
        'where allowed) and mutated documents (type confusion, dropped / renamed / added keys, str<->bin keys, wrapped / '
        'unwrapped nodes); all 48 configurations {Json, Yaml, MessagePack} x ignore_wrappers x complex_as x polymorphic x '
        'validator, plus MessagePackRpc; model vs implementation on _object_to_doc, _from_dict_value, and the ServerBase '
        'pipeline (request -> call, call -> response document); the direct oracle builds each request with a reference '
        'encoder of the documented conventions, checks the captured arguments, and decodes the response bytes (parsed '
        'by json / PyYAML / msgpack) with a reference decoder; a case is distinct by (family, universe, configuration, '
        'slot or signature, value or document)')
    check.trusted = list(lib.COMMON_TRUSTED) + [
        'translator harness/translate/dictdoc.py (hier.py / dictdoc/_base.py / json.py / yaml.py / msgpack.py / model/binary.py tokens and the handler tables of '
        'the protocol instances -> Gen/DictDoc.v)',
        'the Python reference codec ref_* in harness/dictdoc.py (the documented conventions as the direct oracle uses '
        'them) and its Coq counterpart coq/C02/Spec.v (senc / sresp / sresp_dec, conformance)',
        'the json, PyYAML and msgpack libraries as wire oracles: the model boundary is the parsed document tree; a '
        'request document the library does not carry unchanged is skipped',
        'C08 theorems reused for leaves carried as text: int_of_text_str_int (integers), b64_roundtrip (ByteArray)',
    ]
    check.assumptions = [
        'value graphs are acyclic (Spyne cuts genuine cycles by design: out of scope); an instance may be shared (a DAG): '
        'the model has no object identities, so its document is a function of the value alone; the oracle and the '
        '_object_to_doc / response correspondences return the same instance at sibling members, repeated in arrays and '
        'repeated members, inside a sibling subtree and across the results of one call, and expect the document of '
        'the unshared copy; the translator pins that the id set of the cycle guard is copied per object',
        'member types may carry empty_is_none=True (modelled: DPrimE; the empty text / byte string is None there by the '
        'documented meaning of the option and is not generated as a value); Attributes.default is not modelled or generated; '
        'a ByteArray value is the concatenation of its chunks: natives are rendered as random chunk sequences (list / tuple / '
        'iterator, empty chunks, no chunk, plain bytes) and the reference reader decodes base64 strictly (RFC 4648, canonical)',
        'body_style is wrapped; no sub_name / order / exc / out_type / type / not_wrapped / simple_field attributes, no File, '
        'Any, AnyDict, XmlAttribute, Uuid, Date/Time/Duration members (dates etc. travel as text exactly like Decimal; '
        'their text codecs are C08 theorems, not re-proved here)',
        'Double values are finite; equality of doubles is Python equality (0.0 / -0.0 / 1.0 arrive as 0 / 0 / 1: vnorm)',
        'Decimal() / int() are modelled for ASCII digits without underscores, NaN / Infinity; nan / inf floats are kept '
        'out of the mutant stream; a float in a Decimal slot (non-conformant; read as Decimal(repr(float))) is outside '
        'the model: the harness watches the Decimal reader and does not compare such a case',
        'MessagePack text and keys are str or bin in requests (both styles are driven); Spyne itself writes bin',
        'theorems exclude, and the oracle reports as known findings: complex_as=list with ignore_wrappers=False '
        '(responses lack the wrapper keys), subclass instances under polymorphic=True with ignore_wrappers=True; '
        'MessagePackRpc: theorems for ignore_wrappers=True (its positional parameter convention); the response carries msgid 0, not the request\'s',
        'a user function is entered exactly once per request in the model by construction (SCall); exactly-once at the '
        'pipeline level is observed by the oracle (one recorded call), not proved here',
    ]
    check.regen(['dictdoc', 'numtypes'])
    check.check_sources()
    if THEOREMS:
        check.prove('Props.C02', THEOREMS)
    else:
        ok, log = lib.build(['Wire/Dict.vo'])
        if not ok:
            check.broken.append(('proof', 'Wire/Dict.v', log[-500:]))
    check.log('proofs checked in %.1fs' % (time.time() - t0))
    t0 = time.time()
    n_worlds = 5 if tier == 'quick' else 24
    worlds = [World(rng, i) for i in range(n_worlds)]
    next_cfg = cfg_cycle(rng)
    for w in worlds[:2]:
        check.sample({'universe': [{'class': c['name'], 'parent': c['parent'],
                                    'members': ['%s: %s%s' % (f['name'], D_ty(f['ty']), '*' if D.is_multi(f) else '')
                                                for f in c['fields']]} for c in w.desc['classes']],
                      'methods': ['%s(%s) -> (%s)' % (s['name'], ', '.join(D_ty(p['ty']) for p in s['params']),
                                                      ', '.join(D_ty(r['ty']) for r in s['results'])) for s in w.sigs]})
    directed_cases(check, tier)
    family_oracle(check, tier, worlds, next_cfg)
    probe_excluded(check)
    check.log('oracle ran in %.1fs' % (time.time() - t0))
    t0 = time.time()
    family_leaf(check, tier)
    family_struct(check, tier, worlds, next_cfg)
    family_serve(check, tier, worlds, next_cfg)
    check.log('correspondence cases generated in %.1fs' % (time.time() - t0))
    t0 = time.time()
    lib.flush_correspondences(check)
    check.log('correspondences evaluated in %.1fs' % (time.time() - t0))
    return check.finish()


def _ty(t):
    t = tuple(t)
    if t[0] == 'arr':
        return ('arr', _ty(t[1]))
    return t


def _tuplify_desc(d):
    return {'classes': [{'name': c['name'], 'parent': c['parent'],
                         'fields': [dict(f, ty=_ty(f['ty'])) for f in c['fields']]} for c in d['classes']]}


def _tuplify_sig(s):
    return {'name': s['name'], 'params': [dict(f, ty=_ty(f['ty'])) for f in s['params']],
            'results': [dict(f, ty=_ty(f['ty'])) for f in s['results']]}


def replay(check, path):
    j = json.load(open(path))
    r = j['replay']
    if 'cfg' not in r:
        check.say('replay file names a broken obligation / correspondence, not an input: %s' % j.get('key'))
        return check.finish()
    sig = _tuplify_sig(r['sig'])
    w = World(None, 0, desc=_tuplify_desc(r['desc']), sigs=[sig])
    args = [D.unjsonable(x) for x in r['args']]
    rets = [D.unjsonable(x) for x in r['rets']]
    ok = oracle_case(check, w, r['cfg'], sig, args, rets, r.get('style') or {}, rpc=r.get('rpc', False), origin='replay',
                     share=r.get('share', False), chunk_seed=r.get('chunk_seed', 0))
    check.say('replay %s: %s' % (path, 'the property holds on this input' if ok else 'the property fails on this input'))
    return check.finish()
