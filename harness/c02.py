"""C02 — dict-document wire fidelity (JSON, YAML, MessagePack)."""
import os, sys, json, copy, traceback
import lib
from lib import gz, gtext, glist, gbool, gopt
import dictdoc as D

THEOREMS = []   # filled in below (kept next to the proof work)

FUEL = 40
IMPORTS = ('From SpyneV Require Import Base.Prelude Base.Ext Wire.Dict.\n'
           'Definition jout_eqb := out_eqb jv_eqb.\n'
           'Definition vout_eqb := out_eqb dval_eqb.\n')


# ------------------------------------------------------------------ document mutations (malformed stream)
def scalar_pool(c):
    pool = [None, True, False, 0, 1, 7, -1, 2 ** 70, 1.5, 1.0, 0.0, 'x', '12', '', '1.5', ' 7 ', [], {}, [1], ['a'],
            {'a': 1}, '-0', '1e3', 'AP8=', 'A']
    if c['proto'] != 'json':
        pool += [b'ab', b'12', b'', b'\xff\xfe']
    return pool


def paths(d, p=()):
    yield p
    if isinstance(d, dict):
        for k in d:
            yield from paths(d[k], p + (('k', k),))
    elif isinstance(d, list):
        for i, x in enumerate(d):
            yield from paths(x, p + (('i', i),))


def get_at(d, p):
    for kind, k in p:
        d = d[k]
    return d


def set_at(d, p, v):
    if not p:
        return v
    d = copy.deepcopy(d)
    cur = d
    for kind, k in p[:-1]:
        cur = cur[k]
    cur[p[-1][1]] = v
    return d


def mutate(rng, c, doc):
    """one random structural or type mutation of a document"""
    ps = list(paths(doc))
    p = rng.choice(ps)
    node = get_at(doc, p)
    r = rng.random()
    if r < 0.45:
        return set_at(doc, p, copy.deepcopy(rng.choice(scalar_pool(c))))
    if isinstance(node, dict):
        node = dict(node)
        keys = list(node)
        if r < 0.6 and keys:
            del node[rng.choice(keys)]
        elif r < 0.7:
            node['zz'] = copy.deepcopy(rng.choice(scalar_pool(c)))
        elif r < 0.8 and keys:
            k = rng.choice(keys)
            items = [(('K9' if kk == k else kk), vv) for kk, vv in node.items()]
            node = dict(items)
        elif r < 0.9 and keys and c['proto'] == 'msgpack':
            k = rng.choice(keys)
            k2 = k.decode('utf8', 'replace') if isinstance(k, bytes) else (k.encode('utf8') if isinstance(k, str) else k)
            items = [((k2 if kk == k else kk), vv) for kk, vv in node.items()]
            node = dict(items)
        else:
            node = list(node.values())
        return set_at(doc, p, node)
    if isinstance(node, list):
        node = list(node)
        if r < 0.6 and node:
            del node[rng.randrange(len(node))]
        elif r < 0.75:
            node.insert(rng.randint(0, len(node)), copy.deepcopy(rng.choice(scalar_pool(c))))
        elif r < 0.85 and node:
            node.append(copy.deepcopy(rng.choice(node)))
        else:
            node = {'K0': node}
        return set_at(doc, p, node)
    if r < 0.7:
        return set_at(doc, p, [node])
    return set_at(doc, p, {'K0': node})


def modelled_doc(d):
    """documents the model covers: no nan / inf floats; no list that Decimal() could read as a
    (sign, digits, exponent) triple"""
    if isinstance(d, float):
        return d == d and d not in (float('inf'), float('-inf'))
    if isinstance(d, (list, tuple)):
        if len(d) == 3 and d[0] in (0, 1) and isinstance(d[1], (list, tuple)):
            return False
        return all(modelled_doc(x) for x in d)
    if isinstance(d, dict):
        return all(modelled_doc(k) and modelled_doc(v) for k, v in d.items())
    return True


# ------------------------------------------------------------------ structural correspondence
class World(object):
    """one universe rendered both ways"""

    def __init__(self, rng, idx, n_classes=None):
        self.idx = idx
        self.desc = D.gen_universe(rng, n_classes=n_classes or rng.randint(2, 5), max_fields=4)
        self.classes = D.build_spyne(self.desc)
        self.g_universe = D.g_universe(self.desc, self.classes)

    def slots(self, rng, n):
        """member descriptions to exercise: members of the classes, and synthetic ones"""
        out = []
        for ci, c in enumerate(self.desc['classes']):
            for f in c['fields']:
                out.append((f, self.classes[ci]._type_info[f['name']]))
            f = {'name': 'o%d' % ci, 'ty': ('ref', ci), 'min': rng.choice([0, 1]), 'max': 1, 'nillable': rng.random() < 0.7}
            out.append((f, D.field_type(self.classes, f)))
        for i in range(n):
            s = D.gen_sig(rng, self.desc, 'm', 1, 0)['params'][0]
            out.append((s, D.field_type(self.classes, s)))
        return out


def g_slot(f, T):
    A = T.Attributes
    return (gbool(A.max_occurs > 1), D.g_dty(f['ty'], T), gbool(bool(A.nillable)))


def family_struct(check, tier):
    rng = check.rng
    n_worlds = 6 if tier == 'quick' else 40
    cfgs = D.all_cfgs()
    rng.shuffle(cfgs)
    per_world = len(cfgs) // n_worlds + 1 if tier == 'quick' else len(cfgs)
    ci = 0
    for wi in range(n_worlds):
        w = World(rng, wi)
        slots = w.slots(rng, 4)
        enc_cases, dec_cases = [], []
        for _ in range(per_world):
            c = cfgs[ci % len(cfgs)]
            ci += 1
            prot = D.make_protocol(c)
            gc = D.g_cfg(c)
            for f, T in slots:
                multi, gty, gnil = g_slot(f, T)
                for rep in range(2 if tier == 'quick' else 4):
                    v = D.gen_field_value(rng, w.desc, f, 2, c['poly'], full=(rep == 1 and c['list']))
                    nat = D.to_native(w.desc, w.classes, v)
                    o = D.observe(prot._object_to_doc, T, nat)
                    if o[0] == 'ok' and not D.doc_in_universe(o[1]):
                        continue
                    enc_cases.append(('(%s, %s, %s, %s, %s)' % (gc, multi, gty, D.g_val(v), D.g_out(o, D.g_doc)),
                                      ('w%d %s _object_to_doc %s %r -> %r' % (wi, D.cfg_name(c), f['name'], D.jsonable(v), o))[:400]))
                    check.count(('enc', wi, D.cfg_name(c), f['name'], repr(D.jsonable(v))))
                    # documents: the reference form, Spyne's own form, and mutants of both
                    docs = []
                    for style in ({'key': 'str', 'text': 'str'}, {'key': 'bin', 'text': 'bin'}):
                        try:
                            docs.append(D.ref_member(c, w.desc, f, v, style))
                        except Exception:
                            pass
                        if c['proto'] != 'msgpack':
                            break
                    if o[0] == 'ok':
                        docs.append(o[1])
                    base = list(docs)
                    for d0 in base:
                        for _m in range(2 if tier == 'quick' else 5):
                            try:
                                docs.append(mutate(rng, c, D._listify(d0)))
                            except Exception:
                                pass
                    for d in docs:
                        if not modelled_doc(d) or not D.doc_in_universe(d):
                            continue
                        if multi == 'true':
                            continue    # a repeated member is read item by item inside its parent (exercised through objects)
                        od = D.observe(prot._from_dict_value, None, 'k', T, d, prot.validator)
                        if od[0] == 'ok':
                            nv = D.from_native(w.desc, w.classes, f, od[1], member=True)
                            if not D.in_universe(nv):
                                continue
                            od = ('ok', nv)
                        dec_cases.append(('(%s, %s, %s, %s, %s)' % (gc, gnil, gty, D.g_doc(d), D.g_out(od, D.g_val)),
                                          ('w%d %s _from_dict_value %s %r -> %r' % (wi, D.cfg_name(c), f['name'], d, od if od[0] != 'ok' else D.jsonable(od[1])))[:400]))
                        check.count(('dec', wi, D.cfg_name(c), f['name'], repr(d)))
        imports = IMPORTS + 'Definition U : duniverse := %s.\n' % w.g_universe
        lib.correspond(check, 'object_to_doc_w%d' % wi, imports, 'cfg * bool * dty * dval * out jv',
                       "(fun x => let '(c, m, t, v, o) := x in jout_eqb (o2d c U %d m t v) o)" % FUEL, enc_cases,
                       show="(fun x : cfg * bool * dty * dval * out jv => let '(c, m, t, v, o) := x in o2d c U %d m t v)" % FUEL)
        lib.correspond(check, 'from_dict_value_w%d' % wi, imports, 'cfg * bool * dty * jv * out dval',
                       "(fun x => let '(c, n, t, j, o) := x in vout_eqb (fdv c U %d n t j) o)" % FUEL, dec_cases,
                       show="(fun x : cfg * bool * dty * jv * out dval => let '(c, n, t, j, o) := x in fdv c U %d n t j)" % FUEL)


def run(check):
    tier = check.tier
    check.regen([])
    check.check_sources()
    if THEOREMS:
        check.prove('Props.C02', THEOREMS)
    else:
        ok, log = lib.build(['Wire/Dict.vo'])
        if not ok:
            check.broken.append(('proof', 'Wire/Dict.v', log[-500:]))
    import time
    t0 = time.time()
    family_struct(check, tier)
    check.log('struct cases generated in %.1fs' % (time.time() - t0))
    t0 = time.time()
    lib.flush_correspondences(check)
    check.log('correspondences evaluated in %.1fs' % (time.time() - t0))
    return check.finish()


def replay(check, path):
    return check.finish()
