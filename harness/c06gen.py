"""C06 generator: type universes with facets, rendered as real Spyne classes and applications.

A universe is a plain (JSON-able) description:

  desc  = {'tns': str, 'classes': [CLS], 'simples': [SIMPLE] (optional), 'methods': [cid] (optional)}
  SIMPLE= {'ns': str, 'name': str, 'leaf': LEAF}      a named simple type (type_name / __namespace__)
  CLS   = {'ns': str, 'name': str, 'parent': int|None, 'fields': [FIELD]}
  FIELD = {'name': str, 'ty': TY, 'min': int, 'max': int|None (None = unbounded), 'nillable': bool,
           'kind': 'elem'|'attr', 'choice': str|None, 'default': VALUE|None}
  TY    = ['leaf', LEAF] | ['ref', cid] | ['arr', TY]
  LEAF  = {'base': BASE, 'facets': {name: VALUE | [VALUE] | int | str}}
          a use of a named simple type carries in addition 'named': index into simples, 'own': the
          facets of the second customisation step (possibly none), 'plain': True when the member is
          the named type itself; 'facets' is then the effective (inherited + own) set
  VALUE = ['none'] | ['int', z] | ['text', s] | ['bool', b] | ['dec', 'sign digits exp' as str(Decimal)]
        | ['dbl', repr] | ['date', iso] | ['time', iso] | ['dt', iso] | ['dur', microseconds]
        | ['uuid', s] | ['bytes', hex] | ['chunks', [hex], 'tuple'|'list'] (a ByteArray value given as a
          sequence of chunks) | ['obj', cid, [VALUE]] | ['list', [VALUE]]
        | ['as', PYKIND, VALUE]  the same leaf value handed over as another Python type that is an instance of
          (or commonly passed for) the native type: 'datetime' / 'datetime-utc' for a Date, 'int' / 'float' for a
          Decimal, 'int' for a Double / Float / Boolean, 'strsub' (a str subclass) for a string, 'bool' for an integer
  EVOLVE = [{'op': 'append'|'insert'|'replace', 'cid': int, 'index': int, 'field': FIELD}]  members added to /
          replaced in a class after the classes have been used (append_field / insert_field / _replace_field)

Everything random comes from the rng passed in.  Nothing here looks at the schema Spyne
generates: the reference predicates (leaf_conforms, ...) are written from the declared
constraints alone."""
import datetime, decimal, uuid, re, math

D = decimal.Decimal

INT_BOUNDS = {
    'integer': (None, None), 'nonNegativeInteger': (0, None),
    'long': (-2 ** 63, 2 ** 63 - 1), 'int': (-2 ** 31, 2 ** 31 - 1), 'short': (-2 ** 15, 2 ** 15 - 1),
    'byte': (-128, 127), 'unsignedLong': (0, 2 ** 64 - 1), 'unsignedInt': (0, 2 ** 32 - 1),
    'unsignedShort': (0, 2 ** 16 - 1), 'unsignedByte': (0, 255),
}
INT_BASES = list(INT_BOUNDS)
STR_BASES = ['string', 'anyURI']
ORD_BASES = ['decimal', 'double', 'float', 'date', 'time', 'dateTime']
PLAIN_BASES = ['boolean', 'duration', 'uuid', 'base64Binary']
EXTRA_BASES = ['hexBinary', 'urlsafeBinary']     # ByteArray(encoding='hex' / 'urlsafe_base64'): direct oracle only
BYTE_BASES = ['base64Binary'] + EXTRA_BASES
ALL_BASES = INT_BASES + STR_BASES + ORD_BASES + PLAIN_BASES
UUID_RE = re.compile(r'[0-9a-fA-F]{8}(-[0-9a-fA-F]{4}){3}-[0-9a-fA-F]{12}')

# patterns on which Python's re (full match) and XSD regular expressions agree
PATTERNS = ['[a-z]+', '[0-9]{3}', 'a|ab', '(x|y)*z', '[A-Z][a-z]*', 'ab?c', '.*']
PATTERN_SAMPLES = {
    '[a-z]+': ['a', 'abc', 'zz', 'A', '', 'ab1', 'abc '], '[0-9]{3}': ['123', '000', '12', '1234', 'abc', ''],
    'a|ab': ['a', 'ab', 'b', 'abc', ''], '(x|y)*z': ['z', 'xz', 'xyxz', 'x', 'zz', ''],
    '[A-Z][a-z]*': ['A', 'Abc', 'abc', 'AB', ''], 'ab?c': ['ac', 'abc', 'abbc', 'a', ''],
    '.*': ['', 'anything', 'x y'],
}
TEXT_POOL = ['', 'a', 'ab', 'abc', 'hello', 'x y', ' lead', 'trail ', '<&>"\'', 'ünï', '中文', '0', 'true',
             'None', 'A', 'Abc', '123', 'z', 'xz', 'ac', 'abcdefghij', 'abcdefghijk', '\U0001f600']
URI_POOL = ['http://a/b', 'urn:x:y', 'a', 'http://example.com/a?b=c', 'mailto:x@y.z', 'abc', 'abcdefghijklmnopqrstu']
INT_POOL = [0, 1, -1, 2, 7, 9, 10, 99, 100, 127, 128, -128, -129, 255, 256, 32767, 32768, -32768, 65535, 65536,
            2 ** 31 - 1, 2 ** 31, -2 ** 31, -2 ** 31 - 1, 2 ** 32 - 1, 2 ** 32, 2 ** 63 - 1, 2 ** 63, -2 ** 63,
            -2 ** 63 - 1, 2 ** 64 - 1, 2 ** 64, 10 ** 30, -10 ** 30]
DEC_POOL = ['0', '1', '-1', '0.5', '-0.5', '1.50', '12.345', '100', '1E+2', '1E+10', '2.8E+10', '1E-7', '1.2E-8', '-3E+3', '0E+3',
            '0.000001', '0.0000001', '123456789.123456789', '-0.00', '99.99', '100.00', '1000', '999.999']
FINE_DBL = [2.5e-06, 1.25e-07, 0.1234567, 0.00000049, 3.0000004, 123456.7890123, -2.5e-06, -0.7654321]
DBL_POOL = [0.0, 1.0, -1.0, 0.5, 1.5, 2.5, 1e22, 1e-5, 1e16, 123456.789, -2.5e-10, 3.141592653589793, 1e308, 5e-324, 100.0]


# ------------------------------------------------------------------ neutral values <-> native
def core(v):
    """the leaf value behind the Python type it is handed over as"""
    while v[0] == 'as':
        v = v[2]
    return v


class StrSub(str):
    pass


def to_native_leaf(v):
    k = v[0]
    if k == 'as':
        o = to_native_leaf(v[2])
        if v[1] == 'datetime':
            return datetime.datetime(o.year, o.month, o.day, 12, 30, 15)
        if v[1] == 'datetime-utc':
            return datetime.datetime(o.year, o.month, o.day, 23, 59, 59, 250000, tzinfo=datetime.timezone.utc)
        if v[1] == 'int':
            return int(o)
        if v[1] == 'float':
            return float(o)
        if v[1] == 'bool':
            return bool(o)
        if v[1] == 'strsub':
            return StrSub(o)
        raise ValueError(v)
    if k == 'none':
        return None
    if k in ('int', 'text', 'bool', 'uuid_s'):
        return v[1]
    if k == 'dec':
        return D(v[1])
    if k == 'dbl':
        return float(v[1])
    if k == 'date':
        return datetime.date.fromisoformat(v[1])
    if k == 'time':
        return datetime.time.fromisoformat(v[1])
    if k == 'dt':
        return datetime.datetime.fromisoformat(v[1])
    if k == 'dur':
        return datetime.timedelta(microseconds=v[1])
    if k == 'uuid':
        return uuid.UUID(v[1])
    if k == 'bytes':
        return bytes.fromhex(v[1])
    if k == 'chunks':
        return (tuple if v[2] == 'tuple' else list)(bytes.fromhex(c) for c in v[1])
    raise ValueError(v)


def denoted_bytes(v):
    return bytes.fromhex(v[1]) if v[0] == 'bytes' else b''.join(bytes.fromhex(c) for c in v[1])


def canon_text(base, v):
    """the canonical XSD literal of a neutral leaf value, written independently of Spyne"""
    v = core(v)
    k = v[0]
    if k == 'int':
        return str(v[1])
    if k == 'text':
        return v[1]
    if k == 'bool':
        return 'true' if v[1] else 'false'
    if k == 'dec':
        return format(D(v[1]), 'f')
    if k == 'dbl':
        f = float(v[1])
        if f != f:
            return 'NaN'
        if f in (float('inf'), float('-inf')):
            return 'INF' if f > 0 else '-INF'
        return repr(f)
    if k in ('date', 'time', 'dt'):
        return v[1]
    if k == 'dur':
        us = v[1]
        neg = us < 0
        us = abs(us)
        days, rem = divmod(us, 86400 * 10 ** 6)
        h, rem = divmod(rem, 3600 * 10 ** 6)
        m, rem = divmod(rem, 60 * 10 ** 6)
        s, frac = divmod(rem, 10 ** 6)
        out = ('-' if neg else '') + 'P%dDT%dH%dM%d' % (days, h, m, s)
        if frac:
            out += ('.%06d' % frac).rstrip('0')
        return out + 'S'
    if k == 'uuid':
        return v[1]
    if k in ('bytes', 'chunks'):
        import base64
        b = denoted_bytes(v)
        if base == 'hexBinary':
            return b.hex()
        if base == 'urlsafeBinary':
            return base64.urlsafe_b64encode(b).decode()
        return base64.b64encode(b).decode()
    raise ValueError(v)


def xml_ok_text(s):
    return all(c in '\t\n\r' or 0x20 <= ord(c) <= 0xD7FF or 0xE000 <= ord(c) <= 0xFFFD or 0x10000 <= ord(c) <= 0x10FFFF
               for c in s)


# ------------------------------------------------------------------ ordering of ordered leaf values
def ord_key(v):
    v = core(v)
    k = v[0]
    if k == 'int':
        return D(v[1])
    if k == 'dec':
        return D(v[1])
    if k == 'dbl':
        return float(v[1])
    if k == 'date':
        return datetime.date.fromisoformat(v[1])
    if k == 'time':
        return datetime.time.fromisoformat(v[1])
    if k == 'dt':
        return datetime.datetime.fromisoformat(v[1])
    raise ValueError(v)


def same_value(a, b):
    a, b = core(a), core(b)
    if a[0] != b[0]:
        return False
    if a[0] in ('int', 'dec', 'dbl', 'date', 'time', 'dt'):
        return ord_key(a) == ord_key(b)
    return a[1] == b[1]


def dec_digits(d):
    """(total digits, fraction digits) of a finite Decimal in the XSD sense (value space: no
    leading zeros, no trailing fractional zeros)"""
    d = d.normalize() if d != 0 else D(0)
    sign, digits, exp = d.as_tuple()
    if d == 0:
        return 1, 0
    if exp >= 0:
        return len(digits) + exp, 0
    frac = -exp
    total = max(len(digits), frac)
    return total, frac


# ------------------------------------------------------------------ reference predicate: declared constraints of a leaf
def leaf_conforms(leaf, v, publishable_only=False):
    """does the (non-None) neutral value satisfy the declared constraints of the leaf type?
    Written from the Spyne attribute documentation: gt/ge/lt/le, values, min_len/max_len,
    pattern (whole string), total_digits/fraction_digits, hardware bounds."""
    base, fa = leaf['base'], leaf['facets']
    v = core(v)
    if base in INT_BOUNDS:
        if v[0] != 'int':
            return False
        lo, hi = INT_BOUNDS[base]
        if lo is not None and v[1] < lo:
            return False
        if hi is not None and v[1] > hi:
            return False
    if base in INT_BOUNDS or base in ORD_BASES:
        k = ord_key(v)
        if k != k:      # NaN satisfies no range facet; without facets it is a double
            return not any(f in fa for f in ('gt', 'ge', 'lt', 'le', 'values'))
        if 'gt' in fa and not k > ord_key(fa['gt']):
            return False
        if 'ge' in fa and not k >= ord_key(fa['ge']):
            return False
        if 'lt' in fa and not k < ord_key(fa['lt']):
            return False
        if 'le' in fa and not k <= ord_key(fa['le']):
            return False
        if 'total_digits' in fa or 'fraction_digits' in fa:
            td, fd = dec_digits(D(v[1]))
            if 'total_digits' in fa and td > fa['total_digits']:
                return False
            if 'fraction_digits' in fa and fd > fa['fraction_digits']:
                return False
    if base in STR_BASES:
        s = v[1]
        if 'min_len' in fa and len(s) < fa['min_len']:
            return False
        if 'max_len' in fa and len(s) > fa['max_len']:
            return False
        if 'pattern' in fa and re.fullmatch(fa['pattern'], s) is None:
            return False
    if base == 'uuid' and UUID_RE.fullmatch(v[1]) is None:
        return False
    if 'values' in fa and fa['values']:
        if not any(same_value(v, w) for w in fa['values']):
            return False
    return True


# ------------------------------------------------------------------ generation of leaf types
def _around(rng, c, spread=3):
    return c + rng.randint(-spread, spread)


def gen_leaf_type(rng, base=None, facet_p=0.7, extra=False):
    base = base or rng.choice(INT_BASES * 2 + STR_BASES * 3 + ORD_BASES * 2 + PLAIN_BASES + (EXTRA_BASES * 2 if extra else []))
    fa = {}
    if rng.random() >= facet_p:
        return {'base': base, 'facets': fa}
    if base in INT_BOUNDS:
        lo, hi = INT_BOUNDS[base]
        pool = [x for x in INT_POOL if (lo is None or x >= lo) and (hi is None or x <= hi)]
        c = rng.choice(pool)
        if lo is not None and hi is not None:
            c = max(lo + 5, min(hi - 5, c))
        elif lo is not None:
            c = max(lo + 5, c)
        r = rng.random()
        if r < 0.2:
            fa['values'] = [['int', _around(rng, c)] for _ in range(rng.randint(1, 3))]
        elif r < 0.3:
            fa['total_digits'] = rng.randint(1, 6)
        else:
            w = rng.choice([0, 1, 2, 5, 100])
            if rng.random() < 0.7:
                fa[rng.choice(['ge', 'gt'])] = ['int', c - w]
            if rng.random() < 0.7:
                fa[rng.choice(['le', 'lt'])] = ['int', c + w + rng.choice([0, 1, 2])]
        # keep facet values inside the hardware bounds (Spyne refuses or warns otherwise)
        for k in ('ge', 'gt', 'le', 'lt'):
            if k in fa:
                z = fa[k][1]
                if lo is not None:
                    z = max(z, lo)
                if hi is not None:
                    z = min(z, hi)
                fa[k] = ['int', z]
        if 'values' in fa:
            fa['values'] = [['int', min(hi, max(lo, v[1])) if lo is not None and hi is not None else
                             (max(lo, v[1]) if lo is not None else v[1])] for v in fa['values']]
    elif base in STR_BASES:
        r = rng.random()
        if r < 0.25:
            fa['values'] = [['text', s] for s in rng.sample([t for t in (URI_POOL if base == 'anyURI' else TEXT_POOL)
                                                             if t and xml_ok_text(t)], rng.randint(1, 3))]
        elif r < 0.45:
            fa['pattern'] = rng.choice(PATTERNS)
        else:
            a = rng.choice([0, 1, 2, 3])
            if rng.random() < 0.6 and a > 0:          # min_len=0 is the class default: not a customisation
                fa['min_len'] = a
            if rng.random() < 0.7:
                fa['max_len'] = a + rng.choice([0, 1, 3, 8])
            if rng.random() < 0.2:
                fa['pattern'] = rng.choice(PATTERNS)
    elif base == 'decimal':
        r = rng.random()
        c = D(rng.choice(DEC_POOL))
        if r < 0.2:
            fa['values'] = [['dec', rng.choice(DEC_POOL)] for _ in range(rng.randint(1, 3))]
        elif r < 0.45:
            td = rng.randint(1, 8)
            fa['total_digits'] = td
            if rng.random() < 0.7:
                fa['fraction_digits'] = rng.randint(0, td)
        else:
            w = D(rng.choice(['0', '0.5', '1', '1E+1', '2.5E+2']))
            if rng.random() < 0.7:
                fa[rng.choice(['ge', 'gt'])] = ['dec', str(c - w)]
            if rng.random() < 0.7:
                fa[rng.choice(['le', 'lt'])] = ['dec', str(c + w)]
    elif base == 'double' and rng.random() < 0.3:
        # bounds / enumerations that need more than six decimals, or lie below 1e-6
        c = rng.choice(FINE_DBL)
        if rng.random() < 0.25:
            fa['values'] = [['dbl', repr(x)] for x in rng.sample(FINE_DBL, rng.randint(1, 3))]
        else:
            if rng.random() < 0.8:
                fa[rng.choice(['ge', 'gt'])] = ['dbl', repr(c)]
            if rng.random() < 0.6:
                fa[rng.choice(['le', 'lt'])] = ['dbl', repr(c + abs(c) * rng.choice([0.25, 1.0, 3.0]))]
    elif base in ('double', 'float'):
        pool = DBL_POOL if base == 'double' else [0.0, 1.0, -1.0, 0.5, 1.5, 2.5, 100.0, 1024.0, -0.25]
        c = rng.choice(pool)
        if abs(c) > 1e15 or (c != 0 and abs(c) < 1e-4):
            c = 1.5
        if rng.random() < 0.2:
            fa['values'] = [['dbl', repr(rng.choice(pool))] for _ in range(rng.randint(1, 3))]
        else:
            if rng.random() < 0.7:
                fa[rng.choice(['ge', 'gt'])] = ['dbl', repr(c - rng.choice([0.0, 0.5, 1.0]))]
            if rng.random() < 0.7:
                fa[rng.choice(['le', 'lt'])] = ['dbl', repr(c + rng.choice([0.0, 0.5, 2.0]))]
    elif base == 'date':
        c = datetime.date(2020, 2, 28) + datetime.timedelta(days=rng.randint(-400, 400))
        if rng.random() < 0.7:
            fa[rng.choice(['ge', 'gt'])] = ['date', (c - datetime.timedelta(days=rng.choice([0, 1, 30]))).isoformat()]
        if rng.random() < 0.7:
            fa[rng.choice(['le', 'lt'])] = ['date', (c + datetime.timedelta(days=rng.choice([0, 1, 30]))).isoformat()]
    elif base == 'time':
        c = rng.randint(3600, 80000)
        def tm(s):
            s = max(0, min(86399, s))
            return datetime.time(s // 3600, (s // 60) % 60, s % 60).isoformat()
        if rng.random() < 0.7:
            fa[rng.choice(['ge', 'gt'])] = ['time', tm(c - rng.choice([0, 1, 600]))]
        if rng.random() < 0.7:
            fa[rng.choice(['le', 'lt'])] = ['time', tm(c + rng.choice([0, 1, 600]))]
    elif base == 'dateTime':
        c = datetime.datetime(2020, 2, 28, 12, 0, 0, tzinfo=datetime.timezone.utc) + datetime.timedelta(seconds=rng.randint(-10 ** 7, 10 ** 7))
        if rng.random() < 0.7:
            fa[rng.choice(['ge', 'gt'])] = ['dt', (c - datetime.timedelta(seconds=rng.choice([0, 1, 86400]))).isoformat()]
        if rng.random() < 0.7:
            fa[rng.choice(['le', 'lt'])] = ['dt', (c + datetime.timedelta(seconds=rng.choice([0, 1, 86400]))).isoformat()]
    return {'base': base, 'facets': fa}


# ------------------------------------------------------------------ generation of leaf values
def _raw_leaf_value(rng, leaf):
    """a value of the base kind, biased to the neighbourhood of the declared facets"""
    base, fa = leaf['base'], leaf['facets']
    anchors = [fa[k] for k in ('ge', 'gt', 'le', 'lt') if k in fa] + list(fa.get('values', []))
    if base in INT_BOUNDS:
        lo, hi = INT_BOUNDS[base]
        cands = [x for x in INT_POOL if rng.random() < 0.3] + [rng.randint(-1000, 1000)]
        for a in anchors:
            cands += [a[1] - 1, a[1], a[1] + 1] * 3
        if lo is not None:
            cands += [lo, lo + 1, lo - 1]
        if hi is not None:
            cands += [hi, hi - 1, hi + 1]
        if 'total_digits' in fa:
            t = fa['total_digits']
            cands += [10 ** t - 1, 10 ** t, -(10 ** t - 1), -(10 ** t), 10 ** (t - 1)] * 2
        return ['int', rng.choice(cands)]
    if base in STR_BASES:
        if 'values' in fa and rng.random() < 0.6:
            return list(rng.choice(fa['values']))
        cands = list(URI_POOL if base == 'anyURI' else TEXT_POOL)
        if 'pattern' in fa:
            cands = PATTERN_SAMPLES[fa['pattern']] * 3 + cands[:5]
        for k in ('min_len', 'max_len'):
            if k in fa:
                for n in (fa[k] - 1, fa[k], fa[k] + 1):
                    if n >= 0:
                        cands += ['abcdefghijklmnopqrstuvwxyz'[:n]] * 2
        s = rng.choice(cands)
        if base == 'anyURI':
            s = s.strip() or 'a'          # anyURI literals are whitespace-collapsed: blanks at the ends are not part of the value
        return ['text', s]
    if base == 'decimal':
        cands = list(DEC_POOL)
        for a in anchors:
            d = D(a[1])
            cands += [str(d), str(d + D('0.1')), str(d - D('0.1')), str(d + 1), str(d - 1), str(d * 1)] * 2
        if 'total_digits' in fa:
            t = fa['total_digits']
            f = fa.get('fraction_digits', 0)
            f = min(f, t)
            cands += [str(D(10 ** t - 1).scaleb(-f)), str(D(10 ** t).scaleb(-f)), str(D(1).scaleb(-f)), str(D(1).scaleb(-f - 1)),
                      str(D(10 ** (t - 1))), '1E+%d' % t, '1E+%d' % max(t - 1, 0)] * 2
        return ['dec', rng.choice(cands)]
    if base in ('double', 'float'):
        pool = DBL_POOL if base == 'double' else [0.0, 1.0, -1.0, 0.5, 1.5, 2.5, 100.0, 1024.0, -0.25]
        cands = list(pool) + [float('inf'), float('-inf')]       # NaN has no place in an order: left to C05 / C08
        for a in anchors:
            x = float(a[1])
            cands += [x, x + 0.5, x - 0.5, x + 1.0, x - 1.0] * 2
            if base == 'double':
                # between the bound and what is left of it after rounding to six decimals, and just around it
                r6 = round(x, 6)
                cands += [r6, (x + r6) / 2, x * (1 + 1e-9), x * (1 - 1e-9), x + abs(x) * 0.05, x - abs(x) * 0.05,
                          x + abs(x) * 0.2, x - abs(x) * 0.2] * 2
        return ['dbl', repr(rng.choice(cands))]
    if base == 'date':
        cands = [datetime.date(2020, 2, 29), datetime.date(1, 1, 1), datetime.date(9999, 12, 31), datetime.date(1999, 12, 31)]
        for a in anchors:
            d = datetime.date.fromisoformat(a[1])
            cands += [d, _shift(d, datetime.timedelta(days=1)), _shift(d, -datetime.timedelta(days=1))] * 3
        return ['date', rng.choice(cands).isoformat()]
    if base == 'time':
        cands = [datetime.time(0, 0, 0), datetime.time(23, 59, 59), datetime.time(12, 30, 15, 250000), datetime.time(1, 2, 3, 5)]
        for a in anchors:
            t = datetime.time.fromisoformat(a[1])
            s = t.hour * 3600 + t.minute * 60 + t.second
            for ds in (-1, 0, 1):
                x = max(0, min(86399, s + ds))
                cands += [datetime.time(x // 3600, (x // 60) % 60, x % 60)] * 3
        return ['time', rng.choice(cands).isoformat()]
    if base == 'dateTime':
        Z = datetime.timezone.utc
        cands = [datetime.datetime(2020, 2, 29, 23, 59, 59, tzinfo=Z), datetime.datetime(2000, 1, 1, 0, 0, 0, tzinfo=Z),
                 datetime.datetime(2021, 6, 15, 12, 30, 15, 250000, tzinfo=Z), datetime.datetime(1970, 1, 1, 0, 0, 0, 5, tzinfo=Z)]
        for a in anchors:
            d = datetime.datetime.fromisoformat(a[1])
            cands += [d, _shift(d, datetime.timedelta(seconds=1)), _shift(d, -datetime.timedelta(seconds=1))] * 3
        return ['dt', rng.choice(cands).isoformat()]
    if base == 'boolean':
        return ['bool', rng.random() < 0.5]
    if base == 'duration':
        return ['dur', rng.choice([0, 1, 5, 10 ** 6, 3600 * 10 ** 6, 86400 * 10 ** 6 + 250000, -10 ** 6, 90061 * 10 ** 6 + 7,
                                   -(86400 * 10 ** 6 * 3 + 5)])]
    if base == 'uuid':
        u = str(uuid.UUID(int=rng.getrandbits(128)))
        if rng.random() < 0.35:           # near misses of the published pattern
            u = rng.choice([u[:-1], u + '0', u.replace('-', '', 1), 'g' + u[1:], u[:8] + '_' + u[9:], '{' + u + '}', u.upper()])
        return ['uuid', u]
    if base in BYTE_BASES:
        if rng.random() < 0.5:
            return gen_chunks(rng)
        return ['bytes', bytes(rng.randrange(256) for _ in range(rng.choice([0, 1, 2, 3, 4, 7, 16]))).hex()]
    raise ValueError(base)


def gen_chunks(rng):
    """a ByteArray value as a sequence of chunks: lengths that are not multiples of 3 before the
    last chunk, empty chunks, bytes whose base64 digits differ between the two alphabets"""
    n = rng.randint(2, 4)
    lens = [rng.choice([0, 1, 2, 3, 4, 5, 7, 8]) for _ in range(n)]
    if rng.random() < 0.8:
        lens[rng.randrange(n - 1)] = rng.choice([1, 2, 4, 5, 7])
    pool = [0xfb, 0xff, 0xfe, 0x3e, 0x3f, 0x00] + list(b'abcdefghij')
    return ['chunks', [bytes(rng.choice(pool) if rng.random() < 0.7 else rng.randrange(256) for _ in range(k)).hex() for k in lens],
            rng.choice(['tuple', 'list'])]


def _shift(d, delta):
    try:
        return d + delta
    except OverflowError:
        return d


def gen_leaf_value(rng, leaf, want=True, tries=60):
    """a value that satisfies (want=True) or violates (want=False) the declared constraints;
    None when the search does not find one"""
    for _ in range(tries):
        v = _raw_leaf_value(rng, leaf)
        if v[0] == 'text' and not xml_ok_text(v[1]):
            continue
        if v[0] in ('bytes', 'chunks') and not denoted_bytes(v):
            continue                      # an empty byte string is written as an empty element (= None)
        if leaf_conforms(leaf, v) == want:
            return v
    return None


def leaf_satisfiable(rng, leaf):
    return gen_leaf_value(rng, leaf, True, 200) is not None


# ------------------------------------------------------------------ generation of universes
NAMEABLE = INT_BASES + STR_BASES * 3 + ['decimal', 'decimal', 'double', 'date', 'time', 'dateTime']


def gen_named_simple(rng, ns, name, base=None):
    """a named simple type: at least one facet, satisfiable"""
    for _ in range(60):
        leaf = gen_leaf_type(rng, base or rng.choice(NAMEABLE), 1.0)
        if leaf['facets'] and leaf_satisfiable(rng, leaf):
            return {'ns': ns, 'name': name, 'leaf': leaf}
    return {'ns': ns, 'name': name, 'leaf': {'base': 'string', 'facets': {'max_len': 10}}}


def gen_own(rng, pleaf, none_p=0.4):
    """the facets of a second customisation step on a named simple type: a narrowing of the
    first step (XSD only admits restrictions), or nothing at all"""
    base, fa = pleaf['base'], pleaf['facets']
    if rng.random() < none_p:
        return {}
    if 'gt' in fa or 'lt' in fa:
        # Spyne repeats the inherited facets in the derived step and libxml2 refuses a derived
        # min/maxExclusive equal to the base's: known finding C06|compile|inherited-exclusive-bound
        # (one witness in the corpus); the generated universes stay clear of it
        return {}
    own = {}
    if 'values' in fa:
        if len(fa['values']) > 1:
            own['values'] = rng.sample(fa['values'], rng.randint(1, len(fa['values']) - 1))
        return own
    if base in STR_BASES:
        lo, hi = fa.get('min_len', 0), fa.get('max_len')
        if hi is None:
            own['max_len'] = max(lo, 1) + rng.choice([0, 1, 3, 8])
        elif hi >= max(lo, 1):
            own['max_len'] = rng.randint(max(lo, 1), hi)
        if rng.random() < 0.4:
            top = own.get('max_len', hi)
            m = rng.randint(lo, top if top is not None else lo + 2)
            if m > 0:
                own['min_len'] = m
        return own
    if 'total_digits' in fa:
        own['total_digits'] = rng.randint(max(1, fa.get('fraction_digits', 0)), fa['total_digits'])
        return own
    if base in INT_BOUNDS or base in ORD_BASES:
        for side, keys in (('lo', ('ge', 'gt')), ('hi', ('le', 'lt'))):
            if rng.random() < 0.6:
                v = gen_leaf_value(rng, {'base': base, 'facets': dict(fa, **own)}, True)
                if v is None or (v[0] == 'dbl' and v[1] in ('inf', '-inf', 'nan')):
                    continue
                have = [k for k in keys if k in fa]
                own[have[0] if have else rng.choice(keys)] = v       # the same key tightened, or a bound on an open side
        return own
    return own


def use_named(rng, simples, sid, plain_p=0.3):
    """a use of named simple type sid as the type of a member"""
    p = simples[sid]['leaf']
    own = gen_own(rng, p)
    merged = dict(p['facets'], **own)
    if own and not leaf_satisfiable(rng, {'base': p['base'], 'facets': merged}):
        own, merged = {}, dict(p['facets'])
    return {'base': p['base'], 'facets': merged, 'named': sid, 'own': own, 'plain': (not own) and rng.random() < plain_p}


def settle_plain(f):
    """the named type itself can only stand where the member changes nothing: otherwise it is a
    second customisation step without facets"""
    t = f['ty']
    while t[0] == 'arr':
        t = t[1]
    if t[0] == 'leaf' and t[1].get('plain') and f['ty'][0] == 'leaf':
        if f['min'] != 0 or not f['nillable'] or f['max'] != 1 or f.get('default') is not None or f.get('choice'):
            t[1]['plain'] = False


def gen_universe(rng, n_classes=4, max_fields=4, namespaces=('urn:t',), bases=None, facet_p=0.7,
                 allow_attr=True, allow_arrays=True, allow_inherit=True, allow_multi=True, allow_choice=True,
                 allow_default=True, tns='urn:tns', named=False, extra=False):
    classes = []
    simples = [gen_named_simple(rng, rng.choice(namespaces), 'S%d' % k) for k in range(rng.randint(1, 3))] if named else []
    for i in range(n_classes):
        parent = None
        if allow_inherit and i > 0 and rng.random() < 0.35:
            parent = rng.randrange(i)
        ns = rng.choice(namespaces)
        fields = []
        nf = rng.randint(1, max_fields)
        group = None
        for j in range(nf):
            name = 'f%d_%d' % (i, j)
            r = rng.random()
            if r < 0.65 or i == 0:
                leaf = None
                if simples and rng.random() < 0.35:
                    leaf = use_named(rng, simples, rng.randrange(len(simples)))
                else:
                    for _ in range(20):
                        leaf = gen_leaf_type(rng, rng.choice(bases) if bases else None, facet_p, extra)
                        if leaf_satisfiable(rng, leaf):
                            break
                    else:
                        leaf = {'base': leaf['base'], 'facets': {}}
                ty = ['leaf', leaf]
            else:
                ty = ['ref', rng.randrange(i)]
            f = {'name': name, 'ty': ty, 'min': rng.choice([0, 0, 1]), 'max': 1, 'nillable': rng.random() < 0.6,
                 'kind': 'elem', 'choice': None, 'default': None}
            r = rng.random()
            if allow_attr and ty[0] == 'leaf' and r < 0.15:
                f['kind'] = 'attr'
            elif allow_arrays and r < 0.30:
                f['ty'] = ['arr', ty]
            elif allow_multi and r < 0.50:
                f['max'] = rng.choice([None, 2, 3])
                f['min'] = rng.choice([0, 0, 1, 2])
                if f['max'] is not None:
                    f['min'] = min(f['min'], f['max'])
            elif allow_default and ty[0] == 'leaf' and r < 0.58 and ty[1]['base'] not in BYTE_BASES:
                dv = gen_leaf_value(rng, ty[1], True)
                if dv is not None and not (dv[0] == 'dbl' and dv[1] in ('inf', '-inf', 'nan')) \
                        and not (dv[0] == 'dec' and 'E' in str(D(dv[1]))):
                    f['default'] = dv
            elif allow_choice and r < 0.75 and f['kind'] == 'elem':
                # a choice group: this member and possibly the next ones
                if group is None or rng.random() < 0.4:
                    group = 'g%d_%d' % (i, j)
                f['choice'] = group
                f['min'] = 0
            if not f['choice']:
                group = None              # groups are contiguous runs of members
            settle_plain(f)
            fields.append(f)
        classes.append({'ns': ns, 'name': 'K%d' % i, 'parent': parent, 'fields': fields})
    if simples:
        return {'tns': tns, 'classes': classes, 'simples': simples}
    return {'tns': tns, 'classes': classes}


# one universe per kind of reference from namespace A to namespace B, the reference being the
# only one between the two (so that nothing else makes the schema of A import B)
XNS_KINDS = ['simple-base', 'simple-nofacet', 'simple-plain', 'class-member', 'class-multi', 'complex-base',
             'array-class', 'array-simple', 'array-simple-base', 'attr-plain', 'attr-base', 'attr-nofacet']


def gen_xns_universe(rng, kind, tns='urn:tns'):
    A, B = 'urn:xa', 'urn:xb'

    def fld(name, ty, mn=0, mx=1, nillable=True, kind='elem'):
        return {'name': name, 'ty': ty, 'min': mn, 'max': mx, 'nillable': nillable, 'kind': kind, 'choice': None, 'default': None}

    def local(name):
        for _ in range(20):
            leaf = gen_leaf_type(rng, rng.choice(INT_BASES + STR_BASES * 2 + ['decimal', 'boolean', 'date']), 0.6)
            if leaf_satisfiable(rng, leaf):
                break
        else:
            leaf = {'base': 'string', 'facets': {}}
        return fld(name, ['leaf', leaf], rng.choice([0, 1]), 1, rng.random() < 0.5)

    def with_own():
        for _ in range(40):
            s0 = gen_named_simple(rng, B, 'S0', rng.choice(['string', 'string', 'anyURI', 'integer', 'unsignedByte', 'long', 'decimal', 'date']))
            own = gen_own(rng, s0['leaf'], 0.0)
            if own and leaf_satisfiable(rng, {'base': s0['leaf']['base'], 'facets': dict(s0['leaf']['facets'], **own)}):
                return s0, own
        return {'ns': B, 'name': 'S0', 'leaf': {'base': 'string', 'facets': {'max_len': 10}}}, {'max_len': 4}

    s0, own = with_own()
    simples = [s0]
    P = s0['leaf']

    def named(o, plain=False):
        return ['leaf', {'base': P['base'], 'facets': dict(P['facets'], **o), 'named': 0, 'own': dict(o), 'plain': plain}]

    classes = []
    needs_class = kind in ('class-member', 'class-multi', 'complex-base', 'array-class')
    k0 = None
    if needs_class or rng.random() < 0.5:
        f0 = [local('p0')]
        if rng.random() < 0.5:
            f0.append(fld('p1', named({}, True)))          # S0 used inside its own namespace
        classes.append({'ns': B, 'name': 'K0', 'parent': None, 'fields': f0})
        k0 = 0
    parent = None
    req = rng.choice([0, 1])
    if kind == 'simple-base':
        the = fld('r', named(own), req, 1, rng.random() < 0.5)
    elif kind == 'simple-nofacet':
        the = fld('r', named({}), 1, 1, rng.random() < 0.5)
    elif kind == 'simple-plain':
        the = fld('r', named({}, True))
    elif kind == 'class-member':
        the = fld('r', ['ref', k0], req, 1, rng.random() < 0.5)
    elif kind == 'class-multi':
        the = fld('r', ['ref', k0], req, rng.choice([None, 3]), rng.random() < 0.5)
    elif kind == 'complex-base':
        the, parent = None, k0
    elif kind == 'array-class':
        the = fld('r', ['arr', ['ref', k0]], req, 1, rng.random() < 0.5)
    elif kind == 'array-simple':
        the = fld('r', ['arr', named({}, True)], req, 1, rng.random() < 0.5)
    elif kind == 'array-simple-base':
        the = fld('r', ['arr', named(own)], req, 1, rng.random() < 0.5)
    elif kind == 'attr-plain':
        the = fld('r', named({}, True), kind='attr')
    elif kind == 'attr-base':
        the = fld('r', named(own), req, 1, True, 'attr')
    elif kind == 'attr-nofacet':
        the = fld('r', named({}), 1, 1, True, 'attr')
    else:
        raise ValueError(kind)
    fields = [local('q0')] + ([the] if the is not None else []) + ([local('q1')] if rng.random() < 0.5 else [])
    classes.append({'ns': A, 'name': 'K1', 'parent': parent, 'fields': fields})
    out = {'tns': tns, 'classes': classes, 'simples': simples}
    if k0 is not None and rng.random() < 0.6:
        out['methods'] = [1]              # no operation on K0: namespace B is reached through A only
    return out


def flat_fields(desc, cid):
    """[(declaring class id, field)] parents first"""
    c = desc['classes'][cid]
    base = flat_fields(desc, c['parent']) if c['parent'] is not None else []
    return base + [(cid, f) for f in c['fields']]


def has_required_attr(desc, cid):
    return any(f['kind'] == 'attr' and f['min'] > 0 for _, f in flat_fields(desc, cid))


def is_multi(f):
    return f['max'] is None or f['max'] > 1


# ------------------------------------------------------------------ Spyne rendering
def spyne_leaf(leaf):
    from spyne.model import primitive as P
    from spyne.model.binary import ByteArray
    m = {'integer': P.Integer, 'nonNegativeInteger': P.UnsignedInteger, 'long': P.Integer64, 'int': P.Integer32,
         'short': P.Integer16, 'byte': P.Integer8, 'unsignedLong': P.UnsignedInteger64, 'unsignedInt': P.UnsignedInteger32,
         'unsignedShort': P.UnsignedInteger16, 'unsignedByte': P.UnsignedInteger8, 'string': P.Unicode, 'anyURI': P.AnyUri,
         'decimal': P.Decimal, 'double': P.Double, 'float': P.Float, 'date': P.Date, 'time': P.Time, 'dateTime': P.DateTime,
         'boolean': P.Boolean, 'duration': P.Duration, 'uuid': P.Uuid, 'base64Binary': ByteArray}
    if leaf['base'] == 'hexBinary':
        return ByteArray(encoding='hex')
    if leaf['base'] == 'urlsafeBinary':
        return ByteArray(encoding='urlsafe_base64')
    return m[leaf['base']]


def leaf_kwargs(leaf):
    kw = {}
    for k, v in leaf['facets'].items():
        if k in ('ge', 'gt', 'le', 'lt'):
            kw[k] = to_native_leaf(v)
        elif k == 'values':
            kw[k] = [to_native_leaf(x) for x in v]
        else:
            kw[k] = v
    return kw


def build_simples(desc):
    out = []
    for sd in desc.get('simples', []):
        k2 = dict(leaf_kwargs(sd['leaf']), type_name=sd['name'], __namespace__=sd['ns'])
        out.append(spyne_leaf(sd['leaf']).customize(**k2))
    return out


def field_type(f, classes, simples):
    """the Spyne type of a member (classes: the classes built so far)"""
    from spyne.model.complex import Array, XmlAttribute

    def ty_of(ty, kw):
        if ty[0] == 'leaf' and 'named' in ty[1]:
            k2 = dict(leaf_kwargs({'facets': ty[1]['own']}))
            if not ty[1].get('plain'):
                k2.update(kw)
            return simples[ty[1]['named']].customize(**k2) if k2 else simples[ty[1]['named']]
        if ty[0] == 'leaf':
            k2 = dict(leaf_kwargs(ty[1]))
            k2.update(kw)
            return spyne_leaf(ty[1]).customize(**k2) if k2 else spyne_leaf(ty[1])
        if ty[0] == 'ref':
            return classes[ty[1]].customize(**kw) if kw else classes[ty[1]]
        return Array(ty_of(ty[1], {}), **kw)

    kw = {'min_occurs': f['min'], 'nillable': f['nillable']}
    if f['max'] != 1:
        kw['max_occurs'] = 'unbounded' if f['max'] is None else f['max']
    if f.get('choice'):
        kw['xml_choice_group'] = f['choice']
    if f.get('default') is not None:
        kw['default'] = to_native_leaf(f['default'])
    if f['kind'] == 'attr':
        return XmlAttribute(ty_of(f['ty'], kw))
    return ty_of(f['ty'], kw)


def build_spyne(desc):
    """the real Spyne classes of a universe (index = cid)"""
    from spyne.model.complex import ComplexModel, ComplexModelMeta
    out = []
    simples = build_simples(desc)
    for c in desc['classes']:
        ti = [(f['name'], field_type(f, out, simples)) for f in c['fields']]
        base = ComplexModel if c['parent'] is None else out[c['parent']]
        out.append(ComplexModelMeta(c['name'], (base,), {'__namespace__': c['ns'], '_type_info': ti}))
    return out


# ------------------------------------------------------------------ universes that change after they have been used
def gen_evolution(rng, desc, n_steps=2):
    """members added to / replaced in classes that already exist (and have been used): mostly on
    classes other classes derive from, mostly mandatory and restricted"""
    import copy
    cur = copy.deepcopy(desc)
    steps = []
    parents = sorted(set(c['parent'] for c in cur['classes'] if c['parent'] is not None))
    for k in range(n_steps):
        cid = rng.choice(parents) if parents and rng.random() < 0.8 else rng.randrange(len(cur['classes']))
        fields = cur['classes'][cid]['fields']
        for _ in range(30):
            leaf = gen_leaf_type(rng, rng.choice(INT_BASES + STR_BASES * 3 + ['decimal', 'boolean', 'date', 'double']), 0.85)
            if leaf_satisfiable(rng, leaf):
                break
        else:
            leaf = {'base': 'string', 'facets': {'max_len': 3}}
        f = {'name': 'e%d' % k, 'ty': ['leaf', leaf], 'min': rng.choice([1, 1, 0]), 'max': 1, 'nillable': rng.random() < 0.4,
             'kind': 'attr' if rng.random() < 0.15 else 'elem', 'choice': None, 'default': None}
        r = rng.random()
        plain = [i for i, g in enumerate(fields) if g['kind'] == 'elem' and not g.get('choice') and g['ty'][0] == 'leaf']
        if r < 0.25 and plain:
            i = rng.choice(plain)              # the same member, declared anew (other facets, now mandatory)
            f['name'], f['kind'] = fields[i]['name'], 'elem'
            step = {'op': 'replace', 'cid': cid, 'index': i, 'field': f}
        elif r < 0.55:
            edges = [i for i in range(len(fields) + 1)
                     if not (0 < i < len(fields) and fields[i - 1].get('choice') and fields[i - 1].get('choice') == fields[i].get('choice'))]
            step = {'op': 'insert', 'cid': cid, 'index': rng.choice(edges), 'field': f}      # never inside a choice group
        else:
            step = {'op': 'append', 'cid': cid, 'index': len(fields), 'field': f}
        steps.append(step)
        cur = evolve_desc(cur, [step])
    return steps


def evolve_desc(desc, steps):
    import copy
    out = copy.deepcopy(desc)
    for st in steps:
        fields = out['classes'][st['cid']]['fields']
        if st['op'] == 'replace':
            fields[st['index']] = copy.deepcopy(st['field'])
        else:
            fields.insert(st['index'], copy.deepcopy(st['field']))
    return out


def prepare_evolution(desc, classes, steps):
    """the member types are built before the classes are used: nothing but the append / insert /
    replace calls themselves happens between the use and the fresh applications"""
    simples = []
    return [(classes[st['cid']], st['op'], st['index'], st['field']['name'], field_type(st['field'], classes, simples)) for st in steps]


def commit_evolution(prepared):
    for cls, op, index, name, t in prepared:
        if op == 'append':
            cls.append_field(name, t)
        elif op == 'insert':
            cls.insert_field(index, name, t)
        else:
            cls._replace_field(name, t)


CALLS = []


def build_service(desc, classes):
    """one echo method per class: m<i>(x: K<i>) -> K<i>; calls are recorded in CALLS"""
    from spyne import ServiceBase, rpc
    body = {}
    for i, cls in enumerate(classes):
        if i in desc.get('methods', range(len(classes))):      # 'methods': the classes that get an operation (default: all)
            body['m%d' % i] = _mk_method(i, cls)
    return type('S', (ServiceBase,), body)


def _mk_method(i, cls):
    from spyne import rpc
    src = ("def m%d(ctx, x):\n"
           "    CALLS.append((%d, x))\n"
           "    return RET[0] if RET else x\n" % (i, i))
    g = {'CALLS': CALLS, 'RET': RET}
    exec(src, g)
    return rpc(cls, _returns=cls)(g['m%d' % i])


RET = []


def build_app(desc, classes, proto='xml', validator=None, service=None):
    from spyne import Application
    from spyne.protocol.xml import XmlDocument
    from spyne.protocol.soap import Soap11, Soap12
    P = {'xml': XmlDocument, 'soap11': Soap11, 'soap12': Soap12}[proto]
    svc = service or build_service(desc, classes)
    return Application([svc], desc['tns'], in_protocol=P(validator=validator), out_protocol=P(), name='App')


def to_native(desc, classes, v):
    k = v[0]
    if k == 'list':
        return [to_native(desc, classes, x) for x in v[1]]
    if k == 'obj':
        kw = {}
        for (_, f), x in zip(flat_fields(desc, v[1]), v[2]):
            kw[f['name']] = to_native(desc, classes, x)
        return classes[v[1]](**kw)
    return to_native_leaf(v)


# ------------------------------------------------------------------ conformant values
VARIANTS = [False]      # hand conformant leaf values over as other compatible Python types (direct oracle only)


def variant_of(rng, leaf, v, p=0.35):
    """the same value as an instance of another Python type that is (a subclass of) the native type
    of the leaf class, or is commonly passed for it"""
    if not VARIANTS[0] or v is None or rng.random() >= p:
        return v
    base = leaf['base']
    if base == 'date':
        return ['as', rng.choice(['datetime', 'datetime-utc']), v]
    if base == 'decimal':
        d = D(v[1])
        if d == d.to_integral_value() and abs(d) < 10 ** 15:
            return ['as', 'int', v]
        f = float(d)
        if D(repr(f)) == d and 'e' not in repr(f) and 'E' not in str(d):
            return ['as', 'float', v]
        return v
    if base in ('double', 'float'):
        f = float(v[1])
        if f == f and abs(f) < 1e15 and f == int(f):
            return ['as', 'int', v]
        return v
    if base == 'boolean':
        return ['as', 'int', v]
    if base in STR_BASES:
        return ['as', 'strsub', v]
    return v


def gen_conformant(rng, desc, ty, depth, nullable=True):
    """a value satisfying every declared constraint of ty (None only where allowed)"""
    if nullable and rng.random() < 0.15:
        return ['none']
    if ty[0] == 'leaf':
        v = variant_of(rng, ty[1], gen_leaf_value(rng, ty[1], True, 300))
        return v if v is not None else ['none']
    if ty[0] == 'arr':
        n = 0 if depth <= 0 else rng.choice([0, 1, 2, 3])
        return ['list', [gen_conformant(rng, desc, ty[1], depth - 1, True) for _ in range(n)]]
    cid = ty[1]
    chosen = {}
    vals = []
    for _, f in flat_fields(desc, cid):
        v = gen_field(rng, desc, f, depth - 1)
        g = f.get('choice')
        if g and v != ['none'] and v != ['list', []]:
            if g in chosen:
                v = ['none']              # at most one member of a choice group
            else:
                chosen[g] = f['name']
        vals.append(v)
    return ['obj', cid, vals]


def can_be_none(f):
    return f['min'] <= 0 or f['nillable']


def gen_field(rng, desc, f, depth):
    ty = f['ty']
    if f['kind'] == 'attr':
        if f['min'] <= 0 and rng.random() < 0.4:
            return ['none']
        v = gen_leaf_value(rng, ty[1], True)
        if v is None:
            return ['none']
        return variant_of(rng, ty[1], v)
    shallow = depth <= 0 and ty[0] != 'leaf'
    if is_multi(f):
        if f['min'] <= 0 and rng.random() < 0.2:
            return ['none']
        if f['min'] == 1 and f['nillable'] and rng.random() < 0.2:
            return ['none']                 # None (not a list) for a mandatory repeated member: one xsi:nil element
        hi = 3 if f['max'] is None else f['max']
        lo = max(f['min'], 0)
        n = rng.randint(lo, max(lo, hi))
        if shallow and ty[0] == 'ref':
            if f['nillable']:
                return ['list', [['none']] * n] if n else ['none']
            n = lo
        out = []
        for _ in range(n):
            x = gen_conformant(rng, desc, ty, depth, f['nillable'])
            if x == ['none'] and not f['nillable']:
                if len(out) >= f['min']:
                    break
                raise GenSkip('no conformant value found for a required member')
            out.append(x)
        if not out and f['min'] <= 0 and rng.random() < 0.5:
            return ['none']
        return ['list', out]
    if shallow and ty[0] == 'ref' and can_be_none(f):
        return ['none']
    if can_be_none(f) and rng.random() < 0.25:
        return ['none']
    v = gen_conformant(rng, desc, ty, depth, False)
    if v == ['none'] and not can_be_none(f):
        raise GenSkip('no conformant value found for a required member')
    return v


class GenSkip(Exception):
    pass


# ------------------------------------------------------------------ documents in declared order
XSI = 'http://www.w3.org/2001/XMLSchema-instance'


def near_counts(rng, f):
    lo = f['min']
    hi = f['max']
    c = [lo, lo, lo + 1, max(lo - 1, 0), 0, 1]
    if hi is not None:
        c += [hi, hi, hi + 1, max(hi - 1, 0)]
    else:
        c += [lo + 2, 4]
    return rng.choice(c)


def gen_doc(rng, desc, classes, cid, ns, name, depth, bad_p=0.25, nil_p=0.12):
    """an lxml element for an instance of class cid using only declared members, in declared
    order, with the namespaces Spyne declares them in; member counts, nil flags and leaf values
    are drawn on and around the declared boundaries.  Returns (element, notes) where notes lists
    the deliberate departures (for the failure key)."""
    from lxml import etree
    notes = []
    e = _doc_obj(rng, desc, classes, cid, ns, name, depth, bad_p, nil_p, notes)
    return e, notes


def _leaf_text(rng, leaf, bad_p, notes, where, scls=None):
    t = _leaf_text0(rng, leaf, bad_p, notes, where)
    msl = getattr(getattr(scls, 'Attributes', None), 'max_str_len', None)
    if t is not None and msl is not None and leaf['base'] in list(INT_BOUNDS) + ['decimal', 'double', 'float'] and len(t) > msl:
        notes.append('soft-only:max_str_len')      # the schema does not publish max_str_len
    return t


def _leaf_text0(rng, leaf, bad_p, notes, where):
    want = rng.random() >= bad_p
    v = gen_leaf_value(rng, leaf, want)
    if v is None:
        v = gen_leaf_value(rng, leaf, True)
        want = True
    if v is None:
        return None
    if not want:
        both = {'base': leaf['base'], 'facets': {k: x for k, x in leaf['facets'].items()
                                                 if k not in ('total_digits', 'fraction_digits')}}
        if leaf_conforms(both, v):
            notes.append('schema-only:digits')          # soft validation has no digit-count check
        else:
            notes.append('%s:%s:facet' % (where, leaf['base']))
    return canon_text(leaf['base'], v)


def _doc_obj(rng, desc, classes, cid, ns, name, depth, bad_p, nil_p, notes):
    from lxml import etree
    e = etree.Element('{%s}%s' % (ns, name) if ns else name)
    groups = set()
    for dcid, f in flat_fields(desc, cid):
        dns = desc['classes'][dcid]['ns']
        fti = classes[dcid]._type_info       # what the declaring class says now (not Spyne's flattened, memoized view)
        if f['kind'] == 'attr':
            present = rng.random() < (0.85 if f['min'] > 0 else 0.5)
            if present:
                t = _leaf_text(rng, f['ty'][1], bad_p, notes, 'attr', fti[f['name']].type)
                if t is not None:
                    e.set(f['name'], t)
            elif f['min'] > 0:
                notes.append('attr:missing')
            continue
        if rng.random() < 0.7:
            k = rng.randint(max(f['min'], 0), max(f['min'], 1 if f['max'] is None or f['max'] >= 1 else 0)) \
                if not is_multi(f) else rng.randint(f['min'], (f['max'] if f['max'] is not None else f['min'] + 2))
        else:
            k = near_counts(rng, f)
        if k < f['min']:
            notes.append('occ:below')
        if f['max'] is not None and k > f['max']:
            notes.append('occ:above')
        if f.get('choice') and k > 0:
            if f['choice'] in groups:
                notes.append('schema-only:choice')          # two members of one choice group
            groups.add(f['choice'])
        for _ in range(k):
            e.append(_doc_member(rng, desc, classes, fti[f['name']], f, f['ty'], dns, f['name'], depth, bad_p, nil_p, notes,
                                 f['nillable']))
    return e


def _doc_member(rng, desc, classes, scls, f, ty, ns, name, depth, bad_p, nil_p, notes, nillable):
    from lxml import etree
    tag = '{%s}%s' % (ns, name) if ns else name
    if rng.random() < nil_p or (depth <= 0 and ty[0] != 'leaf' and nillable):
        c = etree.Element(tag)
        c.set('{%s}nil' % XSI, rng.choice(['true', '1']))
        if not nillable:
            notes.append('nil:not-nillable')
        elif ty[0] == 'ref' and has_required_attr(desc, ty[1]):
            notes.append('finding:nil-required-attribute')  # XSD wants the attribute on the nil element too
        return c
    if ty[0] == 'leaf':
        c = etree.Element(tag)
        t = _leaf_text(rng, ty[1], bad_p, notes, 'elem', scls)
        c.text = t if t is not None else ''
        if not c.text and f is not None and f.get('default') is not None:
            notes.append('schema-only:default')            # XSD reads an empty element as the default value
        return c
    if ty[0] == 'ref':
        return _doc_obj(rng, desc, classes, ty[1], ns, name, depth - 1, bad_p, nil_p, notes)
    # Array(T): a wrapper element whose children are named after the single member of the array class
    c = etree.Element(tag)
    (iname, icls), = scls._type_info.items()
    ins = scls.get_namespace()
    for _ in range(rng.choice([0, 1, 2, 3]) if depth > 0 else 0):
        c.append(_doc_member(rng, desc, classes, icls, None, ty[1], ins, iname, depth - 1, bad_p, nil_p, notes, True))
    return c


# ------------------------------------------------------------------ Gallina rendering (C06/Model.v)
from lib import gz, gtext, glist, gbool, gopt


class RegexError(Exception):
    pass


def parse_re(p):
    """the regular-expression fragment of C06/Syntax.v -> Gallina term (fail closed)"""
    pos = [0]

    def peek():
        return p[pos[0]] if pos[0] < len(p) else None

    def eat():
        c = p[pos[0]]
        pos[0] += 1
        return c

    def alt():
        a = seq()
        while peek() == '|':
            eat()
            a = '(RAlt %s %s)' % (a, seq())
        return a

    def seq():
        items = []
        while peek() is not None and peek() not in '|)':
            items.append(rep())
        if not items:
            return 'REps'
        out = items[-1]
        for it in reversed(items[:-1]):
            out = '(RSeq %s %s)' % (it, out)
        return out

    def times(a, n):
        if n == 0:
            return 'REps'
        out = a
        for _ in range(n - 1):
            out = '(RSeq %s %s)' % (a, out)
        return out

    def rep():
        a = atom()
        while peek() in ('*', '+', '?', '{'):
            c = eat()
            if c == '*':
                a = '(RStar %s)' % a
            elif c == '+':
                a = '(RSeq %s (RStar %s))' % (a, a)
            elif c == '?':
                a = '(RAlt REps %s)' % a
            else:
                j = p.index('}', pos[0])
                spec = p[pos[0]:j]
                pos[0] = j + 1
                if ',' in spec:
                    lo, hi = spec.split(',')
                    lo, hi = int(lo), int(hi)
                    opt = 'REps'
                    for _ in range(hi - lo):
                        opt = '(RAlt REps (RSeq %s %s))' % (a, opt)
                    a = '(RSeq %s %s)' % (times(a, lo), opt) if lo else opt
                else:
                    a = times(a, int(spec))
        return a

    def atom():
        c = eat()
        if c == '(':
            a = alt()
            if peek() != ')':
                raise RegexError('unbalanced group in %r' % p)
            eat()
            return a
        if c == '[':
            items = []
            if peek() == '^':
                raise RegexError('negated class in %r' % p)
            while peek() != ']':
                if peek() is None:
                    raise RegexError('unterminated class in %r' % p)
                lo = eat()
                if lo == '\\':
                    raise RegexError('escape in class in %r' % p)
                if peek() == '-' and pos[0] + 1 < len(p) and p[pos[0] + 1] != ']':
                    eat()
                    hi = eat()
                    items.append('(RRange %d %d)' % (ord(lo), ord(hi)))
                else:
                    items.append('(RChr %d)' % ord(lo))
            eat()
            out = items[-1]
            for it in reversed(items[:-1]):
                out = '(RAlt %s %s)' % (it, out)
            return out
        if c == '.':
            return 'RAny'
        if c in '\\^$*+?{}|)]':
            raise RegexError('unsupported construct %r in %r' % (c, p))
        return '(RChr %d)' % ord(c)

    out = alt()
    if pos[0] != len(p):
        raise RegexError('trailing input in %r' % p)
    return out


G_BASE = {
    'integer': '(BInt KInteger)', 'nonNegativeInteger': '(BInt KNonNeg)',
    'long': '(BInt (KFixed true 64))', 'int': '(BInt (KFixed true 32))', 'short': '(BInt (KFixed true 16))',
    'byte': '(BInt (KFixed true 8))', 'unsignedLong': '(BInt (KFixed false 64))', 'unsignedInt': '(BInt (KFixed false 32))',
    'unsignedShort': '(BInt (KFixed false 16))', 'unsignedByte': '(BInt (KFixed false 8))',
    'string': '(BStr false)', 'anyURI': '(BStr true)', 'boolean': 'BBool', 'decimal': 'BDec',
    'double': '(BOpq ODouble)', 'float': '(BOpq OFloat)', 'date': '(BOpq ODate)', 'time': '(BOpq OTime)',
    'dateTime': '(BOpq ODateTime)', 'duration': '(BOpq ODuration)', 'base64Binary': '(BOpq OBase64)', 'uuid': '(BOpq OUuid)'}
OKIND = {'double': 'ODouble', 'float': 'OFloat', 'date': 'ODate', 'time': 'OTime', 'dateTime': 'ODateTime',
         'duration': 'ODuration', 'base64Binary': 'OBase64', 'uuid': 'OUuid'}


def float_key(f):
    """order-preserving map of finite/infinite doubles to integers (-0.0 = 0.0)"""
    import struct
    if f == 0:
        f = 0.0
    b = struct.unpack('>q', struct.pack('>d', f))[0]
    return b if b >= 0 else -(b & 0x7fffffffffffffff)


_EPOCH = datetime.datetime(1970, 1, 1, tzinfo=datetime.timezone.utc)


def native_key(base, o):
    """order key of a native value of a delegated leaf kind"""
    if base in ('double', 'float'):
        return float_key(float(o))
    if base == 'date':
        return o.toordinal()
    if base == 'time':
        return ((o.hour * 60 + o.minute) * 60 + o.second) * 10 ** 6 + o.microsecond
    if base == 'dateTime':
        if o.tzinfo is None:
            o = o.replace(tzinfo=datetime.timezone.utc)
        d = o - _EPOCH
        return (d.days * 86400 + d.seconds) * 10 ** 6 + d.microseconds
    if base == 'duration':
        return (o.days * 86400 + o.seconds) * 10 ** 6 + o.microseconds
    return 0


def g_dec(d):
    sign, digits, exp = d.as_tuple()
    return '(mkdec %s %s %s)' % (gbool(bool(sign)), gz(int(''.join(map(str, digits)))), gz(exp))


class Renderer(object):
    """desc + the real classes -> Gallina terms; collects the pattern and delegated-leaf tables"""

    def __init__(self, desc, classes, prot):
        self.desc, self.classes, self.prot = desc, classes, prot
        self.patterns = {}
        self.opq = {}      # (kind, text) -> seen

    def sval(self, leaf, v, scls):
        v = core(v)
        k = v[0]
        if k == 'int':
            return '(SInt %s)' % gz(v[1])
        if k == 'text':
            return '(SText %s)' % gtext(v[1])
        if k == 'bool':
            return '(SBool %s)' % gbool(v[1])
        if k == 'dec':
            return '(SDec %s)' % g_dec(D(v[1]))
        base = leaf['base']
        o = to_native_leaf(v)
        canon = self.prot.to_unicode(scls, o)
        if isinstance(canon, bytes):
            canon = canon.decode('ascii')
        self.note_opq(base, canon)
        return '(SOpq %s %s %s)' % (OKIND[base], gz(native_key(base, o)), gtext(canon))

    def note_opq(self, base, text):
        self.opq[(base, text)] = True

    def pattern(self, p):
        self.patterns[p] = parse_re(p)
        return '(%s, %s)' % (gtext(p), self.patterns[p])

    def stype(self, leaf, scls):
        """scls: the real (customised) Spyne class of the leaf"""
        if 'named' in leaf or leaf['base'] not in G_BASE:
            raise ValueError('outside the modelled universe: %r' % (leaf,))
        fa = leaf['facets']
        base = leaf['base']
        A = scls.Attributes
        msl = getattr(A, 'max_str_len', None)
        if base in INT_BOUNDS or base in ('decimal', 'double', 'float'):
            msl_t = 'PosInf' if msl is None or msl == D('inf') or msl == float('inf') else '(Fin %s)' % gz(int(msl))
        else:
            msl_t = 'PosInf'
        pat = fa.get('pattern')
        if base == 'uuid':
            pat = scls.Attributes.pattern
        f = '(mkfacets %s %s %s %s %s %s %s %s %s %s %s)' % (
            gopt(fa.get('gt'), lambda v: self.sval(leaf, v, scls)), gopt(fa.get('ge'), lambda v: self.sval(leaf, v, scls)),
            gopt(fa.get('lt'), lambda v: self.sval(leaf, v, scls)), gopt(fa.get('le'), lambda v: self.sval(leaf, v, scls)),
            glist([self.sval(leaf, v, scls) for v in fa.get('values', [])]),
            gopt(fa.get('min_len'), gz), gopt(fa.get('max_len'), gz),
            gopt(pat, self.pattern), gopt(fa.get('total_digits'), gz), gopt(fa.get('fraction_digits'), gz), msl_t)
        named = bool(fa) or base == 'uuid'
        qn = 'None'
        if named:
            qn = '(Some (%s, %s))' % (gtext(scls.get_namespace() or ''), gtext(scls.get_type_name()))
        return '(mkstype %s %s %s)' % (G_BASE[base], f, qn)

    def ty(self, ty, scls):
        if ty[0] == 'leaf':
            return '(DLeaf %s)' % self.stype(ty[1], scls)
        if ty[0] == 'ref':
            return '(DRef %d%%nat)' % ty[1]
        (iname, icls), = scls._type_info.items()
        return '(DArr (%s, %s) %s %s)' % (gtext(scls.get_namespace() or ''), gtext(scls.get_type_name()), gtext(iname),
                                         self.ty(ty[1], icls))

    def fld(self, f, v):
        scls = v.type if f['kind'] == 'attr' else v
        A = scls.Attributes
        mx = 'PosInf' if f['max'] is None else '(Fin %s)' % gz(f['max'])
        dflt = 'None'
        if f.get('default') is not None:
            dflt = '(Some %s)' % self.sval(f['ty'][1], f['default'], scls)
        return '(mkfld %s %s %s %s %s %s %s None)' % (
            gtext(f['name']), self.ty(f['ty'], scls), gz(f['min']), mx, gbool(f['nillable']),
            'FAttr' if f['kind'] == 'attr' else 'FElem', dflt)

    def items(self, c, cls):
        """consecutive members with the same xml_choice_group form one IGroup"""
        out, cur, run = [], None, []

        def flush():
            if run:
                self.groups.setdefault(cur, len(self.groups))
                out.append('(IGroup %d %s)' % (self.groups[cur], glist(run)))
                del run[:]
        for f in c['fields']:
            t = self.fld(f, cls._type_info[f['name']])
            g = f.get('choice')
            if g and f['kind'] == 'elem':
                if g != cur:
                    flush()
                cur = g
                run.append(t)
            else:
                flush()
                cur = None
                out.append('(IOne %s)' % t)
        flush()
        return glist(out)

    def universe(self, svc=None):
        """[klass...]: the classes of desc, then (when a service is given) the in/out message
        classes of its methods m0..m(n-1): message of class i = 2 entries at n + 2 i, n + 2 i + 1"""
        self.groups = {}
        rows = []
        for cid, c in enumerate(self.desc['classes']):
            cls = self.classes[cid]
            rows.append('(mkklass %s %s %s %s)' % (gtext(c['ns']), gtext(c['name']),
                                                   gopt(c['parent'], lambda p: '%d%%nat' % p), self.items(c, cls)))
        if svc is not None:
            for i in range(len(self.classes)):
                d = svc.public_methods['m%d' % i]
                for msg in (d.in_message, d.out_message):
                    (fname, ftype), = msg._type_info.items()
                    A = ftype.Attributes
                    mx = 'PosInf' if A.max_occurs in (D('inf'), float('inf')) else '(Fin %s)' % gz(int(A.max_occurs))
                    rows.append('(mkklass %s %s None [IOne (mkfld %s (DRef %d%%nat) %s %s %s FElem None None)])' % (
                        gtext(msg.get_namespace()), gtext(msg.get_type_name()), gtext(fname), i, gz(int(A.min_occurs)), mx,
                        gbool(bool(A.nillable))))
        return glist(rows)

    def value(self, ty, v, scls):
        """neutral value of declared type ty -> Gallina value; scls = real class of the type"""
        k = v[0]
        if k == 'none':
            return 'NNone'
        if k == 'list':
            if ty[0] == 'arr':
                (_, icls), = scls._type_info.items()
                return '(NList %s)' % glist([self.value(ty[1], x, icls) for x in v[1]])
            return '(NList %s)' % glist([self.value(ty, x, scls) for x in v[1]])
        if k == 'obj':
            cls = self.classes[v[1]]
            fti = cls.get_flat_type_info(cls)
            out = []
            for (_, f), x in zip(flat_fields(self.desc, v[1]), v[2]):
                m = fti[f['name']]
                out.append(self.value(f['ty'], x, m.type if f['kind'] == 'attr' else m))
            return '(NObj %d%%nat %s)' % (v[1], glist(out))
        return '(NLeaf %s)' % self.sval(ty[1], v, scls)
