#!/usr/bin/env python3
"""Re-resolves the /repo commit hash of every `fixed` entry of known_findings.json by its subject line
(hashes change when /repo's fix commits are rebased) and reports entries whose commit is missing."""
import json, os, subprocess, re
ROOT = os.path.dirname(os.path.dirname(os.path.abspath(__file__)))
p = os.path.join(ROOT, 'known_findings.json')
kf = json.load(open(p))
log = [l.split(' ', 1) for l in subprocess.run(['git', '-C', '/repo', 'log', '--format=%h %s'],
       stdout=subprocess.PIPE, text=True).stdout.strip().split('\n')]
bad = 0
for f in kf:
    if f.get('status') != 'fixed':
        continue
    c = f.get('commit', '')
    m = re.match(r'^([0-9a-f]{7,40}) (.*)$', c)
    subj = m.group(2) if m else c
    if re.match(r'^[0-9a-f]{7,40}$', c.strip()):       # hash only: these commits are below any rebase
        cand = [h for h, s in log if h.startswith(c.strip()[:7]) or c.strip().startswith(h)]
    else:
        cand = [h for h, s in log if s.startswith(subj[:70]) or subj.startswith(s[:70])]
    if len(cand) != 1:
        print('UNRESOLVED', f['property'], f['key'], repr(c), cand); bad += 1
        continue
    old = m.group(1) if m else None
    f['commit'] = '%s %s' % (cand[0], [s for h, s in log if h == cand[0]][0])
    f['line'] = 'fixed: property=%s %s %s' % (f['property'], cand[0], f.get('what', ''))
json.dump(kf, open(p, 'w'), indent=1)
print('fixed entries: %d, unresolved: %d' % (sum(1 for f in kf if f.get('status') == 'fixed'), bad))
