#!/bin/bash
# tools/mkwt.sh c13  -> /tmp/vw-c13 (verif worktree, branch b-c13; created from main, or resumed and
# merged with main when the branch exists), /tmp/rw-c13 (detached repo worktree at /repo HEAD)
set -e
n=$1
git -C /verif worktree prune; git -C /repo worktree prune
if git -C /verif rev-parse -q --verify b-$n >/dev/null; then
  git -C /verif worktree add -q /tmp/vw-$n b-$n
  git -C /tmp/vw-$n merge -q -m "merge main into b-$n" main || echo "MERGE CONFLICT in /tmp/vw-$n"
else
  git -C /verif worktree add -q -b b-$n /tmp/vw-$n main
fi
git -C /repo worktree add -q --detach /tmp/rw-$n HEAD
echo "/tmp/vw-$n /tmp/rw-$n"
