#!/bin/bash
# tools/mkwt.sh c13  -> /tmp/vw-c13 (verif worktree, branch b-c13), /tmp/rw-c13 (repo worktree)
set -e
n=$1
git -C /verif worktree add -q -b b-$n /tmp/vw-$n HEAD
git -C /repo worktree add -q --detach /tmp/rw-$n HEAD
echo "/tmp/vw-$n /tmp/rw-$n"
