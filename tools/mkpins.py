#!/venv/bin/python
"""Writes coq/<dir>/Pins.v from the CURRENT /repo tree: one Example per generated token table of
Gen/Tokens.v stating that it equals the table the models and proofs were written against.
Run by hand (never by a check) after a deliberate change of /repo (a fix: commit) has been mirrored
in the models and their proofs:   tools/mkpins.py C08 [key-prefix ...]"""
import os, sys
ROOT = os.path.dirname(os.path.dirname(os.path.abspath(__file__)))
sys.path.insert(0, os.path.join(ROOT, 'harness'))
os.environ.setdefault('PYTHONHASHSEED', '0')
import translate.tokens as T
repo = os.environ.get('VERIF_REPO', '/repo')
d = sys.argv[1]
tab = T.table(repo)
out = ['(* Pins: written by tools/mkpins.py from the tree the models of %s were proved against.' % d,
       '   Each Example says that a token table REGENERATED from /repo on every run (Gen/Tokens.v) is',
       '   still the one transcribed in the hand-written models; an edit of a decisive constant,',
       '   operator, called method, except clause or regular expression breaks it. *)',
       'From Coq Require Import ZArith List String.',
       'From SpyneV Require Import Gen.Tokens.',
       'Import ListNotations.', 'Open Scope Z_scope.', '']
names = []
for k in sorted(tab):
    v = tab[k]
    if isinstance(v, str):
        rhs = T.coq_text(v)
    else:
        rhs = '[' + ';\n     '.join(T.coq_text(x) for x in v) + ']'
    out.append('Example pin_%s : %s =\n    %s.\nProof. vm_compute. reflexivity. Qed.\n' % (k, k, rhs))
    names.append('pin_' + k)
os.makedirs(os.path.join(ROOT, 'coq', d), exist_ok=True)
open(os.path.join(ROOT, 'coq', d, 'Pins.v'), 'w').write('\n'.join(out))
print('\n'.join(names))
