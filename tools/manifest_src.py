NOTES = ("Every check regenerates coq/Gen from /repo, rebuilds the .vo files it needs, re-collects Print Assumptions, "
         "runs the model/implementation correspondence and the direct oracle; see DESIGN.md section 3.3. "
         "Known findings: /verif/known_findings.json.")
TB = ("Trusted: Coq 8.16.1 kernel + vm_compute (no native_compute); the ast translators in harness/translate; the "
      "correspondence harness; Python/library behaviour as transcribed in the hand-written models (tied by differential "
      "testing, not verified). Theorems are closed under the global context unless the evidence lists axioms. ")
CHECKS = {
 'C08': {
  'text': "Unbounded theorems (all integers, all fixed-width types from the generated table) that print/read is the "
          "identity, output lies in the XSD lexical space and every XSD literal is read as its denotation; the Gallina "
          "codec models are tied to /repo by per-run differential evaluation and the validation functions are "
          "regenerated from the source text on every run.",
  'design_ref': 'DESIGN.md section 6 (C08)',
  'note': TB + "Modelled: CPython int()/str(), isoformat, regex matching as transcribed; lxml XMLSchema is the XSD oracle.",
  'technique': 'Coq proof over Gallina model + generated tables; differential correspondence',
 },
}
NOT_APPLICABLE = {}
