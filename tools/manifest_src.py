NOTES = ("Every check regenerates coq/Gen from /repo, rebuilds the .vo files it needs, re-collects Print Assumptions, "
         "runs the model/implementation correspondence and the direct oracle; see DESIGN.md section 3.3. "
         "Known findings: /verif/known_findings.json.")
TB = ("Trusted: Coq 8.16.1 kernel + vm_compute (no native_compute); the ast translators in harness/translate; the "
      "correspondence harness; Python/library behaviour as transcribed in the hand-written models (tied by differential "
      "testing, not verified). Theorems are closed under the global context unless the evidence lists axioms. ")
CHECKS = {
 'C08': {
  'text': "Unbounded theorems that print/read is the identity, output lies in the XSD lexical space and every XSD literal is read "
          "as its denotation, for integers (all fixed-width types from the generated table, explicit '+' included), "
          "dateTime/date/time, duration, boolean, base64/hex, Decimal (every finite Decimal; the exact region where str() "
          "leaves xs:decimal is proved and listed as a finding) and Uuid (against the generated UUID_PATTERN). The "
          "date/time/duration/uuid regular expressions are regenerated from Python's own parse on every run and proved, for all "
          "strings, to match exactly as the hand-written scanners the theorems are stated over; codec models are tied to /repo "
          "by per-run differential evaluation.",
  'design_ref': 'DESIGN.md section 6 (C08)',
  'note': TB + "Trusted and sampled each run: the generic regex matcher agrees with Python re on the translated fragment "
          "(\\d = ASCII digits). Modelled for ASCII: int()/str(), Decimal str()/constructor, uuid.UUID str()/constructor, "
          "isoformat; lxml XMLSchema is the XSD oracle. Double/Unicode/AnyUri by direct oracle only. Kernel primitives "
          "PrimFloat/PrimInt63 are used by the exhaustive binary64 fraction sweep.",
  'technique': 'Coq proof over Gallina models (incl. a generic backtracking regex matcher with proved-sufficient fuel and a sound normal form) + ast/regex translators + token pins; differential correspondence; direct round-trip/lexical oracles',
 },
 'C05': {
  'text': "Theorems, for all attribute sets and all values, that the validate_string/validate_native functions regenerated "
          "from the source on every run equal the specification: integers (range facets, fixed-width bounds, enumeration, "
          "nillability), Unicode (length in code points, whole-string pattern for every regex oracle, enumeration), "
          "DateTime/Date/Time (range facets over the instant / day number / microsecond of the day, with the naive-value rule "
          "and offset-independence); that every protocol's enforcement path (XML/SOAP element and attribute, "
          "JSON/YAML/MessagePack, HttpRpc) equals that specification and hence gives the same verdict for the same logical "
          "value; that occurrence counting, including array element vs array items, is exactly min<=n<=max identically over "
          "XML, hierarchical and flat documents. Path models are tied to /repo by differential evaluation (~5,700 cases per "
          "run) and an end-to-end oracle drives generated services through all six protocols at six nesting positions "
          "(~24,000 requests per run).",
  'design_ref': 'DESIGN.md section 6 (C05)',
  'note': TB + "Decimal/Double ranges, Boolean, Duration, Uuid, Enum, alternative document forms (byte strings, numbers for "
          "text-encoded types, YAML timestamps), null/absent and lexical well-formedness (lxml XSD as judge) are decided by "
          "the direct oracle; the regex engine and the C08 date/time readers are parameters of the theorems; DateTime bounds "
          "must be timezone-aware; Decimal digit facets are not part of the property. 20 findings listed (lexical leniencies; "
          "ValueError from out-of-range date/time fields).",
  'technique': 'Coq proof over source-generated validation functions (two fail-closed translators) + differential correspondence of every enforcement path + e2e oracle',
 },
 'C13': {
  'text': "Theorems over a trace model of WsgiApplication (handle_rpc / handle_error / handle_wsdl_request / the bounded "
          "body reader / _ResponseIterator), for every request, CONTENT_LENGTH text, configuration, input stream "
          "(universally quantified list of read answers), outcome of each lower layer, and abort point: start_response "
          "is called at most once and before any chunk, exactly once when the lower layers raise only Faults; a "
          "Content-Length header equals the body size; never more than max_content_length bytes are read or asked for; "
          "a body that does not fit ends in RequestTooLong without user code; the context is closed exactly once and "
          "not before the body is handed over. The deciding expressions of the body reader are regenerated from "
          "wsgi.py on every run and the whole trace model is tied to /repo by differential evaluation of ~1600 "
          "instrumented WSGI calls per run.",
  'design_ref': 'DESIGN.md section 6 (C13)',
  'note': TB + "Lower layers (protocols, user code, serialisers) enter as universally quantified per-stage outcomes; "
          "PEP 3333 typing rules (str headers, bytes chunks) are observed by the oracle and wsgiref.validate, not "
          "proved; MTOM, auxiliary contexts, push interface and raising listeners are not modelled. One finding listed "
          "(HttpRpc never reads an undeclared body).",
  'technique': 'Coq proof over a trace model of the WSGI layer + source-generated reader expressions + differential correspondence',
 },
 'C17': {
  'text': "Theorems that the parser configuration REGENERATED from the source on every run (XmlDocument.__init__ defaults, "
          "the parser_kwargs dict, the parser argument and the try/except around every lxml parse call reachable from a "
          "request in xml.py, soap11.py, soap12.py, mime.py, _inbase.py) is safe at every request site, and that under a "
          "safe configuration, for ALL documents and ALL file-system/network contents, the modelled libxml2 parse opens "
          "nothing, returns a result independent of the outside world, keeps the request's own tree verbatim (no entity "
          "expanded into element content, no DTD defaults), accepts depth <= 256 only, and every rejection (bombs, "
          "nesting, loops) is a Client.XMLSyntaxError fault; each safety clause is shown necessary by a witness. The "
          "libxml2 option model is tied to the real parser by differential evaluation under 15 configurations, and a "
          "direct oracle watches canary files (inotify), a localhost socket and canary strings on 7 request routes.",
  'design_ref': 'DESIGN.md section 6 (C17)',
  'note': TB + "libxml2/lxml option semantics are modelled (coq/C17/Xml.v) and compared with the real parser, not verified; "
          "bounded time/memory is measured on a subprocess, not proved; network fetches cannot be attempted by this "
          "sandbox's libxml2 at all, so no_network is covered by the proof obligation only. One finding family listed: "
          "internal entities referenced in ATTRIBUTE values are substituted by libxml2 on read.",
  'technique': 'Coq proof over source-generated parser configuration + libxml2 option model; differential correspondence; canary oracle',
 },
 'C09': {
  'text': "For every output protocol (SOAP 1.1/1.2, XmlDocument, JSON, YAML, MessagePack, msgpack-rpc, HttpRpc), chunked or not, "
          "the WSGI response is handle_error applied to the first thing user code raises (listeners, method body, generator "
          "result before/after its first item): a Fault is reported as itself with the documented status (413/404/405/401, "
          "400 iff code is Client or Client.*, else 500; always 500 for SOAP) and round-trips code, message and nested detail; "
          "any non-Fault exception yields the byte-identical constant Server/'Internal Error' fault (non-interference), and "
          "the return value is never sent. Excluded and proved as such: HttpRpc carries no detail; XML-unrepresentable content "
          "escapes; a chunked HttpRpc stream failing after its first chunk; the SOAP 1.2 client strips the message.",
  'design_ref': 'DESIGN.md section 6 (C09)',
  'note': TB + "19 theorems over a model interpreted over tables regenerated from error.py, _outbase.py, soap11.py, application.py "
          "and server/wsgi.py on every run (class table, status chains, except-clause skeletons); 4 listed findings "
          "(detail-lost, message-stripped, xml-unrepresentable escape, chunked streaming); byte level (lxml, json, yaml, "
          "msgpack) trusted, the correspondence parses real bytes; which protocols serialise lazily is hand-written.",
  'technique': 'Coq proof over a table-driven Gallina model; fail-closed ast translator (faultpipe); differential correspondence; byte-identity non-interference oracle',
 },
 'C18': {
  'text': "Calling a method through the in-process NullServer returns or raises the same native result a client obtains over "
          "XmlDocument, Soap11 or JsonDocument, for every generated signature over the wrapped, out_bare, empty and field-wise "
          "bare body styles, 0..n arguments, none/one/many return values, generators, faults and in-headers; both paths enter "
          "the function exactly once with the same arguments between the same application events; keyword and positional "
          "invocation are equivalent; an Ignored return reaches the direct caller and goes out as empty; NullServer(ostr=True) "
          "returns exactly the wire response.",
  'design_ref': 'DESIGN.md section 6 (C18)',
  'note': TB + "Proved over an executable Gallina model of _FunctionCall.__call__, _cb_sync, Application.process_request, the "
          "decorator's message synthesis, the ServerBase Ignored handling and the out-object-to-message step of XmlDocument, "
          "Soap11 and HierDictDocument; the if/elif chains, is_out_bare(), the packing loops and the protocols' non-wrapped "
          "branch are regenerated from the sources on every run (Gen/NullSrv.v). Codecs enter as a round-trip hypothesis "
          "(C01/C02). Five defects repaired (NullServer bare argument with an inherited class, Ignored with several return "
          "values, ostr+Ignored; by C01: XmlDocument non-wrapped replies; by C02: bare requests over the dict documents) - "
          "the two wire-side repairs are tracked by generated constants (xml_nonwrapped, hier_bare_lookup) so the "
          "full-strength theorems apply to all three protocols on the current tree. Not modelled: @mrpc, aux contexts, async results, push output, Redirect, non-default message naming.",
  'technique': 'Coq proof over a Gallina model of NullServer and the wire pipeline + fail-closed ast translator (nullsrv) + differential correspondence and NullServer-vs-wire oracle',
 },
 'C07': {
  'text': "For every application the generated WSDL 1.1 and its embedded schemas are well-formed; every QName reference (type, "
          "base, element, message, binding, port) resolves to a definition in the document or an XSD builtin; every exposed "
          "method is exactly one portType operation with a matching binding operation, messages and declared faults; "
          "rebuilding in fresh processes under any hash seed gives byte-identical output; and a SOAP client generated from "
          "the WSDL alone (zeep, in-process) produces requests the server accepts and decodes the replies to the values returned.",
  'design_ref': 'DESIGN.md section 6 (C07)',
  'note': TB + "Proved over a model of Wsdl11/XmlSchema/toposort2/get_namespace_prefix that takes its decisive tokens from the "
          "source on every run (Gen/WsdlGen.v): prefix allocation; toposort2 totality and soundness; closure of WSDL "
          "references; one operation per method with unique, paired bindings; closure of schema references under the "
          "decidable wf_snap (checked per snapshot); order independence under key_injb or tier_sepb (about 85-90% of "
          "generated snapshots; ties between identical complex twins in one tier are observed under hash seeds, not proved). "
          "Six listed findings (foreign namespaces on message names, a bare class reused as a header, mutually recursive "
          "types). Well-formedness of the bytes and the zeep client are exercised, not proved; populate_interface is not modelled.",
  'technique': 'Coq proof over a Gallina model of the WSDL/XSD emitters + fail-closed ast translator (wsdlgen) + model-vs-bytes correspondence + byte oracle (references, hash seeds, zeep)',
 },
 'C11': {
  'text': "Theorems over an executable model of Spyne's method registry and request routing (decorator naming, ServiceMeta, "
          "check_unique_method_keys, populate_interface/process_method, get_call_handles, every protocol's "
          "method_request_string, HttpBase's pattern list and match_pattern), for ALL applications, names and requests: in "
          "every application that constructs, a request naming n through any channel (XML root tag / SOAP body child, "
          "dict-document single key, msgpack-rpc field, HttpPattern, last URL segment; a request that names no method at all - method_request_string None, e.g. a SOAP Fault sent as the request - runs nothing and is not found) runs exactly the one primary method "
          "registered as n followed by its auxiliary methods, each once, and nothing else; a name nothing is registered under "
          "(case, prefix, suffix, another namespace) runs nothing and yields ResourceNotFound; construction succeeds under "
          "conditions that do not mention order, so every permutation of the service list constructs iff it did and routes "
          "every request identically; two primary methods of one name, and two methods carrying the same HttpPattern, are "
          "rejected. The routing tokens of the source are extracted on every run by a fail-closed translator and proved to "
          "render the model's strings and branches; ~2,800 constructions (all permutations) and ~17,000 driven requests per run.",
  'design_ref': 'DESIGN.md section 6 (C11)',
  'note': TB + "Modelled, not verified: lxml .tag, json/msgpack key decoding, re full-match restricted to literal addresses "
          "with <name> placeholders and literal non-empty verbs, host=None. @mrpc member methods, headers, non-WSGI servers, "
          "ThreadAuxProc and HttpRpc POST are not driven. Order-independence of the HTTP pattern list assumes auxiliary "
          "methods carry no HttpPatterns. Five defects repaired; no open finding.",
  'technique': 'Coq proof over a Gallina model of registry + routing + source-extracted routing tokens (routekeys translator) + differential correspondence over applications x permutations x protocols + invocation-counter oracle',
 },
 'C14': {
  'text': "For both the WSGI transport and the ServerBase call sequence, for every outcome of the pipeline stages in the "
          "property's alphabet and every set of event managers and listener behaviours, the event trace of the pipeline "
          "programs REGENERATED from the current source is: created first / closed last exactly once; the function at most once "
          "and only after a completed method_call; method_return_object iff normal return; method_exception_object iff the "
          "call ends in a fault, followed by the matching document/string events; listeners run in registration order, once "
          "per manager, inherited at class creation (induction over registration programs).",
  'design_ref': 'DESIGN.md section 6 (C14)',
  'note': TB + "Pipeline programs (context.py, server/_base.py, application.py process_request, server/http.py, server/wsgi.py "
          "handle_rpc/handle_error/__finalize) are regenerated by a fail-closed ast translator on every run and the theorems "
          "re-proved over them (exhaustive path exploration decided by vm_compute + a proved every-run-is-a-path lemma). "
          "Generator/push/MTOM/aux paths are flagged, not modelled; protocol serialize/deserialize bodies are library steps "
          "whose outcomes are observed inputs. One finding listed (ServerBase lets a serialiser exception escape).",
  'technique': 'Coq proof over a statement-language model of the pipeline generated from source (pipeline translator) + path exploration with soundness lemma + induction over registration programs + trace correspondence + listener-level oracle',
 },
 'C03': {
  'text': "Theorems over an executable model of SimpleDictDocument/HttpRpc/_parse_qs. For every covered signature (nested "
          "objects, arrays of objects, primitive arrays, any hier_delim), both strict_arrays settings, every conformant sparse "
          "value and every permutation of its spelled pairs, the user function receives exactly that value with every array in "
          "index order (sorted-array refinement of both branches + _s2cmi's rank invariant), end to end through every "
          "admissible query-string encoding. Conversely the flattened form of an object maps back to an equal object. The "
          "declared response headers reach start_response member by member with the exact body. The pinned tree's string sort "
          "and the values the notation cannot carry are refuted with witnesses.",
  'design_ref': 'DESIGN.md section 6 (C03)',
  'note': TB + "The flatkeys translator proves the source tokens (_s2cmi as a function, the regex literal, the strict comparisons, "
          "the empty marker, the index format, the _parse_qs separators) equal to the model's. Python re, sorted, dict order "
          "and unquote are transcribed and tied by differential evaluation through real WSGI GETs. Theorems cover "
          "validator=None, GET query strings, text leaves (codecs are C08) and wf_sig signatures (no '[' in names or delimiter, "
          "distinct flat keys, non-recursive); the soft validator and non-ASCII escapes are oracle-only; POST needs werkzeug "
          "and is unexercised. Two notation limits listed as findings (empty primitive array, all-None object).",
  'technique': 'Coq proof (permutation invariance via sorted-array refinement) over a Gallina model + source-token translator (flatkeys) + differential correspondence through WsgiApplication + e2e oracle',
 },
 'C15': {
  'text': "For every history of derivation and evolution operations (primitive customization, customize with "
          "child_attrs/child_attrs_all/child_attrs_noexc, Array/Iterable, Mandatory, subclassing, append_field/insert_field) "
          "every previously existing class that does not refer to an evolved class keeps its record, snapshot, resolved "
          "attributes, flat field table and validation verdicts; the derived class carries exactly the requested constraints "
          "over the original's; added fields reach every customized variant; field order is declaration order, parents first.",
  'design_ref': 'DESIGN.md section 6 (C15)',
  'note': TB + "Proved over a class-store model of the repaired derivation code (5 fixes: Mandatory(Array) aliasing, inherited "
          "_variants registry, Decimal max_str_len, caller dict mutation, re-derived __extends__) as an invariant over "
          "operation histories; tied per run by snapshot correspondence after every step, an ast translator of 17 source "
          "tokens (C15_source_shape, a syntactic tripwire) and a direct oracle; schema/protocol output order and hash-seed "
          "independence are observed by the oracle, not proved. Outside the modelled language: parser/sanitizer/pk/fk/"
          "values_dict/prot/store_as, Attributes.order, SelfReference/XmlData/XmlAttribute fields, nested child_attrs.",
  'technique': 'Coq proof (frame invariant by induction over operation histories) over a class-store model + snapshot correspondence + fail-closed ast translator (derive) + direct oracle',
 },
 'C04': {
  'text': "Whatever document a client sends (XML/SOAP, JSON, YAML, MessagePack, HttpRpc), every argument, header and nested "
          "member handed to user code is None, a native value of the declared model (an instance of a registered subclass "
          "where a complex type is declared), or a list of such; a request that would need another type is refused with a "
          "validation fault.",
  'design_ref': 'DESIGN.md section 6 (C04)',
  'note': TB + "Typing theorems proved over Gallina models of XmlDocument.from_element (all documents and registries, validator "
          "None/soft, parse_xsi_type on/off) and of HierDictDocument._from_dict_value/_doc_to_object for JSON/YAML/MessagePack "
          "under soft validation, instantiated with decision tables regenerated from the source on every run (xsi:type guard; "
          "_ret_bool/_ret_number/null-object handling; byte-string text is decoded before validation, the decode being an "
          "observed table). Refusal of unrelated xsi:type is proved, and the pre-repair code and MessagePack ByteArray are "
          "refuted on witnesses. Observed only: HttpRpc, SOAP envelopes and headers, validator=lxml, rich leaf types. Three "
          "defects repaired here, the null-object one by the C05 repair; findings: MessagePack ByteArray given a str "
          "receives a tuple of str (other kinds are refused), SOAP headers are not schema-validated under validator=lxml. "
          "Requests are also driven in sequences on one long-lived application; history-independence is observed, not proved.",
  'technique': 'Coq proof (typing judgement, induction on fuel) over Gallina models of the XML and dict deserialisers + fail-closed ast translators (xsitype, dictleaf) + vm_compute correspondence + isinstance/value-space oracle with an exhaustive xsi:type retag battery',
 },
 'C16': {
  'text': "For every class hierarchy and every protocol, a subclass carries its ancestors' members followed by its own. With "
          "polymorphic=True an instance of a subclass standing where its base is declared is written with all of its members "
          "and a type marker - xsi:type in XML/SOAP, the class-name wrapper key in JSON/YAML/MessagePack - that resolves in the "
          "transmitted document, and the receiver rebuilds an instance of the same subclass with equal members at every depth; "
          "a marker naming an unknown class or a class that is not a subclass is refused. With polymorphic=False exactly the "
          "declared class's projection is written and read back.",
  'design_ref': 'DESIGN.md section 6 (C16)',
  'note': TB + "Proved over a model of get_flat_type_info (odict rule), the metaclass's __extends__ rule, "
          "get_polymorphic_target, Interface.add_class, XmlDocument.to_parent/from_element with namespace scopes, and "
          "HierDictDocument with wrapper keys, parameterised by 11 source facts and the decision function of "
          "XmlDocument._get_xsi_target, all regenerated from the AST on every run (c16shape; obligation C16_xsi_target_src). "
          "Preconditions, all decidable and evaluated on every generated program and oracle value: well-formed universe, "
          "element members only, distinct {ns}name keys, registered runtime classes, validator None. Three C16 fix commits plus "
          "C04's xsi:type guard. Finding: a subclass of a member-less root class is not substitutable in any protocol "
          "(C16_extends_refuted / C16_extends_partial). XmlAttribute/XmlData, sub_name/sub_ns, polymap, mixins, "
          "complex_as=list are not modelled.",
  'technique': 'Coq proof (17 theorems) over a Gallina model of inheritance + polymorphic codecs + fail-closed ast translator (c16shape incl. _get_xsi_target) + correspondences (class statements, registry, XML trees with marker resolution, decoders on mutated documents) + loopback oracle over six protocols',
 },
 'C06': {
  'text': "The XML Schema Spyne generates compiles, and every request or response document Spyne emits for values that satisfy "
          "the declared constraints is valid against it (theorem over a model of the emitter and an XSD 1.0 validity relation "
          "written from the recommendation, for all well-formed universes and conformant values; partial in two refuted "
          "regions). For documents that use only declared fields in declared order, schema validation and soft validation "
          "reach the same verdict for every constraint both implement (all declared-order documents; leaf half proved for "
          "integers, strings and booleans).",
  'design_ref': 'DESIGN.md section 6 (C06)',
  'note': TB + "The emitter's decision tokens (which condition omits minOccurs/maxOccurs/default/nillable, facet-tag tables, "
          "is_default lists, choice placement, use derivation, the Decimal and Boolean writers, xsi:nil values) are regenerated "
          "into Gen/XsdEmit.v and the theorems are stated over them. Closure of the published schema is a sound decidable "
          "check evaluated per generated universe, not a theorem over all universes. Double, Float, Date, Time, DateTime, "
          "Duration, ByteArray, Uuid are opaque ordered kinds under library hypotheses tabulated per run; 'the schema "
          "compiles' is observed with lxml. Three finding regions: Decimal exponent notation on the wire, a nil element of a "
          "class with a required attribute, a choice group declared in two runs.",
  'technique': 'Coq proof over a Gallina model of the schema emitter, the XML writer and soft validation against an XSD validity relation + fail-closed ast translator (xsdemit) + correspondences (model schema vs real XSD, XSD model vs libxml2, emit, soft) + lxml oracle',
 },
 'C01': {
  'text': "For every generated service signature (wrapped / bare / out_bare, headers, multiple return values) over generated type "
          "universes (customised primitives, nested and inherited classes, wrapped and unwrapped arrays, XmlAttribute / XmlData) "
          "and every conformant argument tuple, a request denoting those values over XmlDocument, SOAP 1.1 or SOAP 1.2 under "
          "validator None / soft / lxml invokes the user function exactly once with equal native values, and the response is "
          "decoded by an independent schema-directed decoder, by zeep driven from the WSDL, and by the Spyne client to the "
          "returned value - equality per type, identifying only absent=None, empty unwrapped sequence=None, b''=None (and "
          "XmlData ''=None, which XML forces).",
  'design_ref': 'DESIGN.md section 6 (C01)',
  'note': TB + "Proved over hand-written Gallina models of xml.py / soap11.py / decorator.py / the server and client pipeline "
          "(C01_xmlx_rt, C01_call_fidelity, for all leaf codecs, universes, services, values and user functions); leaf "
          "hypothesis discharged from the C08 theorems; source tokens regenerated by translate/xmlwire.py so an edit breaks a "
          "lemma; tied every run by 7 vm_compute correspondences and a WSGI / zeep / Spyne-client oracle. lxml validation "
          "enters as a hypothesis (observed on every conformant request of a run); Decimal / Double / Uuid are an "
          "assumed-identity codec in the theorems and oracle-only; polymorphism is C16's. Findings: bare None return not "
          "nillable in the schema; WSDL header message of a class also used as a bare message.",
  'technique': 'Coq proof over Gallina models of the XML/SOAP codecs and the call pipeline + generated-token translator (xmlwire) + model-vs-implementation correspondence + independent-decoder oracle (reference XSD codec, zeep in-process, Spyne client)',
 },
 'C02': {
  'text': "A value of a declared type (Integer of any magnitude, Unicode, Boolean, finite Double, Decimal, ByteArray, objects with "
          "inheritance, arrays, repeated and optional members) sent by the documented conventions of JsonDocument, YamlDocument, "
          "MessagePackDocument and MessagePackRpc enters the user function as the same value, and the returned value is written "
          "as the conventional document that decodes to it, for every type universe, every user function and all 48 "
          "configurations (ignore_wrappers x complex_as x polymorphic x validator).",
  'design_ref': 'DESIGN.md section 6 (C02)',
  'note': TB + "Proved over a model of hier.py/_base.py/json/yaml/msgpack leaf handlers (Wire/Dict.v) against the documented "
          "conventions (C02/Spec.v), tied to the source by a fail-closed translator (dictdoc: deserialize read statement by "
          "statement, source guards, rpc envelope) and ~16.8k vm_compute correspondence cases per run; wrapped body style only "
          "(bare is C18's); responses are read by a reference decoder; two regions (complex_as=list with ignore_wrappers=False; "
          "subclass instances with polymorphic + ignore_wrappers) are refuted in the model and listed as findings; all repairs "
          "(four C02 patches, the null-member fix, and C10's malformed-input repairs the model follows) are on /repo main.",
  'technique': 'Coq proof (model/spec split, fuel-indexed structural readers, induction on value depth, UTF-8 and Decimal text round trips, reuse of C08 theorems) + ast translator (dictdoc) + model-vs-implementation correspondence + reference-codec oracle through the ServerBase pipeline',
 },
 'C10': {
  'text': "For every request byte string, request decoding (XmlDocument, Soap11/12, JsonDocument, YamlDocument, "
          "MessagePackDocument; validator None/soft/lxml; through ServerBase and WsgiApplication.handle_rpc) ends in a call of "
          "the user function or in a fault whose code is Client or Client.*; no exception escapes, no Server fault is produced "
          "for malformed input, and the user function runs only if no stage raised.",
  'design_ref': 'DESIGN.md section 6 (C10)',
  'note': TB + "Proved over Gallina models of the repaired code: all XML document trees (elements, comments, PIs, entity "
          "references, attributes, namespace maps, xsi:nil/xsi:type) and all dict-document values, all well-formed applications "
          "of the modelled universe, all parser-library failures in the declared raise sets. except-clauses, guards, fault "
          "codes, class hierarchy and the handle_rpc skeleton are regenerated from the source each run (Gen/ReqPipe.v), so "
          "narrowing an except or dropping a guard breaks a proof. 23 crash/Server-fault sites repaired by C10 patches (one more "
          "superseded by C01's removal of the child-attribute loop), 8 by other properties' fixes on main; findings: PyYAML "
          "AttributeError/KeyError on explicit !!timestamp/!!bool tags (C10_syntax_yaml_refuted / _partial) and a libyaml stack "
          "overflow on ~10^4-deep nesting. Decimal, Double, Uuid, facets, AnyDict/AnyXml, inheritance, SOAP href/headers, "
          "MessagePackRpc and HttpRpc are decided by the direct oracle only; response serialisation, time and memory are not "
          "modelled.",
  'technique': 'Coq proof (structural induction on document trees, fuel-indexed induction on declared types, case analysis over generated exception tables) + fail-closed ast translator (reqpipe) + model-vs-implementation correspondence (6 protocols x validators incl. WSGI twins, leaf readers) + mutation-campaign oracle over 8 protocols',
 },
 'C12': {
  'text': "Invariant proofs over an interleaving transition system (any number of threads, every schedule, one step = one access "
          "to a shared variable) of WsgiApplication.handle_wsdl_request/Wsdl11 (double-checked lock), get_cls_attrs, sort_fields, "
          "memoize.__call__ and XmlDocument.__validate_lxml: the WSDL is built at most once and every requester gets the "
          "sequential document; the caches only ever hold and return the sequential value; a validation fault carries its own "
          "error text, also when validate() raises; the locks exclude, never dead-lock, every request finishes within a bounded "
          "number of its own steps, and every caller receives exactly the response of its request processed alone. The access "
          "skeletons of the eight shared-state functions are regenerated from the source on every run and proved to be the text "
          "the model mirrors, path by path; a deterministic baton scheduler ties the model to real threads on one "
          "WsgiApplication (~3800 interleavings per quick run) and a byte-for-byte oracle compares status, headers and body with "
          "the alone-response.",
  'design_ref': 'DESIGN.md section 6 (C12)',
  'note': TB + "Proved for the model's lock protocol and cache transparency; that no other per-request datum is parked on shared "
          "objects is monitored (attribute writes to application/interface/protocol/transport/builder instances, response "
          "comparison), not proved. Modelled, not verified: CPython switching as interleaving of whole shared accesses, lxml "
          "validate()/error_log, dict and WeakKeyDictionary operations as atomic; cdict fills, memoize variants and a failing "
          "WSDL build are covered by the oracle only; interleavings inside C calls are out of the scheduler's reach. The "
          "snapshot's three races are kept as _refuted theorems and were repaired in /repo.",
  'technique': 'Coq invariant proofs over an interleaving model + source-generated access skeletons (conctext translator) + deterministic-scheduler correspondence (sys.settrace / access hooks) + end-to-end differential oracle',
 },
}
NOT_APPLICABLE = {}

# checks that exist but are temporarily not claimed (being reconciled with repairs of other properties)
SUSPENDED = {}

# per-property overrides delivered by the builders (keys: text, note, technique, design_ref); a note that does not start
# with the trusted-base paragraph gets it prepended
import json as _json, os as _os, glob as _glob
for _f in sorted(_glob.glob(_os.path.join(_os.path.dirname(_os.path.abspath(__file__)), 'manifest.d', 'C*.json'))):
    _pid = _os.path.basename(_f)[:-5]
    _o = _json.load(open(_f))
    if _pid in CHECKS:
        for _k in ('text', 'note', 'technique', 'design_ref'):
            if _o.get(_k):
                CHECKS[_pid][_k] = (TB + _o[_k]) if _k == 'note' and not _o[_k].startswith('Trusted:') else _o[_k]
