NOTES = ("Every check regenerates coq/Gen from /repo, rebuilds the .vo files it needs, re-collects Print Assumptions, "
         "runs the model/implementation correspondence and the direct oracle; see DESIGN.md section 3.3. "
         "Known findings: /verif/known_findings.json.")
TB = ("Trusted: Coq 8.16.1 kernel + vm_compute (no native_compute); the ast translators in harness/translate; the "
      "correspondence harness; Python/library behaviour as transcribed in the hand-written models (tied by differential "
      "testing, not verified). Theorems are closed under the global context unless the evidence lists axioms. ")
CHECKS = {
 'C08': {
  'text': "Unbounded theorems (all integers, all fixed-width types from the generated table) that print/read is the "
          "identity, output lies in the XSD lexical space and every XSD literal is read as its denotation; the Gallina "
          "codec models are tied to /repo by per-run differential evaluation and the validation functions are "
          "regenerated from the source text on every run.",
  'design_ref': 'DESIGN.md section 6 (C08)',
  'note': TB + "Modelled: CPython int()/str(), isoformat, regex matching as transcribed; lxml XMLSchema is the XSD oracle.",
  'technique': 'Coq proof over Gallina model + generated tables; differential correspondence',
 },
 'C05': {
  'text': "Theorems, for all customised attribute sets and all integers, that the validate_native functions regenerated "
          "from the source on every run equal the specification (range facets, hardware bounds, enumeration, nillability), "
          "that the text-protocol and number-protocol enforcement paths give the same verdict for the same logical value, "
          "and that occurrence counting gives the same verdict over XML and dict documents and is exactly min<=n<=max; "
          "the path models are tied to /repo by differential evaluation and an end-to-end oracle drives generated services "
          "through all six protocol families at every nesting position.",
  'design_ref': 'DESIGN.md section 6 (C05)',
  'note': TB + "Proved for the integer family, None handling and occurrence counting; Unicode length/pattern/enumeration, "
          "lexical well-formedness of date/time/boolean literals are decided by the end-to-end oracle against a Python "
          "reference predicate and lxml's XSD validator (listed findings in known_findings.json).",
  'technique': 'Coq proof over source-generated validation functions + differential correspondence + e2e oracle',
 },
}
NOT_APPLICABLE = {}
