NOTES = ("Every check regenerates coq/Gen from /repo, rebuilds the .vo files it needs, re-collects Print Assumptions, "
         "runs the model/implementation correspondence and the direct oracle; see DESIGN.md section 3.3. "
         "Known findings: /verif/known_findings.json.")
TB = ("Trusted: Coq 8.16.1 kernel + vm_compute (no native_compute); the ast translators in harness/translate; the "
      "correspondence harness; Python/library behaviour as transcribed in the hand-written models (tied by differential "
      "testing, not verified). Theorems are closed under the global context unless the evidence lists axioms. ")
CHECKS = {
 'C08': {
  'text': "Unbounded theorems (all integers, all fixed-width types from the generated table) that print/read is the "
          "identity, output lies in the XSD lexical space and every XSD literal is read as its denotation; the Gallina "
          "codec models are tied to /repo by per-run differential evaluation and the validation functions are "
          "regenerated from the source text on every run.",
  'design_ref': 'DESIGN.md section 6 (C08)',
  'note': TB + "Modelled: CPython int()/str(), isoformat, regex matching as transcribed; lxml XMLSchema is the XSD oracle.",
  'technique': 'Coq proof over Gallina model + generated tables; differential correspondence',
 },
 'C05': {
  'text': "Theorems, for all customised attribute sets and all integers, that the validate_native functions regenerated "
          "from the source on every run equal the specification (range facets, hardware bounds, enumeration, nillability), "
          "that the text-protocol and number-protocol enforcement paths give the same verdict for the same logical value, "
          "and that occurrence counting gives the same verdict over XML and dict documents and is exactly min<=n<=max; "
          "the path models are tied to /repo by differential evaluation and an end-to-end oracle drives generated services "
          "through all six protocol families at every nesting position.",
  'design_ref': 'DESIGN.md section 6 (C05)',
  'note': TB + "Proved for the integer family, None handling and occurrence counting; Unicode length/pattern/enumeration, "
          "lexical well-formedness of date/time/boolean literals are decided by the end-to-end oracle against a Python "
          "reference predicate and lxml's XSD validator (listed findings in known_findings.json).",
  'technique': 'Coq proof over source-generated validation functions + differential correspondence + e2e oracle',
 },
 'C13': {
  'text': "Theorems over a trace model of WsgiApplication (handle_rpc / handle_error / handle_wsdl_request / the bounded "
          "body reader / _ResponseIterator), for every request, CONTENT_LENGTH text, configuration, input stream "
          "(universally quantified list of read answers), outcome of each lower layer, and abort point: start_response "
          "is called at most once and before any chunk, exactly once when the lower layers raise only Faults; a "
          "Content-Length header equals the body size; never more than max_content_length bytes are read or asked for; "
          "a body that does not fit ends in RequestTooLong without user code; the context is closed exactly once and "
          "not before the body is handed over. The deciding expressions of the body reader are regenerated from "
          "wsgi.py on every run and the whole trace model is tied to /repo by differential evaluation of ~1600 "
          "instrumented WSGI calls per run.",
  'design_ref': 'DESIGN.md section 6 (C13)',
  'note': TB + "Lower layers (protocols, user code, serialisers) enter as universally quantified per-stage outcomes; "
          "PEP 3333 typing rules (str headers, bytes chunks) are observed by the oracle and wsgiref.validate, not "
          "proved; MTOM, auxiliary contexts, push interface and raising listeners are not modelled. One finding listed "
          "(HttpRpc never reads an undeclared body).",
  'technique': 'Coq proof over a trace model of the WSGI layer + source-generated reader expressions + differential correspondence',
 },
 'C17': {
  'text': "Theorems that the parser configuration REGENERATED from the source on every run (XmlDocument.__init__ defaults, "
          "the parser_kwargs dict, the parser argument and the try/except around every lxml parse call reachable from a "
          "request in xml.py, soap11.py, soap12.py, mime.py, _inbase.py) is safe at every request site, and that under a "
          "safe configuration, for ALL documents and ALL file-system/network contents, the modelled libxml2 parse opens "
          "nothing, returns a result independent of the outside world, keeps the request's own tree verbatim (no entity "
          "expanded into element content, no DTD defaults), accepts depth <= 256 only, and every rejection (bombs, "
          "nesting, loops) is a Client.XMLSyntaxError fault; each safety clause is shown necessary by a witness. The "
          "libxml2 option model is tied to the real parser by differential evaluation under 15 configurations, and a "
          "direct oracle watches canary files (inotify), a localhost socket and canary strings on 7 request routes.",
  'design_ref': 'DESIGN.md section 6 (C17)',
  'note': TB + "libxml2/lxml option semantics are modelled (coq/C17/Xml.v) and compared with the real parser, not verified; "
          "bounded time/memory is measured on a subprocess, not proved; network fetches cannot be attempted by this "
          "sandbox's libxml2 at all, so no_network is covered by the proof obligation only. One finding family listed: "
          "internal entities referenced in ATTRIBUTE values are substituted by libxml2 on read.",
  'technique': 'Coq proof over source-generated parser configuration + libxml2 option model; differential correspondence; canary oracle',
 },
}
NOT_APPLICABLE = {}
