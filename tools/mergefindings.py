#!/usr/bin/env python3
"""Merges known_findings.d/*.json (per-property fragments delivered by the builders) into
known_findings.json and removes the fragments.  `fixed` entries get the hash of the /repo commit whose
subject matches."""
import json, os, subprocess, sys
ROOT = os.path.dirname(os.path.dirname(os.path.abspath(__file__)))
kf_path = os.path.join(ROOT, 'known_findings.json')
kf = json.load(open(kf_path))
have = {(f['property'], f['key']) for f in kf}
log = subprocess.run(['git', '-C', '/repo', 'log', '--format=%h %s'], stdout=subprocess.PIPE, text=True).stdout.split('\n')
d = os.path.join(ROOT, 'known_findings.d')
n = 0
for fn in sorted(os.listdir(d)) if os.path.isdir(d) else []:
    if not fn.endswith('.json'):
        continue
    for f in json.load(open(os.path.join(d, fn))):
        if (f['property'], f['key']) in have:
            continue
        if f.get('status') == 'fixed':
            subj = (f.get('commit') or '').strip()
            cand = [l for l in log if subj and (l.split(' ', 1)[1:] or [''])[0].startswith(subj[:60])]
            if len(cand) == 1:
                f['commit'] = cand[0]
            else:
                print('WARNING: no unique /repo commit for fixed entry %s (%r): %d candidates' % (f['key'], subj, len(cand)))
            f.setdefault('line', 'fixed: property=%s %s %s' % (f['property'], f.get('commit', '').split(' ')[0], f.get('what', '')))
        kf.append(f); have.add((f['property'], f['key'])); n += 1
    os.remove(os.path.join(d, fn))
json.dump(kf, open(kf_path, 'w'), indent=1)
print('merged %d entries; %d total' % (n, len(kf)))
