#!/usr/bin/env python3
"""Runs the registered checks against the seeded breaking changes under /verif/seeded/<id>/.

  tools/seedrun.py [--in-repo] [ids...]

Default: each patch is applied to a scratch worktree of /repo under /tmp (removed afterwards) and
the check is pointed at it with VERIF_REPO.  With --in-repo the patch is applied to /repo itself
(git -C /repo apply), the check is run, and the change is undone straight afterwards
(git -C /repo checkout -- .).  Results: /verif/seeded/<id>/result.json and /verif/seeded/RESULTS.md.
"""
import os, sys, json, subprocess, time, shutil

ROOT = os.path.dirname(os.path.dirname(os.path.abspath(__file__)))
SEEDED = os.path.join(ROOT, 'seeded')


def sh(cmd, **kw):
    return subprocess.run(cmd, shell=True, stdout=subprocess.PIPE, stderr=subprocess.STDOUT, text=True, **kw)


def run_one(sid, in_repo):
    d = os.path.join(SEEDED, sid)
    meta = json.load(open(os.path.join(d, 'meta.json')))
    prop = meta['property']
    patch = os.path.join(d, 'patch.diff')
    env = dict(os.environ)
    env.pop('VERIF_REPO', None)
    if in_repo:
        r = sh('git -C /repo status --porcelain')
        if r.stdout.strip():
            raise SystemExit('/repo is not clean')
        r = sh('git -C /repo apply %s' % patch)
        if r.returncode:
            return {'id': sid, 'property': prop, 'error': 'patch does not apply: ' + r.stdout[-300:]}
        target = '/repo'
    else:
        target = '/tmp/seedwt-%s-%d' % (sid, os.getpid())
        sh('git -C /repo worktree remove --force %s' % target)
        r = sh('git -C /repo worktree add -q --detach %s HEAD' % target)
        r = sh('git -C %s apply %s' % (target, patch))
        if r.returncode:
            # /repo has gained fix: commits since the change was produced: carry the patch over with fuzz
            # (same edit, shifted / slightly different context) and keep the carried-over patch
            r2 = sh('cd %s && patch -p1 -F3 --no-backup-if-mismatch < %s' % (target, patch))
            if r2.returncode or sh('git -C %s status --porcelain' % target).stdout.strip() == '':
                sh('git -C /repo worktree remove --force %s' % target)
                return {'id': sid, 'property': prop, 'error': 'patch does not apply: ' + r.stdout[-300:]}
            sh('find %s -name "*.orig" -o -name "*.rej" | xargs rm -f' % target)
            newp = sh('git -C %s diff' % target).stdout
            open(patch, 'w').write(newp)
            meta['rebased'] = (meta.get('rebased', '') + ' | ' if meta.get('rebased') else '') + \
                'carried over with patch -F3 onto /repo %s' % sh('git -C /repo rev-parse --short HEAD').stdout.strip()
            json.dump(meta, open(os.path.join(d, 'meta.json'), 'w'), indent=1)
        env['VERIF_REPO'] = target
    t0 = time.time()
    try:
        checks = meta.get('checks') or [prop]
        res = {'id': sid, 'property': prop, 'checks': {}}
        for c in checks:
            r = subprocess.run(['./vcheck', c, '--tier', 'quick'], cwd=ROOT, env=env, stdout=subprocess.PIPE,
                               stderr=subprocess.PIPE, text=True)
            vio = [l for l in r.stdout.split('\n') if l.startswith('VIOLATION')]
            res['checks'][c] = {'rc': r.returncode, 'violations': vio[:5],
                                'concrete_replay': any('no-failing-input-found' not in l for l in vio),
                                'stderr_tail': r.stderr[-600:]}
        res['detected'] = any(v['rc'] == 1 and v['violations'] for v in res['checks'].values())
        res['wall_s'] = round(time.time() - t0, 1)
    finally:
        if in_repo:
            sh('git -C /repo checkout -- .')
        else:
            sh('git -C /repo worktree remove --force %s' % target)
    # restore generated files / evidence for the unchanged tree
    return res


def main():
    args = sys.argv[1:]
    in_repo = '--in-repo' in args
    ids = [a for a in args if not a.startswith('--')] or sorted(
        x for x in os.listdir(SEEDED) if os.path.isdir(os.path.join(SEEDED, x)))
    rows = []
    for sid in ids:
        if json.load(open(os.path.join(SEEDED, sid, 'meta.json'))).get('obsolete'):
            print(sid, 'OBSOLETE (the code it edited was replaced by a later fix; see meta.json)')
            continue
        res = run_one(sid, in_repo)
        json.dump(res, open(os.path.join(SEEDED, sid, 'result.json'), 'w'), indent=1)
        rows.append(res)
        print(sid, 'DETECTED' if res.get('detected') else 'MISSED', res.get('error', ''),
              {c: (v['rc'], 'concrete' if v['concrete_replay'] else 'no-input') for c, v in res.get('checks', {}).items()})
    # kill matrix over everything that has a result
    lines = ['# Seeded changes: which check catches which', '',
             '| id | property | summary | detected | how |', '|---|---|---|---|---|']
    for sid in sorted(os.listdir(SEEDED)):
        p = os.path.join(SEEDED, sid, 'result.json')
        if not os.path.exists(p):
            continue
        r = json.load(open(p))
        m = json.load(open(os.path.join(SEEDED, sid, 'meta.json')))
        if m.get('obsolete'):
            lines.append('| %s | %s | %s | obsolete | %s |' % (sid, r['property'], m.get('summary', '')[:90].replace('|', '/'),
                                                               m['obsolete'][:160].replace('|', '/')))
            continue
        how = '; '.join('%s: %s' % (c, 'replay' if v['concrete_replay'] else ('no-failing-input-found' if v['violations'] else 'silent'))
                        for c, v in r.get('checks', {}).items())
        lines.append('| %s | %s | %s | %s | %s |' % (sid, r['property'], m.get('summary', '')[:90].replace('|', '/'),
                                                    'yes' if r.get('detected') else 'NO', how))
    open(os.path.join(SEEDED, 'RESULTS.md'), 'w').write('\n'.join(lines) + '\n')
    # leave coq/Gen and evidence consistent with the unchanged tree
    subprocess.run(['/venv/bin/python', os.path.join(ROOT, 'harness', 'regen.py')], cwd=ROOT,
                   stdout=subprocess.DEVNULL, stderr=subprocess.DEVNULL)


if __name__ == '__main__':
    main()
