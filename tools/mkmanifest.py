#!/usr/bin/env python3
"""Writes MANIFEST.json from tools/manifest_src.py (single source of truth)."""
import json, os, sys
ROOT = os.path.dirname(os.path.dirname(os.path.abspath(__file__)))
sys.path.insert(0, os.path.join(ROOT, 'tools'))
import manifest_src as M
props = [json.loads(l)['id'] for l in open(os.path.join(ROOT, 'properties.jsonl'))]
checks = []
for pid in props:
    if pid not in M.CHECKS or pid in getattr(M, 'SUSPENDED', {}):
        continue
    c = M.CHECKS[pid]
    checks.append({
        'property_id': pid,
        'quick_cmd': './vcheck %s --tier quick' % pid,
        'thorough_cmd': './vcheck %s --tier thorough' % pid,
        'evidence_file': '/verif/evidence/%s.json' % pid,
        'replay_cmd_template': './vcheck %s --replay {path}' % pid,
        'engine': 'coq-model+correspondence',
        'level_claimed': {'category': 'proof', 'text': c['text'], 'design_ref': c['design_ref']},
        'level_note': c['note'],
        'technique': c['technique'],
    })
susp = getattr(M, 'SUSPENDED', {})
na = [{'property_id': p, 'reason': susp.get(p) or M.NOT_APPLICABLE.get(p, 'check not built yet in this round; not claimed')}
      for p in props if p not in M.CHECKS or p in susp]
man = {
    'version': 1,
    'setup_cmd': './setup.sh',
    'hooks': {'guard': 'SPYNE_VERIF', 'enable': 'none needed: no hooks in /repo; checks import /repo directly',
              'baseline_off_cmd': 'cd /repo && /venv/bin/python -m pytest -ra -q -p no:cacheprovider --timeout=900 --continue-on-collection-errors',
              'source_commits': [], 'add_only': True},
    'engines': [{'name': 'coq-model+correspondence', 'path': '/verif/vcheck',
                 'serves_properties': [c['property_id'] for c in checks],
                 'kind_free_text': 'Coq 8.16 theorems over hand-written Gallina models and ast-generated tables (coq/), '
                                   'tied to /repo on every run by regeneration (harness/translate) and by a differential '
                                   'correspondence check (harness/*.py evaluating the models with vm_compute)'}],
    'checks': checks,
    'notes': M.NOTES,
    'not_applicable': na,
}
json.dump(man, open(os.path.join(ROOT, 'MANIFEST.json'), 'w'), indent=1)
print('MANIFEST.json: %d checks, %d not claimed' % (len(checks), len(na)))
