#!/bin/bash
# Runs the pinned baseline (guard OFF) and compares with BASELINE.json's stable_pass list.
REPO=${VERIF_REPO:-/repo}
cd $REPO || exit 2
OUT=$(mktemp /tmp/junit.XXXXXX.xml)
unset SPYNE_VERIF
/venv/bin/python -m pytest -ra -q -p no:cacheprovider --timeout=900 --continue-on-collection-errors --junitxml=$OUT >/dev/null 2>&1
/venv/bin/python - "$OUT" <<'PY'
import sys, json, xml.etree.ElementTree as ET
b = json.load(open('/root/.vp/BASELINE.json'))
stable = set(b['stable_pass'])
root = ET.parse(sys.argv[1]).getroot()
passed = set()
for tc in root.iter('testcase'):
    if not any(ch.tag in ('failure', 'error', 'skipped') for ch in tc):
        passed.add(tc.get('classname') + '::' + tc.get('name'))
def norm(s): return s
missing = sorted(x for x in stable if x not in passed)
if missing:
    # try alternative id formats
    alt = set()
    for tc in root.iter('testcase'):
        if not any(ch.tag in ('failure', 'error', 'skipped') for ch in tc):
            alt.add(tc.get('classname').replace('.', '/') + '.py::' + tc.get('name'))
            alt.add(tc.get('classname') + '.' + tc.get('name'))
    missing = sorted(x for x in stable if x not in passed and x not in alt)
print("stable=%d passed_now=%d missing=%d" % (len(stable), len(passed), len(missing)))
for m in missing[:20]: print("MISSING", m)
sys.exit(1 if missing else 0)
PY
rc=$?
rm -f $OUT
git -C $REPO status --short | head
exit $rc
