#!/usr/bin/env python3
"""tools/harmlessadd.py <dir with patch.diff meta.json equiv.py> <id>
Confirms an independently produced BEHAVIOUR-PRESERVING change in a scratch worktree of /repo (HEAD):
the patch applies, equiv.py prints the same transcript on the unchanged and on the changed tree, and the
pinned baseline still passes; then copies it to /verif/harmless/<id>/."""
import os, sys, json, subprocess, shutil, time
ROOT = os.path.dirname(os.path.dirname(os.path.abspath(__file__)))
src, sid = os.path.abspath(sys.argv[1]), sys.argv[2]
wt = '/tmp/harmconfirm-%s' % sid
def sh(cmd, **kw):
    return subprocess.run(cmd, shell=True, stdout=subprocess.PIPE, stderr=subprocess.STDOUT, text=True, **kw)
sh('git -C /repo worktree remove --force %s' % wt)
sh('git -C /repo worktree add -q --detach %s HEAD' % wt)
rec = {'repo_head': sh('git -C /repo rev-parse --short HEAD').stdout.strip(), 'when': time.strftime('%Y-%m-%d %H:%M')}
ok = False
try:
    env = dict(os.environ, PYTHONPATH=wt, PYTHONHASHSEED='0')
    run = lambda: subprocess.run(['timeout', '600', '/venv/bin/python', '-W', 'ignore', os.path.join(src, 'equiv.py')], env=env,
                                 cwd=src, stdout=subprocess.PIPE, stderr=subprocess.DEVNULL, text=True)
    r0 = run()
    a = sh('git -C %s apply %s' % (wt, os.path.join(src, 'patch.diff')))
    if a.returncode:
        a = sh('cd %s && patch -p1 -F3 --no-backup-if-mismatch < %s' % (wt, os.path.join(src, 'patch.diff')))
        if a.returncode == 0:
            open(os.path.join(src, 'patch.diff'), 'w').write(sh('git -C %s diff' % wt).stdout)
    rec['patch_applies'] = a.returncode == 0
    r1 = run()
    rec['equiv_rc'] = [r0.returncode, r1.returncode]
    rec['transcripts_identical'] = r0.stdout == r1.stdout and len(r0.stdout) > 0
    rec['transcript_lines'] = r0.stdout.count('\n')
    b = subprocess.run([os.path.join(ROOT, 'tools', 'baseline.sh')], env=dict(os.environ, VERIF_REPO=wt), stdout=subprocess.PIPE, stderr=subprocess.STDOUT, text=True)
    rec['baseline'] = b.stdout.strip().split('\n')[0] if b.stdout.strip() else ''
    ok = rec['patch_applies'] and rec['transcripts_identical'] and r0.returncode == 0 and r1.returncode == 0 and b.returncode == 0
finally:
    sh('git -C /repo worktree remove --force %s' % wt)
rec['confirmed'] = ok
print(json.dumps(rec))
if ok:
    dst = os.path.join(ROOT, 'harmless', sid)
    os.makedirs(dst, exist_ok=True)
    for f in ('patch.diff', 'equiv.py', 'meta.json'):
        shutil.copy(os.path.join(src, f), os.path.join(dst, f))
    m = json.load(open(os.path.join(dst, 'meta.json')))
    m['confirmed'] = rec
    m.setdefault('summary', m.get('title', ''))
    json.dump(m, open(os.path.join(dst, 'meta.json'), 'w'), indent=1)
sys.exit(0 if ok else 1)
