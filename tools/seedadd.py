#!/usr/bin/env python3
"""tools/seedadd.py <dir with patch.diff demo.py meta.json> <id>
Confirms an independently produced breaking change in a scratch worktree of /repo (HEAD):
  1. demo.py exits 0 on the unchanged tree,  2. the patch applies,  3. demo.py exits non-zero with it,
  4. the pinned baseline (696 tests) still passes with it (tools/baseline.sh),
and only then copies it to /verif/seeded/<id>/ (meta.json gains a `confirmed` record)."""
import os, sys, json, subprocess, shutil, time
ROOT = os.path.dirname(os.path.dirname(os.path.abspath(__file__)))
src, sid = sys.argv[1], sys.argv[2]
wt = '/tmp/seedconfirm-%s' % sid
def sh(cmd, **kw):
    return subprocess.run(cmd, shell=True, stdout=subprocess.PIPE, stderr=subprocess.STDOUT, text=True, **kw)
sh('git -C /repo worktree remove --force %s' % wt)
sh('git -C /repo worktree add -q --detach %s HEAD' % wt)
rec = {'repo_head': sh('git -C /repo rev-parse --short HEAD').stdout.strip(), 'when': time.strftime('%Y-%m-%d %H:%M')}
ok = False
try:
    env = dict(os.environ, PYTHONPATH=wt, PYTHONHASHSEED='0')
    demo = os.path.join(src, 'demo.py')
    r0 = subprocess.run(['timeout', '600', '/venv/bin/python', '-W', 'ignore', demo], env=env, cwd=src, stdout=subprocess.PIPE, stderr=subprocess.STDOUT, text=True)
    rec['demo_unchanged_rc'] = r0.returncode
    a = sh('git -C %s apply %s' % (wt, os.path.join(os.path.abspath(src), 'patch.diff')))
    rec['patch_applies'] = a.returncode == 0
    if a.returncode:
        rec['apply_error'] = a.stdout[-400:]
    r1 = subprocess.run(['timeout', '600', '/venv/bin/python', '-W', 'ignore', demo], env=env, cwd=src, stdout=subprocess.PIPE, stderr=subprocess.STDOUT, text=True)
    rec['demo_changed_rc'] = r1.returncode
    rec['demo_changed_tail'] = r1.stdout[-400:]
    b = subprocess.run([os.path.join(ROOT, 'tools', 'baseline.sh')], env=dict(os.environ, VERIF_REPO=wt), stdout=subprocess.PIPE, stderr=subprocess.STDOUT, text=True)
    rec['baseline'] = b.stdout.strip().split('\n')[0] if b.stdout.strip() else ''
    rec['baseline_rc'] = b.returncode
    ok = r0.returncode == 0 and a.returncode == 0 and r1.returncode != 0 and b.returncode == 0
finally:
    sh('git -C /repo worktree remove --force %s' % wt)
rec['confirmed'] = ok
print(json.dumps(rec, indent=1))
if ok:
    dst = os.path.join(ROOT, 'seeded', sid)
    os.makedirs(dst, exist_ok=True)
    for f in ('patch.diff', 'demo.py', 'meta.json'):
        shutil.copy(os.path.join(src, f), os.path.join(dst, f))
    m = json.load(open(os.path.join(dst, 'meta.json')))
    m['confirmed'] = rec
    m.setdefault('summary', m.get('title', ''))
    json.dump(m, open(os.path.join(dst, 'meta.json'), 'w'), indent=1)
sys.exit(0 if ok else 1)
