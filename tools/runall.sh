#!/bin/bash
# tools/runall.sh [quick|thorough] [seed]  - every check registered in MANIFEST.json, one after the other;
# prints one line per property and validates each evidence file against the schema.
cd "$(dirname "$0")/.."
TIER=${1:-quick}; export VERIF_SEED=${2:-0}
rc=0
for p in $(python3 -c "import json; print(' '.join(c['property_id'] for c in json.load(open('MANIFEST.json'))['checks']))"); do
  t0=$(date +%s)
  out=$(./vcheck $p --tier $TIER 2>/tmp/runall.$p.err); r=$?
  t1=$(date +%s)
  nv=$(echo "$out" | grep -c '^VIOLATION'); nk=$(echo "$out" | grep -c '^KNOWN-FINDING')
  ev=$(python3-vt - <<PY 2>&1 | tail -1
import json, jsonschema
try:
    jsonschema.validate(json.load(open('evidence/$p.json')), json.load(open('/root/.vp/EVIDENCE.schema.json'))); print('evidence-ok')
except Exception as e:
    print('EVIDENCE-INVALID', str(e)[:80])
PY
)
  echo "$p rc=$r violations=$nv known=$nk $((t1-t0))s $ev | $(tail -1 /tmp/runall.$p.err)"
  [ $r -ne 0 ] && rc=1
  rm -f /tmp/runall.$p.err
done
exit $rc
